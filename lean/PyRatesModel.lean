import PyRatesModel.Generated.Tables
import PyRatesModel.Props.C01
import PyRatesModel.Props.C03
import PyRatesModel.Props.C04
import PyRatesModel.Props.C07
import PyRatesModel.Props.C15
import PyRatesModel.Props.C19
