import PyRatesModel.Generated.Tables
import PyRatesModel.Hist.DDEHistory
import PyRatesModel.Lemmas.Hist
import PyRatesModel.Props.C19
