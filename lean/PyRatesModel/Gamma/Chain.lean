import PyRatesModel.Solver.Fixed
/-
Model of the gamma-kernel realisation of distributed delays:
  pyrates/ir/circuit.py  _add_edge_buffer (520-600, scalar edges): order n = round((d/s)^2) (or dde_approx), rate a = n/d, one chain
      `z_1' = a (u - z_1)`, `z_k' = a (z_{k-1} - z_k)` per group of edges of a source variable with the same (n, a); order 0 = pass-through;
  _add_matrix_delay (384-470, Connectivity): n = max(1, round((d/s)^2)), or dde_approx, same chain on the source vector.
-/
namespace PyRates.Gamma
open PyRates.Solver

/-- order of the chain of a scalar edge (`_add_edge_buffer`): the spread-derived order if it exceeds `ddeApprox`, else `ddeApprox`;
no chain at all for a zero delay -/
def orderScalar (d s : Rat) (ddeApprox : Nat) : Nat :=
  if d = 0 then 0
  else if 0 < s then
    let n := (pyRound ((d / s) * (d / s))).toNat
    if n > ddeApprox then n else ddeApprox
  else ddeApprox

/-- order of the chain of a Connectivity (`_add_matrix_delay`, ODE-cascade branch) -/
def orderMatrix (d s : Rat) (ddeApprox : Nat) : Nat :=
  if 0 < s then max 1 (pyRound ((d / s) * (d / s))).toNat
  else if 0 < ddeApprox then ddeApprox
  else 1

def rate (n : Nat) (d : Rat) : Rat := if d = 0 then 0 else (n : Rat) / d

/-- right-hand sides of the stages: `a (prev - z)` with `prev` the input for the first stage -/
def chainDeriv (a u : Rat) : List Rat → List Rat
  | [] => []
  | z :: zs => a * (u - z) :: chainDeriv a z zs

/-- what the chain delivers: its last stage; the input itself for a chain of order 0 -/
def chainOut (u : Rat) (zs : List Rat) : Rat := zs.getLastD u

/-- one Euler step of the chain driven by `u` -/
def chainEuler (a dt u : Rat) (zs : List Rat) : List Rat := List.zipWith (fun z dz => z + dt * dz) zs (chainDeriv a u zs)

/-- grouping of delay slots `(slot, order, rate)` by `(order, rate)`: slots with the same key share one chain -/
def insertSlot (key : Nat × Rat) (slot : Nat) : List ((Nat × Rat) × List Nat) → List ((Nat × Rat) × List Nat)
  | [] => [(key, [slot])]
  | (k, ss) :: rest => if k = key then (k, ss ++ [slot]) :: rest else (k, ss) :: insertSlot key slot rest

def groupSlots : List (Nat × (Nat × Rat)) → List ((Nat × Rat) × List Nat)
  | [] => []
  | (slot, key) :: rest => insertSlot key slot (groupSlots rest)

/-- how `_add_edge_buffer` realises one delay slot `(d, s)` of a source variable whose edges go through the ODE-chain branch
(one of them has a spread, or `dde_approx` is set) -/
inductive SlotKind where
  | through
  | chain (order : Nat) (rate : Rat)
  | ring (steps : Nat)
  | history (delay : Rat)
deriving DecidableEq, Repr

def slotKind (adaptive : Bool) (dt d s : Rat) (ddeApprox : Nat) : SlotKind :=
  let n := orderScalar d s ddeApprox
  if 0 < n then .chain n (rate n d)
  else if d = 0 then .through
  else if adaptive then .history d
  else
    let k := (pyRound (d / dt)).toNat
    if 1 < k then .ring k else .through

/-- the behaviour before the repair: a slot of order 0 was passed through whatever its delay -/
def slotKindOld (d s : Rat) (ddeApprox : Nat) : SlotKind :=
  let n := orderScalar d s ddeApprox
  if 0 < n then .chain n (rate n d) else .through

end PyRates.Gamma
