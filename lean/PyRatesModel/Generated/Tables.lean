/- GENERATED on every check run by harness/extract_tables.py from /repo's working tree.  Do not edit. -/
namespace PyRates.Tables

def histInitialCapacity : Nat := 1024
def histGrowFactor : Nat := 2
def heunCopiesRhs : Bool := true
/-- BaseBackend.run builds `times` as np.arange(n)*step (true) or as linspace(0,T,n,endpoint=False)/unknown (false) -/
def timeAxisIsArange : Bool := true
def opCacheKeyIncludesDefinition : Bool := true
def irCachesResetAtApply : Bool := true
def replaceAllowedFollowOps : String := "-+=*/^<>=!.%@[]():, '"
def varInExprFollowOps : String := "+-=*/^<>=!.%@[]():, "

/-- entries the extractor could not find in the source (a theorem that needs one fails to build) -/
def missing : List String := []

end PyRates.Tables
