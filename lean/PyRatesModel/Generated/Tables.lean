/- GENERATED on every check run by harness/extract_tables.py from /repo's working tree.  Do not edit. -/
namespace PyRates.Tables

def histInitialCapacity : Nat := 1024
def histGrowFactor : Nat := 2
/-- the history read emitted for fixed-step solvers is `hist(t*dt - d)[idx]` (t = step counter scaled to time units) -/
def histFixedStepScalesT : Bool := true
/-- the history read emitted for adaptive solvers is `hist(t - d)[idx]` -/
def histAdaptiveUsesT : Bool := true
/-- the two-point formula of the generated Fortran `finterp` starts from sample `n-1` -/
def finterpBaseIsPrev : Bool := true
/-- `_process_idx` tests membership with the very expression it inserts into `_offsetted_var_ids` -/
def idxOffsetKeyConsistent : Bool := true
/-- the torch backend's `interp` definition is the clamped two-point formula that the correspondence was validated for -/
def torchInterpIsLinear : Bool := true
def heunCopiesRhs : Bool := true
def storeGuarded : Bool := true
/-- BaseBackend.run builds `times` as np.arange(n)*step (true) or as linspace(0,T,n,endpoint=False)/unknown (false) -/
def timeAxisIsArange : Bool := true
structure BackendT where
  name : String
  supported : List String
  validatesFirst : Bool
  branches : List (String × String)   -- explicitly tested solver name ↦ what the returned method implements
  fallthrough : String                -- what the final return implements; "super" = delegates to the base class
  hasOwnSolve : Bool
  sparseJac : Bool
  edgeDelayBuffer : Bool
deriving Repr, DecidableEq
def backends : List BackendT := [{ name := "base", supported := ["euler", "heun", "scipy"], validatesFirst := true, branches := [("euler", "euler"), ("heun", "heun"), ("?len(args)>0andisinstance(args[0],DDEHistory)", "scipy")], fallthrough := "scipy", hasOwnSolve := true, sparseJac := true, edgeDelayBuffer := true },
  { name := "torch", supported := ["euler", "scipy"], validatesFirst := false, branches := [], fallthrough := "super", hasOwnSolve := false, sparseJac := true, edgeDelayBuffer := true },
  { name := "jax", supported := ["euler", "heun", "scipy", "diffrax"], validatesFirst := true, branches := [("diffrax", "diffrax"), ("scipy", "scipy"), ("euler", "euler")], fallthrough := "heun", hasOwnSolve := true, sparseJac := false, edgeDelayBuffer := false },
  { name := "fortran", supported := ["euler", "heun", "scipy"], validatesFirst := true, branches := [], fallthrough := "super", hasOwnSolve := true, sparseJac := true, edgeDelayBuffer := true },
  { name := "julia", supported := ["euler", "heun", "scipy", "julia_ode", "julia_dde"], validatesFirst := true, branches := [("?'julia'insolver", "?")], fallthrough := "?results", hasOwnSolve := true, sparseJac := true, edgeDelayBuffer := true },
  { name := "matlab", supported := ["euler", "heun", "scipy"], validatesFirst := true, branches := [], fallthrough := "super", hasOwnSolve := true, sparseJac := true, edgeDelayBuffer := true }]
def ringFlagSticky : Bool := true
def vectorizeForbiddenBackends : List String := ["fortran"]
def autoBlockedLo : Nat := 10
def autoBlockedHi : Nat := 15
def autoTimeSlot : Nat := 14
def disallowedNames : List String := ["y", "dy", "source_idx", "target_idx", "pi", "I", "E", "S", "Q", "O", "N", "oo", "zoo", "nan", "beta", "gamma", "Beta", "Gamma", "exp", "log", "sin", "cos", "tan", "cot", "sec", "csc", "sinh", "cosh", "tanh", "sqrt", "abs"]
def disallowedNameParts : List String := ["_buffer", "_delays", "_maxdelay", "_idx", "_hist"]
def opCacheKeyIncludesDefinition : Bool := true
def irCachesResetAtApply : Bool := true
def replaceAllowedFollowOps : String := "-+=*/^<>=!.%@[]():, '"
def varInExprFollowOps : String := "+-=*/^<>=!.%@[]():, "

/-- entries the extractor could not find in the source (a theorem that needs one fails to build) -/
def missing : List String := []

end PyRates.Tables
