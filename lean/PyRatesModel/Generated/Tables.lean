/- GENERATED on every check run by harness/extract_tables.py from /repo's working tree.  Do not edit. -/
namespace PyRates.Tables

def histInitialCapacity : Nat := 1024
def histGrowFactor : Nat := 2

/-- entries the extractor could not find in the source (a theorem that needs one fails to build) -/
def missing : List String := []

end PyRates.Tables
