import Mathlib.Analysis.Calculus.Deriv.Pow
import Mathlib.Analysis.Calculus.Deriv.Mul
import Mathlib.Analysis.Calculus.Deriv.Add
import Mathlib.Analysis.Calculus.Deriv.Comp
import PyRatesModel.Net.Jac
/-!
Soundness of the formal derivative `Net.D` (C12), over the reals, with Mathlib's calculus library.
This is the only file of the project that imports Mathlib.
-/
namespace PyRates.Net
open Function

/-- real-valued evaluation; `I f` interprets the unary named function `f`, binary named functions are not covered here -/
noncomputable def evalR (I : String → ℝ → ℝ) (ρ : String → ℝ) : Expr → ℝ
  | .num q => ((q : ℚ) : ℝ)
  | .var x => ρ x
  | .add a b => evalR I ρ a + evalR I ρ b
  | .sub a b => evalR I ρ a - evalR I ρ b
  | .mul a b => evalR I ρ a * evalR I ρ b
  | .neg a => - evalR I ρ a
  | .pow a k => (evalR I ρ a) ^ k
  | .call1 f a => I f (evalR I ρ a)
  | .call2 _ _ _ => 0

/-- expressions without binary named functions -/
def Unary : Expr → Prop
  | .num _ | .var _ => True
  | .add a b | .sub a b | .mul a b => Unary a ∧ Unary b
  | .neg a | .pow a _ | .call1 _ a => Unary a
  | .call2 _ _ _ => False

/-- **The formal derivative is the derivative.**  For every expression without binary named functions, every environment and every
variable `x`: the map `v ↦ ⟦e⟧(ρ[x ↦ v])` has derivative `⟦D x e⟧ρ` at `v = ρ x`, provided the name `f'` denotes the derivative of the
unary named function `f` (that is how `_resolve_derivatives` treats sigmoid/absv and sympy treats exp, sin, …). -/
theorem C12_diff_sound (I : String → ℝ → ℝ) (hI : ∀ f a, HasDerivAt (I f) (I (f ++ "'") a) a)
    (ρ : String → ℝ) (x : String) (e : Expr) (hu : Unary e) :
    HasDerivAt (fun v => evalR I (update ρ x v) e) (evalR I ρ (D x e)) (ρ x) := by
  have hupd : update ρ x (ρ x) = ρ := update_eq_self x ρ
  induction e with
  | num q =>
    simp only [evalR, D]
    exact hasDerivAt_const (ρ x) ((q : ℚ) : ℝ) |>.congr_deriv (by simp)
  | var y =>
    by_cases h : y = x
    · subst h
      simp only [evalR, D, beq_self_eq_true, if_true, update_self]
      exact (hasDerivAt_id' (ρ y)).congr_deriv (by simp)
    · have hb : (y == x) = false := by simpa using h
      simp only [evalR, D, hb, Bool.false_eq_true, if_false, update_of_ne h]
      exact (hasDerivAt_const (ρ x) (ρ y)).congr_deriv (by simp)
  | add a b iha ihb => simp only [evalR, D]; exact (iha hu.1).fun_add (ihb hu.2)
  | sub a b iha ihb => simp only [evalR, D]; exact (iha hu.1).fun_sub (ihb hu.2)
  | mul a b iha ihb =>
    simp only [evalR, D]
    have := (iha hu.1).fun_mul (ihb hu.2)
    simp only [hupd] at this
    exact this
  | neg a ih => simp only [evalR, D]; exact (ih hu).fun_neg
  | pow a k ih =>
    by_cases hk : k = 0
    · subst hk
      simp only [evalR, D, beq_self_eq_true, if_true, pow_zero]
      exact (hasDerivAt_const (ρ x) (1 : ℝ)).congr_deriv (by simp)
    · have hb : (k == 0) = false := by simpa using hk
      have := (ih hu).fun_pow k
      simp only [hupd] at this
      simp only [evalR, D, hb, Bool.false_eq_true, if_false]
      refine this.congr_deriv ?_
      push_cast
      ring
  | call1 f a ih =>
    have h1 := hI f (evalR I ρ a)
    have h2 := ih hu
    simp only [evalR, D]
    have := HasDerivAt.comp (ρ x) (by simpa [hupd] using h1) h2
    exact this
  | call2 f a b _ _ => exact absurd hu (by simp [Unary])

end PyRates.Net
