import PyRatesModel.Hist.DDEHistory
/-
Model of how a delayed model is compiled and integrated:

  pyrates/backend/computegraph.py  to_func (423-482): for every delayed term the generated function starts with one line
        `<x>_hist<k> = hist(t - d)[idx]`           (adaptive solvers: `t` is the time)
        `<x>_hist<k> = hist(t*dt - d)[idx]`        (fixed-step solvers: `t` is the step counter)   -- BaseBackend.add_var_hist (437-444)
     followed by the ordinary body in which the delayed term is the plain variable `<x>_hist<k>`;
  pyrates/backend/base/base_backend.py  _solve_euler / _solve_heun (713-769): after every step `args[0].update((i+1)*dt, y)`;
  the history object itself is `Hist` (C19).

The body of the generated function is a parameter: `body t y reads` is the derivative computed from the time, the state and the list of
delayed reads (one scalar per delayed term, in the order of the terms).  The driver instantiates it with the network evaluator.
-/
namespace PyRates.Delay
open PyRates.Hist

/-- one delayed term: component `idx` of the state, `delay` time units ago -/
structure PastTerm where
  idx : Nat
  delay : Rat
deriving Repr, DecidableEq

abbrev Body := Rat → Vec → List Rat → Vec

/-- `hist(tq)[idx]` -/
def readAt (h : Hist) (tq : Rat) (idx : Nat) : Except Err Rat :=
  match h.query tq with
  | .ok v => match v[idx]? with
    | some x => .ok x
    | none => .error .garbage
  | .error e => .error e

/-- all reads, in order; the first failing read fails the call -/
def readAll (h : Hist) (t : Rat) : List PastTerm → Except Err (List Rat)
  | [] => .ok []
  | p :: ps => match readAt h (t - p.delay) p.idx with
    | .ok x => match readAll h t ps with
      | .ok xs => .ok (x :: xs)
      | .error e => .error e
    | .error e => .error e

/-- the generated function called with the time `t` (time units) -/
def compiled (body : Body) (terms : List PastTerm) (t : Rat) (y : Vec) (h : Hist) : Except Err Vec :=
  match readAll h t terms with
  | .ok rs => .ok (body t y rs)
  | .error e => .error e

/-- the time the generated function computes its history reads from when a fixed-step solver passes the step counter `i`;
`scaled` is read from the source (`Tables.histFixedStepScalesT`) -/
def fixedTime (scaled : Bool) (dt : Rat) (i : Nat) : Rat := if scaled then (i : Rat) * dt else (i : Rat)

/-- one step of `_solve_euler` on a delayed model -/
def eulerStep (body : Body) (terms : List PastTerm) (scaled : Bool) (dt : Rat) (gf : Nat) (i : Nat) (y : Vec) (h : Hist) :
    Except Err (Vec × Hist) :=
  match compiled body terms (fixedTime scaled dt i) y h with
  | .error e => .error e
  | .ok rhs =>
    let y' := vadd y (vscale dt rhs)
    match h.update (((i : Rat) + 1) * dt) y' gf with
    | .ok h' => .ok (y', h')
    | .error e => .error e

/-- one step of `_solve_heun` on a delayed model: both evaluations see the same history and the same `t` -/
def heunStep (body : Body) (terms : List PastTerm) (scaled : Bool) (dt : Rat) (gf : Nat) (i : Nat) (y : Vec) (h : Hist) :
    Except Err (Vec × Hist) :=
  match compiled body terms (fixedTime scaled dt i) y h with
  | .error e => .error e
  | .ok k1 =>
    let y0 := vadd y (vscale dt k1)
    match compiled body terms (fixedTime scaled dt i) y0 h with
    | .error e => .error e
    | .ok k2 =>
      let y' := vadd y (vscale (dt / 2) (vadd k1 k2))
      match h.update (((i : Rat) + 1) * dt) y' gf with
      | .ok h' => .ok (y', h')
      | .error e => .error e

/-- `n` steps starting with counter `i`; returns the states before each step (what the solver may store) and the final pair -/
def run (step : Nat → Vec → Hist → Except Err (Vec × Hist)) : (n i : Nat) → Vec → Hist → Except Err (List Vec × Vec × Hist)
  | 0, _, y, h => .ok ([], y, h)
  | n + 1, i, y, h => match step i y h with
    | .error e => .error e
    | .ok (y', h') => match run step n (i + 1) y' h' with
      | .ok (ys, yf, hf) => .ok (y :: ys, yf, hf)
      | .error e => .error e

/-! ### specification: Euler's method for a delay equation with constant pre-history and piecewise-linear continuation -/

/-- the piecewise-linear continuation of the grid values `ys` (value `ys[j]` at time `j*dt`), constant before 0 and after the last one -/
def contAt (ys : List Vec) (dt : Rat) (tq : Rat) : Vec :=
  if tq ≤ 0 then ys.headD []
  else
    let k := (tq / dt).floor.toNat
    if k + 1 < ys.length then
      let a := ys.getD k []
      let b := ys.getD (k + 1) []
      vadd a (vscale ((tq - (k : Rat) * dt) / ((((k : Rat) + 1) * dt) - (k : Rat) * dt)) (vsub b a))
    else ys.getLastD []

/-- the explicit scheme: `ys` are the states computed so far (oldest first); the next one uses the continuation of `ys` -/
def specNext (body : Body) (terms : List PastTerm) (dt : Rat) (ys : List Vec) : Vec :=
  let i := ys.length - 1
  let y := ys.getLastD []
  let t := (i : Rat) * dt
  let rs := terms.map (fun p => (contAt ys dt (t - p.delay)).getD p.idx 0)
  vadd y (vscale dt (body t y rs))

def specRun (body : Body) (terms : List PastTerm) (dt : Rat) : Nat → List Vec → List Vec
  | 0, ys => ys
  | n + 1, ys => specRun body terms dt n (ys ++ [specNext body terms dt ys])

end PyRates.Delay
