/-
Backend-specific realisations of functions of the equation language that are NOT a plain call of a library routine:

  `interp(t, x, y)`   numpy / jax:  np.interp / jnp.interp  (library: the clamped piecewise-linear interpolant = `interpSpec`)
                      fortran:      the generated `finterp_<k>` function (pyrates/backend/fortran/fortran_funcs.py 67-101), a search loop
                      torch:        the generated `interp` definition (pyrates/backend/torch/torch_funcs.py 45-53)
  index offsets       1-based backends add `_start_idx` to an index variable the first time it is rendered
                      (BaseBackend._process_idx, base_backend.py 654-672), remembered in `_offsetted_var_ids`.
-/
namespace PyRates.Backends

/-- linear interpolation between two grid points -/
def lerp1 (x0 y0 x1 y1 t : Rat) : Rat := y0 + (t - x0) / (x1 - x0) * (y1 - y0)

/-- the clamped piecewise-linear interpolant of the samples `(xs_k, ys_k)` (`np.interp` for increasing `xs`) -/
def interpSpec : List Rat → List Rat → Rat → Rat
  | [_], [y0], _ => y0
  | x0 :: x1 :: xs, y0 :: y1 :: ys, t =>
    if t ≤ x0 then y0 else if t < x1 then lerp1 x0 y0 x1 y1 t else interpSpec (x1 :: xs) (y1 :: ys) t
  | _, _, _ => 0

/-- the Fortran search loop `do n = 1, s; if (x(n) > x_new) exit; end do` followed by the interpolation between `n-1` and `n`:
`(px, py)` is grid point `n-1`; `basePrev` tells which sample the emitted formula starts from (`y(n-1)` or `y(n)`) -/
def fscan (basePrev : Bool) (px py : Rat) : List Rat → List Rat → Rat → Rat
  | x :: xs, y :: ys, t =>
    if t < x then (if basePrev then py else y) + (t - px) / (x - px) * (y - py)
    else fscan basePrev x y xs ys t
  | _, _, _ => py          -- the loop ran to `s + 1`: the last sample

/-- `finterp_<k>(x_new, x, y)` -/
def finterp (basePrev : Bool) (xs ys : List Rat) (t : Rat) : Rat :=
  match xs, ys with
  | x0 :: xs', y0 :: ys' =>
    if t < x0 then y0
    else if (x0 :: xs').getLastD x0 < t then (y0 :: ys').getLastD y0
    else fscan basePrev x0 y0 xs' ys' t          -- `n = 1` cannot occur here: `x(1) > x_new` is excluded by the first test
  | _, _ => 0

/-! ### index offsets -/

/-- state of a backend's index bookkeeping: current values of the index variables and the set of variables already shifted -/
structure IdxState where
  vals : List (String × Int)
  shifted : List String
deriving Repr, DecidableEq

def IdxState.get (s : IdxState) (v : String) : Int := ((s.vals.find? (·.1 == v)).map (·.2)).getD 0

/-- `_process_idx(ComputeVar)`: shift by `start` unless the variable is in the remembered set; `consistentKey = false` models a
membership test that never finds what was inserted -/
def processIdx (start : Int) (consistentKey : Bool) (s : IdxState) (v : String) : IdxState :=
  if start ≠ 0 ∧ !(consistentKey && s.shifted.contains v) then
    { vals := s.vals.map (fun p => if p.1 == v then (p.1, p.2 + start) else p), shifted := v :: s.shifted }
  else s

end PyRates.Backends
