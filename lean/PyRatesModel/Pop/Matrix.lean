/-
Model of the coupling a `Connectivity` object denotes (pyrates/frontend/template/population.py 117-200, ir/circuit.py
_generate_edge_equation matrix / global branches):
  weight matrix W (n_target x n_source):  target_i receives  Σ_j W[i][j] * source_j                       (matvec)
  scalar weight w:                         every target receives  w * Σ_j source_j                         (global coupling)
  coupling edge g with matrix W:           target_i receives  Σ_j W[i][j] * g(source_j, post_i)            (wsum over the pair space)
and of the explicit network it must equal: one scalar edge from source unit j to target unit i with weight W[i][j] per NON-ZERO
matrix entry.  Column `j` of a row is paired with source unit `j` by position (`List.zip`).
-/
namespace PyRates.Pop

abbrev Vec := List Rat
abbrev Mat := List (List Rat)

def dot (row x : Vec) : Rat := (List.zipWith (· * ·) row x).sum

/-- `W @ x` -/
def matvec (W : Mat) (x : Vec) : Vec := W.map (fun row => dot row x)

/-- global coupling: `w * vsum(x)` for every one of `n` targets -/
def globalCoupling (w : Rat) (x : Vec) (n : Nat) : Vec := List.replicate n (w * x.sum)

/-- `(W * g(x_j, y_i)).sum(axis=1)` -/
def wsum (g : Rat → Rat → Rat) (W : Mat) (x y : Vec) : Vec :=
  List.zipWith (fun row yi => (List.zipWith (fun w xj => w * g xj yi) row x).sum) W y

/-- the scalar edges into one target unit in the explicit network: (weight, value of the source unit) for every non-zero entry
of the target's row -/
def explicitEdges (row : List Rat) (x : Vec) : List (Rat × Rat) := (row.zip x).filter (fun p => p.1 ≠ 0)

/-- what the target unit receives over these edges; `h` is the coupling function applied to the source value (identity for
plain edges) -/
def received (h : Rat → Rat) (row : List Rat) (x : Vec) : Rat := ((explicitEdges row x).map (fun p => p.1 * h p.2)).sum

/-- all-to-all network with one weight -/
def receivedGlobal (w : Rat) (x : Vec) : Rat := (x.map (fun xj => w * xj)).sum

end PyRates.Pop
