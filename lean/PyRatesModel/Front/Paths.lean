/-
Model of `CircuitTemplate.get_nodes` (frontend/template/circuit.py 908-973) on the trie of leaf-node paths, and the glob specification.
-/
namespace PyRates.Paths

abbrev NodePath := List String

/-- glob specification: same length, every component equal or `all`; the single pattern `all` matches every node -/
def matchesPat (pat : List String) (p : NodePath) : Bool :=
  (pat == ["all"]) || (pat.length == p.length && (List.zip pat p).all (fun (a, b) => a == "all" || a == b))

/-- specification of `get_nodes`: the matching leaf paths, in declaration order -/
def globSpec (leaves : List NodePath) (pat : List String) : List NodePath := leaves.filter (matchesPat pat)

/-- labels of the children of the current circuit, in declaration order, without repetition -/
def children (leaves : List NodePath) : List String :=
  (leaves.filterMap List.head?).foldl (fun acc l => if acc.contains l then acc else acc ++ [l]) []

/-- the sub-circuit (or node) labelled `l` -/
def sub (leaves : List NodePath) (l : String) : List NodePath :=
  (leaves.filter (fun p => p.head? == some l)).map List.tail

/-- model of `get_nodes` on the trie; `fuel` bounds the hierarchy depth for the single-`all` case -/
def getNodes : Nat → List NodePath → List String → List NodePath
  | 0, _, _ => []
  | fuel + 1, leaves, pat =>
    match pat with
    | [] => []
    | [p] =>
      if p == "all" then
        if leaves.all (fun q => q.length ≤ 1) then (children leaves).map (fun l => [l])
        else (children leaves).flatMap (fun l => (getNodes fuel (sub leaves l) ["all"]).map (l :: ·))
      else if (children leaves).contains p then [[p]] else []
    | p :: rest =>
      if p == "all" then (children leaves).flatMap (fun l => (getNodes fuel (sub leaves l) rest).map (l :: ·))
      else (getNodes fuel (sub leaves p) rest).map (p :: ·)

end PyRates.Paths
