/-
Model of the front-end value store behind `CircuitTemplate.update_var` / `NodeTemplate` operator overrides /
`apply(node_values=...)` (frontend/template/circuit.py 265-305, operator_graph.py 98-153, operator.py 126-179).

Python objects are modelled as an object table: a node label points to a *template object id*; several labels may point to the
same object (shared `NodeTemplate`).  Each template object owns a variations map `"op/var" ↦ value`.
`update_var` deep-copies the node's template (fresh id `next`), writes the value into the copy and re-points the label.
`copyOnWrite := false` is the variant that writes into the shared object (what dropping the `deepcopy` would do).
Dictionaries are modelled as finite maps given by lookup functions.
-/
namespace PyRates.Front

abbrev Vars := String → Option Rat

structure Store where
  objs : Nat → Vars               -- template object id ↦ its variations dict
  labels : String → Option Nat    -- node label ↦ template object id
  next : Nat                      -- next fresh object id

def setVar (vs : Vars) (k : String) (v : Rat) : Vars := fun k' => if k' = k then some v else vs k'

/-- value the compiled model shows for `label/var`: the node template's variation, else the operator default -/
def Store.valueAt (s : Store) (dflt : String → Rat) (label var : String) : Rat :=
  match s.labels label with
  | none => dflt var
  | some id => (s.objs id var).getD (dflt var)

/-- `update_var({label/var: x})` on a single node -/
def Store.updateVar (s : Store) (copyOnWrite : Bool) (label var : String) (x : Rat) : Store :=
  match s.labels label with
  | none => s                                  -- nothing addressed (the code warns)
  | some id =>
    if copyOnWrite then
      { objs := fun i => if i = s.next then setVar (s.objs id) var x else s.objs i,
        labels := fun l => if l = label then some s.next else s.labels l,
        next := s.next + 1 }
    else
      { s with objs := fun i => if i = id then setVar (s.objs id) var x else s.objs i }

/-- a history of single-node writes -/
def Store.run (s : Store) (cow : Bool) : List (String × String × Rat) → Store
  | [] => s
  | (l, v, x) :: rest => (s.updateVar cow l v x).run cow rest

/-- last value written to `label/var` in the history, if any -/
def lastWrite : List (String × String × Rat) → String → String → Option Rat
  | [], _, _ => none
  | (l, v, x) :: rest, label, var =>
    match lastWrite rest label var with
    | some y => some y
    | none => if l = label ∧ v = var then some x else none

/-- every label points to an object id below `next` (ids at or above `next` are unused) -/
def Store.WF (s : Store) : Prop := ∀ l id, s.labels l = some id → id < s.next

end PyRates.Front
