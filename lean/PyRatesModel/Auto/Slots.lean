/-
Model of `FortranBackend._auto_param_indices` (fortran_backend.py 998-1009): PAR slots of the model parameters for auto-07p.
-/
namespace PyRates.Auto

/-- the loop of `_auto_param_indices`: state = current `increment`; returns the slot of parameter `i` and the new increment -/
def stepSlot (lo hi : Nat) (inc i : Nat) : Nat × Nat :=
  if lo ≤ i + inc ∧ i + inc ≤ hi then (i + inc - inc + (inc + (hi - lo)), inc + (hi - lo))
  else (i + inc, inc)

def slotsFrom (lo hi : Nat) : (n i inc : Nat) → List Nat
  | 0, _, _ => []
  | n + 1, i, inc => let r := stepSlot lo hi inc i; r.1 :: slotsFrom lo hi n (i + 1) r.2

/-- the PAR slots of `n` parameters -/
def slots (lo hi n : Nat) : List Nat := slotsFrom lo hi n 0 1

/-- closed form for the source's range (10, 15): parameters 0..8 go to 1..9, parameter k ≥ 9 goes to k + 6 -/
def slotClosed (k : Nat) : Nat := if k < 9 then k + 1 else k + 6

end PyRates.Auto
