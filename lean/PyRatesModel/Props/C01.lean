import PyRatesModel.Net.Eval
/-!
# C01 — the generated vector field equals the model the user wrote

Specification: `Net.IsSolution` (Net/Syntax.lean).  Executable model: `Net.solve` (Net/Eval.lean), whose every answer is
validated by `checkSolution`; `C01_valOf_unique` shows that the value the evaluator resolves for a variable is its value in *every*
solution (uniqueness wherever resolution succeeds).  Property theorems only; mechanism lemmas of the staged compiler (edge grouping, weight
matrix, labels, ordering of updates) are in `Props/C01Mech.lean`.
-/
namespace PyRates.Net

/-- The checker decides the specification. -/
theorem C01_check_iff (I : Interp) (c : Circuit) (ext : Path → List Rat) (σ ρ : Path → Rat) :
    checkSolution I c ext σ ρ = true ↔ IsSolution I c ext σ ρ := by
  unfold checkSolution IsSolution
  simp only [List.all_eq_true]
  constructor
  · intro h n hn o ho d hd
    have := h n hn o ho d hd
    revert this
    cases o.kindOf d <;> simp only [beq_iff_eq]
    · exact id
    · intro h e he; rw [he] at h; simpa using h
    · exact id
    · exact id
  · intro h n hn o ho d hd
    have := h n hn o ho d hd
    revert this
    cases o.kindOf d <;> simp only [beq_iff_eq]
    · exact id
    · intro h
      cases he : o.defEq d.name with
      | none => rfl
      | some e => simpa using h e he
    · exact id
    · exact id

/-- **Soundness of the executable model.**  Whatever `solve` returns is a solution of the user's equations in the sense of
the specification, and the reported derivative of every state variable is its own equation evaluated under that solution. -/
theorem C01_solve_sound (I : Interp) (c : Circuit) (ext : Path → List Rat) (σ : Path → Rat) (fuel : Nat)
    (tbl ds : List (Path × Rat)) (h : solve I c ext σ fuel = some (tbl, ds)) :
    IsSolution I c ext σ (tableLookup tbl) ∧
    ds = c.stateEqs.map (fun (p, n, o, e) => (p, deriv I (tableLookup tbl) n o e)) := by
  unfold solve at h
  simp only [Option.bind_eq_bind, Option.bind_eq_some_iff] at h
  obtain ⟨tbl', _, h2⟩ := h
  split at h2
  · rename_i hc
    injection h2 with h2
    injection h2 with h3 h4
    subst h3
    exact ⟨(C01_check_iff I c ext σ _).mp hc, h4.symm⟩
  · cases h2

/-! ## uniqueness -/

/-- partial evaluation agrees with total evaluation in every environment that extends the partial one -/
theorem evalOpt_eval (I : Interp) (ρo : String → Option Rat) (ρ : String → Rat) (h : ∀ x w, ρo x = some w → ρ x = w)
    (e : Expr) (v : Rat) (hv : evalOpt I ρo e = some v) : eval I ρ e = v := by
  induction e generalizing v with
  | num q => simp [evalOpt] at hv; simp [eval, hv]
  | var x => simp only [evalOpt] at hv; exact h x v hv
  | add a b iha ihb | sub a b iha ihb | mul a b iha ihb =>
    simp only [evalOpt, Option.bind_eq_bind, Option.bind_eq_some_iff, Option.pure_def, Option.some.injEq] at hv
    obtain ⟨va, ha, vb, hb, rfl⟩ := hv
    simp only [eval, iha va ha, ihb vb hb]
  | neg a ih | pow a k ih =>
    simp only [evalOpt, Option.bind_eq_bind, Option.bind_eq_some_iff, Option.pure_def, Option.some.injEq] at hv
    obtain ⟨va, ha, rfl⟩ := hv
    simp only [eval, ih va ha]
  | call1 f a ih =>
    simp only [evalOpt, Option.bind_eq_bind, Option.bind_eq_some_iff, Option.pure_def, Option.some.injEq] at hv
    obtain ⟨va, ha, rfl⟩ := hv
    simp only [eval, ih va ha]
  | call2 f a b iha ihb =>
    simp only [evalOpt, Option.bind_eq_bind, Option.bind_eq_some_iff, Option.pure_def, Option.some.injEq] at hv
    obtain ⟨va, ha, vb, hb, rfl⟩ := hv
    simp only [eval, iha va ha, ihb vb hb]

theorem foldl_sumOpt_none (l : List (Option Rat)) :
    l.foldl (fun acc x => match acc, x with | some a, some b => some (a + b) | _, _ => none) none = none := by
  induction l with
  | nil => rfl
  | cons x r ih => simpa [List.foldl] using ih

/-- a successful partial sum is the sum of values that agree with any assignment extending the partial one -/
theorem sumOpt_eq {α} (l : List α) (f : α → Option Rat) (g : α → Rat) (hfg : ∀ a ∈ l, ∀ w, f a = some w → g a = w)
    (s : Rat) (hs : sumOpt (l.map f) = some s) : (l.map g).sum = s := by
  unfold sumOpt at hs
  suffices H : ∀ (acc : Rat) (s : Rat),
      (l.map f).foldl (fun acc x => match acc, x with | some a, some b => some (a + b) | _, _ => none) (some acc) = some s →
      acc + (l.map g).sum = s by
    have := H 0 s hs
    rw [Rat.zero_add] at this
    exact this
  clear hs
  induction l with
  | nil => intro acc s h; simp at h; simp [h, Rat.add_zero]
  | cons a r ih =>
    intro acc s h
    simp only [List.map_cons, List.foldl_cons] at h
    cases hfa : f a with
    | none => rw [hfa] at h; simp only at h; rw [foldl_sumOpt_none] at h; cases h
    | some w =>
      rw [hfa] at h
      have hg : g a = w := hfg a (by simp) w hfa
      have := ih (fun b hb => hfg b (by simp [hb])) (acc + w) s h
      simp only [List.map_cons, List.sum_cons, hg]
      grind

/-- **Uniqueness.**  Whatever value the evaluator resolves for a variable is the value of that variable in *every* solution of the
user's equations: where resolution succeeds the specification has exactly one solution. -/
theorem C01_valOf_unique (I : Interp) (c : Circuit) (ext : Path → List Rat) (σ ρ : Path → Rat) (hsol : IsSolution I c ext σ ρ)
    (fuel : Nat) (p : Path) (v : Rat) (hv : valOf I c ext σ fuel p = some v) : ρ p = v := by
  induction fuel generalizing p v with
  | zero => simp [valOf] at hv
  | succ fuel ih =>
    simp only [valOf, Option.bind_eq_bind, Option.bind_eq_some_iff] at hv
    obtain ⟨n, hn, o, ho, d, hd, hk⟩ := hv
    have hnm : n ∈ c.nodes := List.mem_of_find?_eq_some hn
    have hnp : n.path = p.node := by have := List.find?_some hn; simpa using this
    have hom : o ∈ n.ops := List.mem_of_find?_eq_some ho
    have hop : o.name = p.op := by have := List.find?_some ho; simpa using this
    have hdm : d ∈ o.vars := List.mem_of_find?_eq_some hd
    have hdp : d.name = p.var := by have := List.find?_some hd; simpa using this
    have hp : (⟨n.path, o.name, d.name⟩ : Path) = p := by cases p; simp_all
    have hs := hsol n hnm o hom d hdm
    simp only [hp] at hs
    cases hkind : o.kindOf d with
    | state =>
      rw [hkind] at hk hs
      simp only [Option.some.injEq] at hk
      simp only at hs
      rw [hs, hk]
    | const =>
      rw [hkind] at hk hs
      simp only [Option.some.injEq] at hk
      simp only at hs
      rw [hs, hk]
    | alg =>
      rw [hkind] at hk hs
      simp only [Option.bind_eq_bind, Option.bind_eq_some_iff] at hk
      obtain ⟨e, he, hev⟩ := hk
      simp only at hs
      rw [hs e he]
      apply evalOpt_eval I _ _ _ e.rhs v hev
      intro x w hw
      have := ih ⟨p.node, p.op, x⟩ w hw
      rw [hnp, hop]; exact this
    | input =>
      rw [hkind] at hk hs
      simp only at hs
      rw [hs]
      unfold inputValue
      simp only at hk ⊢
      split at hk
      · rename_i hc
        simp only [Option.some.injEq] at hk
        simp [hc, hk]
      · rename_i hc
        simp only [Option.bind_eq_bind, Option.bind_eq_some_iff, Option.pure_def, Option.some.injEq] at hk
        obtain ⟨a, ha, b, hb, rfl⟩ := hk
        have hc' : ¬ ((n.feeders d.name).isEmpty && (c.edgesInto ⟨n.path, o.name, d.name⟩).isEmpty && (ext ⟨n.path, o.name, d.name⟩).isEmpty) = true := hc
        simp only [hc', if_false, Bool.false_eq_true]
        have e1 := sumOpt_eq (n.feeders d.name) (fun o' => valOf I c ext σ fuel ⟨n.path, o'.name, d.name⟩) (fun o' => ρ ⟨n.path, o'.name, d.name⟩)
          (fun o' _ w hw => ih _ w hw) a ha
        have e2 := sumOpt_eq (c.edgesInto ⟨n.path, o.name, d.name⟩) (fun e => (valOf I c ext σ fuel e.src).map (e.weight * ·)) (fun e => e.weight * ρ e.src)
          (fun e _ w hw => by
            simp only [Option.map_eq_some_iff] at hw
            obtain ⟨u, hu, rfl⟩ := hw
            rw [ih _ u hu]) b hb
        rw [e1, e2]

end PyRates.Net
