import PyRatesModel.Net.Eval
/-!
# C01 — the generated vector field equals the model the user wrote

Specification: `Net.IsSolution` (Net/Syntax.lean).  Executable model: `Net.solve` (Net/Eval.lean), whose every answer is
validated by `checkSolution`.  Property theorems only; mechanism lemmas of the staged compiler (edge grouping, weight
matrix, labels, ordering of updates) are in `Props/C01Mech.lean`.
-/
namespace PyRates.Net

/-- The checker decides the specification. -/
theorem C01_check_iff (I : Interp) (c : Circuit) (ext : Path → List Rat) (σ ρ : Path → Rat) :
    checkSolution I c ext σ ρ = true ↔ IsSolution I c ext σ ρ := by
  unfold checkSolution IsSolution
  simp only [List.all_eq_true]
  constructor
  · intro h n hn o ho d hd
    have := h n hn o ho d hd
    revert this
    cases o.kindOf d <;> simp only [beq_iff_eq]
    · exact id
    · intro h e he; rw [he] at h; simpa using h
    · exact id
    · exact id
  · intro h n hn o ho d hd
    have := h n hn o ho d hd
    revert this
    cases o.kindOf d <;> simp only [beq_iff_eq]
    · exact id
    · intro h
      cases he : o.defEq d.name with
      | none => rfl
      | some e => simpa using h e he
    · exact id
    · exact id

/-- **Soundness of the executable model.**  Whatever `solve` returns is a solution of the user's equations in the sense of
the specification, and the reported derivative of every state variable is its own equation evaluated under that solution. -/
theorem C01_solve_sound (I : Interp) (c : Circuit) (ext : Path → List Rat) (σ : Path → Rat) (fuel : Nat)
    (tbl ds : List (Path × Rat)) (h : solve I c ext σ fuel = some (tbl, ds)) :
    IsSolution I c ext σ (tableLookup tbl) ∧
    ds = c.stateEqs.map (fun (p, n, o, e) => (p, deriv I (tableLookup tbl) n o e)) := by
  unfold solve at h
  simp only [Option.bind_eq_bind, Option.bind_eq_some_iff] at h
  obtain ⟨tbl', _, h2⟩ := h
  split at h2
  · rename_i hc
    injection h2 with h2
    injection h2 with h3 h4
    subst h3
    exact ⟨(C01_check_iff I c ext σ _).mp hc, h4.symm⟩
  · cases h2

end PyRates.Net
