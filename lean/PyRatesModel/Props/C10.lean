import PyRatesModel.Delay.DDE
import PyRatesModel.Props.C19
/-!
# C10 — delayed terms read the true past of the trajectory

Model: `PyRatesModel/Delay/DDE.lean` (generated function = history reads followed by the body; `_solve_euler` with the history
update after every step) on top of the `DDEHistory` model of C19.

* `C10_prehistory`: whatever was recorded since, a query at or before the start returns the initial state.
* `C10_grid_records`: after `i` Euler steps the history holds exactly the computed states `y_0 … y_i` at the times `0, dt, …, i·dt`
  (invariant `GInv`, preserved by every step: `C10_step_inv`).
* `C10_read_on_grid`, `C10_read_between`, `C10_read_prestart`: a delayed read at step `i` returns component `idx` of `y_{i-m}` for a
  delay of `m` steps, of the initial state when `i·dt - d ≤ 0`, and of the linear interpolant of the two neighbouring computed states
  otherwise.
* `C10_euler_method_of_steps`: for delays that are multiples of the step the whole run equals the explicitly written recurrence
  `y_{i+1} = y_i + dt·f(i·dt, y_i, (y_{i-m})[idx] …)` with constant pre-history, for every number of steps, any body and any growth events.
* `C10_heun_method_of_steps`: the same for `_solve_heun` - predictor and corrector of a step read the same records, so the run equals the
  explicitly written Heun recurrence with the reads of step `i` in both slopes.
* `C10_time_units`: the source scales the step counter by `dt` before subtracting the delay (regenerated table).
PARTIAL: convergence of these schemes to the solution of the delay equation is textbook numerical analysis and is not mechanised;
the adaptive (dopri5) path is tied differentially only.
-/
namespace PyRates.Delay
open PyRates.Hist

/-! ## shape of one update -/

theorem update_shape (h h' : Hist) (t : Rat) (y : Vec) (gf : Nat) (hg : 2 ≤ gf) (hw : h.WF)
    (hu : h.update t y gf = .ok h') :
    h'.ts = h.ts ++ [t] ∧ h'.n = h.n + 1 ∧ h'.growable = h.growable ∧ (∀ j, j < h.n → h'.rows[j]? = h.rows[j]?) ∧
    h'.rows[h.n]? = some (some y) ∧ (∀ (j : Nat) (v : Vec), h'.rows[j]? = some (some v) → v = y ∨ h.rows[j]? = some (some v)) := by
  obtain ⟨hl, h1, hcap, hrows⟩ := hw
  unfold Hist.update at hu
  split at hu
  · split at hu
    · injection hu with hu; subst hu
      have hlen : h.n = h.rows.length := by omega
      have hpos : 0 < h.rows.length := by omega
      have hbig : h.rows.length < h.rows.length * gf := by
        have := Nat.mul_le_mul_left h.rows.length hg
        omega
      refine ⟨rfl, rfl, rfl, ?_, ?_, ?_⟩
      · intro j hj
        simp only [Hist.writeRow, Hist.grow]
        rw [List.getElem?_set_ne (by omega), List.getElem?_append_left (by simp; omega)]
        simp [List.getElem?_take, hj]
      · simp only [Hist.writeRow, Hist.grow]
        rw [List.getElem?_set_self (by simp; omega)]
      · intro j v hv
        simp only [Hist.writeRow, Hist.grow] at hv
        by_cases hj : j = h.n
        · subst hj
          rw [List.getElem?_set_self (by simp; omega)] at hv
          left; injection hv with hv; injection hv with hv; exact hv.symm
        · rw [List.getElem?_set_ne (by omega)] at hv
          by_cases hjn : j < h.n
          · rw [List.getElem?_append_left (by simp; omega)] at hv
            right; simpa [List.getElem?_take, hjn] using hv
          · rw [List.getElem?_append_right (by simp; omega)] at hv
            rw [List.getElem?_replicate] at hv
            split at hv <;> simp at hv
    · cases hu
  · injection hu with hu; subst hu
    refine ⟨rfl, rfl, rfl, ?_, ?_, ?_⟩
    · intro j hj
      simp only [Hist.writeRow]
      rw [List.getElem?_set_ne (by omega)]
    · simp only [Hist.writeRow]
      rw [List.getElem?_set_self (by omega)]
    · intro j v hv
      simp only [Hist.writeRow] at hv
      by_cases hj : j = h.n
      · subst hj
        rw [List.getElem?_set_self (by omega)] at hv
        left; injection hv with hv; injection hv with hv; exact hv.symm
      · rw [List.getElem?_set_ne (by omega)] at hv
        right; exact hv

/-! ## the grid invariant -/

/-- after `i` steps: the history holds the states `all = [y_0, …, y_i]` at the times `0, dt, …, i·dt` -/
structure GInv (dt : Rat) (d : Nat) (i : Nat) (all : List Vec) (h : Hist) : Prop where
  wf : h.WF
  grow : h.growable = true
  len : all.length = i + 1
  n : h.n = i + 1
  ts : ∀ j, j ≤ i → h.ts[j]? = some ((j : Rat) * dt)
  rows : ∀ j, j ≤ i → ∃ v, all[j]? = some v ∧ h.rows[j]? = some (some v)
  dimAll : ∀ v ∈ all, v.length = d
  sorted : StrictSorted h.ts
  dim : h.Dim d

theorem GInv_init (dt : Rat) (y0 : Vec) (cap : Nat) : GInv dt y0.length 0 [y0] (Hist.init y0 0 none cap) := by
  refine ⟨C19_init_wf _ _ _ _, rfl, rfl, rfl, ?_, ?_, ?_, ?_, ?_⟩
  · intro j hj
    have : j = 0 := by omega
    subst this
    simp [Hist.init]
  · intro j hj
    have : j = 0 := by omega
    subst this
    exact ⟨y0, by simp, by simp [Hist.init]⟩
  · intro v hv; simp at hv; subst hv; rfl
  · simp [Hist.init, StrictSorted]
  · intro j v hv
    simp only [Hist.init] at hv
    cases j with
    | zero => simp at hv; subst hv; rfl
    | succ k =>
      simp only [List.getElem?_cons_succ, List.getElem?_replicate] at hv
      split at hv <;> simp at hv

theorem vadd_length (a b : Vec) (h : a.length = b.length) : (vadd a b).length = a.length := by
  simp [vadd, h]

theorem vscale_length (c : Rat) (a : Vec) : (vscale c a).length = a.length := by simp [vscale]

theorem GInv_last (dt : Rat) (d i : Nat) (all : List Vec) (h : Hist) (inv : GInv dt d i all h) :
    h.ts.getLast? = some ((i : Rat) * dt) := by
  have hl := inv.wf.1
  have := inv.ts i (Nat.le_refl _)
  rw [List.getLast?_eq_getElem?]
  rw [hl, inv.n]
  simpa using this

/-- the invariant is preserved by recording the next state at the next grid time -/
theorem GInv_update (dt : Rat) (hdt : 0 < dt) (d i : Nat) (all : List Vec) (h h' : Hist) (y' : Vec) (gf : Nat) (hg : 2 ≤ gf)
    (inv : GInv dt d i all h) (hy : y'.length = d) (hu : h.update (((i : Rat) + 1) * dt) y' gf = .ok h') :
    GInv dt d (i + 1) (all ++ [y']) h' := by
  obtain ⟨hts, hn, hgr, hold, hnew, hany⟩ := update_shape h h' _ y' gf hg inv.wf hu
  obtain ⟨_, hw'⟩ := C19_update_abs h h' _ y' gf hg inv.wf hu
  have hl := inv.wf.1
  refine ⟨hw', by rw [hgr]; exact inv.grow, by simp [inv.len], by rw [hn, inv.n], ?_, ?_, ?_, ?_, ?_⟩
  · intro j hj
    rw [hts]
    by_cases hji : j ≤ i
    · rw [List.getElem?_append_left (by rw [hl, inv.n]; omega)]
      exact inv.ts j hji
    · have : j = i + 1 := by omega
      subst this
      rw [List.getElem?_append_right (by rw [hl, inv.n]; omega)]
      simp [hl, inv.n]
  · intro j hj
    by_cases hji : j ≤ i
    · obtain ⟨v, hv1, hv2⟩ := inv.rows j hji
      refine ⟨v, ?_, ?_⟩
      · rw [List.getElem?_append_left (by rw [inv.len]; omega)]; exact hv1
      · rw [hold j (by rw [inv.n]; omega)]; exact hv2
    · have : j = i + 1 := by omega
      subst this
      refine ⟨y', ?_, ?_⟩
      · rw [List.getElem?_append_right (by rw [inv.len]; omega)]; simp [inv.len]
      · rw [← inv.n]; exact hnew
  · intro v hv
    rcases List.mem_append.mp hv with hv | hv
    · exact inv.dimAll v hv
    · simp at hv; subst hv; exact hy
  · rw [hts]
    apply sorted_append _ _ inv.sorted
    intro x hx
    rw [GInv_last dt d i all h inv] at hx
    injection hx with hx
    subst hx
    have : (i : Rat) * dt + dt = ((i : Rat) + 1) * dt := by grind
    rw [← this]
    grind
  · intro j v hv
    rcases hany j v hv with rfl | hv'
    · exact hy
    · exact inv.dim j v hv'

/-! ## queries under the invariant -/

theorem GInv_row (dt : Rat) (d i : Nat) (all : List Vec) (h : Hist) (inv : GInv dt d i all h) (j : Nat) (hj : j ≤ i) :
    ∃ v, all[j]? = some v ∧ h.row j = .ok v := by
  obtain ⟨v, hv1, hv2⟩ := inv.rows j hj
  exact ⟨v, hv1, by simp [Hist.row, hv2]⟩

theorem GInv_ts_get (dt : Rat) (d i : Nat) (all : List Vec) (h : Hist) (inv : GInv dt d i all h) (j : Nat) (hj : j < h.ts.length) :
    h.ts[j] = (j : Rat) * dt := by
  have hl := inv.wf.1
  have := inv.ts j (by rw [hl, inv.n] at hj; omega)
  rw [List.getElem?_eq_getElem hj] at this
  injection this

/-- a query at or before the start of the simulation returns the initial state -/
theorem C10_query_prestart (dt : Rat) (d i : Nat) (all : List Vec) (h : Hist) (inv : GInv dt d i all h) (tq : Rat) (ht : tq ≤ 0) :
    ∃ v, all[0]? = some v ∧ h.query tq = .ok v := by
  obtain ⟨v, hv1, hv2⟩ := GInv_row dt d i all h inv 0 (Nat.zero_le _)
  refine ⟨v, hv1, ?_⟩
  rw [C19_query_before h inv.wf tq ?_, hv2]
  rw [List.head_eq_getElem, GInv_ts_get dt d i all h inv 0 (by have := inv.wf.1; have := inv.wf.2.1; omega)]
  simpa using ht

/-- a query exactly `m ≤ i` steps back returns exactly the state computed `m` steps ago -/
theorem C10_query_on_grid (dt : Rat) (d i : Nat) (all : List Vec) (h : Hist) (inv : GInv dt d i all h) (j : Nat) (hj : j ≤ i) :
    ∃ v, all[j]? = some v ∧ h.query ((j : Rat) * dt) = .ok v := by
  obtain ⟨v, hv1, hv2⟩ := GInv_row dt d i all h inv j hj
  refine ⟨v, hv1, ?_⟩
  have hjl : j < h.ts.length := by rw [inv.wf.1, inv.n]; omega
  have := C19_query_at_record h inv.wf inv.sorted d inv.dim j hjl
  rw [GInv_ts_get dt d i all h inv j hjl] at this
  rw [this, hv2]

/-- strictly between two grid times the query is the linear interpolant of the two neighbouring computed states -/
theorem C10_query_between (dt : Rat) (d i : Nat) (all : List Vec) (h : Hist) (inv : GInv dt d i all h) (k : Nat) (hk : k + 1 ≤ i)
    (tq : Rat) (h0 : 0 < tq) (h1 : (k : Rat) * dt ≤ tq) (h2 : tq < ((k + 1 : Nat) : Rat) * dt) :
    ∃ a b, all[k]? = some a ∧ all[k + 1]? = some b ∧
      h.query tq = .ok (lerp ((k : Rat) * dt) (((k + 1 : Nat) : Rat) * dt) tq a b) := by
  obtain ⟨a, ha1, ha2⟩ := GInv_row dt d i all h inv k (by omega)
  obtain ⟨b, hb1, hb2⟩ := GInv_row dt d i all h inv (k + 1) hk
  refine ⟨a, b, ha1, hb1, ?_⟩
  have hl : h.ts.length = i + 1 := by rw [inv.wf.1, inv.n]
  have hk1 : k + 1 < h.ts.length := by omega
  have e0 := GInv_ts_get dt d i all h inv k (by omega)
  have e1 := GInv_ts_get dt d i all h inv (k + 1) hk1
  have hq := C19_query_between h inv.wf inv.sorted tq k hk1 (by rw [e0]; exact h1) (by rw [e1]; exact h2)
    (by rw [List.head_eq_getElem, GInv_ts_get dt d i all h inv 0 (by omega)]; simpa using h0)
  rw [hq, ha2, hb2, e0, e1]
  rfl

/-! ## delayed reads during an Euler run -/

theorem readAt_ok (h : Hist) (tq : Rat) (idx : Nat) (v : Vec) (hq : h.query tq = .ok v) (x : Rat) (hx : v[idx]? = some x) :
    readAt h tq idx = .ok x := by
  simp [readAt, hq, hx]

/-- delay of `m` steps: the read at step `i` is component `idx` of `y_{i-m}`, and of `y_0` while `i < m` -/
theorem C10_read_on_grid (dt : Rat) (hdt : 0 < dt) (d i : Nat) (all : List Vec) (h : Hist) (inv : GInv dt d i all h)
    (m idx : Nat) (hidx : idx < d) :
    ∃ v x, all[i - m]? = some v ∧ v[idx]? = some x ∧ readAt h ((i : Rat) * dt - (m : Rat) * dt) idx = .ok x := by
  by_cases hm : m ≤ i
  · obtain ⟨v, hv1, hv2⟩ := C10_query_on_grid dt d i all h inv (i - m) (by omega)
    have hlen : v.length = d := inv.dimAll v (List.mem_of_getElem? hv1)
    have hx : v[idx]? = some v[idx] := List.getElem?_eq_getElem (by omega)
    refine ⟨v, v[idx], hv1, hx, ?_⟩
    have e : (i : Rat) * dt - (m : Rat) * dt = ((i - m : Nat) : Rat) * dt := by
      have : ((i - m : Nat) : Rat) = (i : Rat) - (m : Rat) := by
        have h3 : ((i - m + m : Nat) : Rat) = (i : Rat) := by rw [Nat.sub_add_cancel hm]
        rw [Rat.natCast_add] at h3
        grind
      rw [this]; grind
    rw [e]
    exact readAt_ok h _ idx v hv2 _ hx
  · have hz : i - m = 0 := by omega
    have hneg : (i : Rat) * dt - (m : Rat) * dt ≤ 0 := by
      have h3 : (i : Rat) ≤ (m : Rat) := by
        have : i ≤ m := by omega
        exact_mod_cast this
      have := Rat.mul_le_mul_of_nonneg_right h3 (Rat.le_of_lt hdt)
      grind
    obtain ⟨v, hv1, hv2⟩ := C10_query_prestart dt d i all h inv _ hneg
    have hlen : v.length = d := inv.dimAll v (List.mem_of_getElem? hv1)
    have hx : v[idx]? = some v[idx] := List.getElem?_eq_getElem (by omega)
    exact ⟨v, v[idx], by rw [hz]; exact hv1, hx, readAt_ok h _ idx v hv2 _ hx⟩

/-- any delay reaching before the start: the initial state -/
theorem C10_read_prestart (dt : Rat) (d i : Nat) (all : List Vec) (h : Hist) (inv : GInv dt d i all h)
    (delay : Rat) (idx : Nat) (hidx : idx < d) (hpre : (i : Rat) * dt - delay ≤ 0) :
    ∃ v x, all[0]? = some v ∧ v[idx]? = some x ∧ readAt h ((i : Rat) * dt - delay) idx = .ok x := by
  obtain ⟨v, hv1, hv2⟩ := C10_query_prestart dt d i all h inv _ hpre
  have hlen : v.length = d := inv.dimAll v (List.mem_of_getElem? hv1)
  have hx : v[idx]? = some v[idx] := List.getElem?_eq_getElem (by omega)
  exact ⟨v, v[idx], hv1, hx, readAt_ok h _ idx v hv2 _ hx⟩

/-- a delay that is not a multiple of the step: the linear interpolant of the two neighbouring computed states -/
theorem C10_read_between (dt : Rat) (d i : Nat) (all : List Vec) (h : Hist) (inv : GInv dt d i all h)
    (delay : Rat) (idx k : Nat) (hk : k + 1 ≤ i) (h0 : 0 < (i : Rat) * dt - delay)
    (h1 : (k : Rat) * dt ≤ (i : Rat) * dt - delay) (h2 : (i : Rat) * dt - delay < ((k + 1 : Nat) : Rat) * dt) :
    ∃ a b, all[k]? = some a ∧ all[k + 1]? = some b ∧
      readAt h ((i : Rat) * dt - delay) idx =
        (match (lerp ((k : Rat) * dt) (((k + 1 : Nat) : Rat) * dt) ((i : Rat) * dt - delay) a b)[idx]? with
         | some x => .ok x | none => .error .garbage) := by
  obtain ⟨a, b, ha, hb, hq⟩ := C10_query_between dt d i all h inv k hk _ h0 h1 h2
  refine ⟨a, b, ha, hb, ?_⟩
  unfold readAt
  rw [hq]
  rfl

/-! ## the whole Euler run for delays on the grid -/

theorem dropLast_append_of_getLast? {α} (l : List α) (y : α) (h : l.getLast? = some y) : l.dropLast ++ [y] = l := by
  have hne : l ≠ [] := by intro e; subst e; simp at h
  have := List.dropLast_concat_getLast hne
  rw [List.getLast?_eq_some_getLast hne] at h
  injection h with h; rw [← h]; exact this


/-- delayed terms whose delays are whole numbers of steps: (state index, number of steps) -/
def gridTerms (dt : Rat) (ms : List (Nat × Nat)) : List PastTerm := ms.map (fun p => ⟨p.1, (p.2 : Rat) * dt⟩)

/-- the reads of the explicitly written scheme: component `idx` of the state `m` steps ago (the initial state before that) -/
def gridReads (all : List Vec) (ms : List (Nat × Nat)) : List Rat :=
  ms.map (fun p => ((all.getD (all.length - 1 - p.2) []).getD p.1 0))

/-- the explicitly written recurrence -/
def gridNext (body : Body) (dt : Rat) (ms : List (Nat × Nat)) (all : List Vec) : Vec :=
  let y := all.getLastD []
  vadd y (vscale dt (body (((all.length - 1 : Nat) : Rat) * dt) y (gridReads all ms)))

def gridRun (body : Body) (dt : Rat) (ms : List (Nat × Nat)) : Nat → List Vec → List Vec
  | 0, all => all
  | n + 1, all => gridRun body dt ms n (all ++ [gridNext body dt ms all])

theorem readAll_grid (dt : Rat) (hdt : 0 < dt) (d i : Nat) (all : List Vec) (h : Hist) (inv : GInv dt d i all h)
    (ms : List (Nat × Nat)) (hidx : ∀ p ∈ ms, p.1 < d) :
    readAll h ((i : Rat) * dt) (gridTerms dt ms) = .ok (gridReads all ms) := by
  induction ms with
  | nil => rfl
  | cons p rest ih =>
    obtain ⟨v, x, hv, hx, hr⟩ := C10_read_on_grid dt hdt d i all h inv p.2 p.1 (hidx p (by simp))
    have ih' := ih (fun q hq => hidx q (by simp [hq]))
    have e1 : gridTerms dt (p :: rest) = ⟨p.1, (p.2 : Rat) * dt⟩ :: gridTerms dt rest := rfl
    have e2 : gridReads all (p :: rest) = ((all.getD (all.length - 1 - p.2) []).getD p.1 0) :: gridReads all rest := rfl
    rw [e1, e2]
    simp only [readAll, hr, ih']
    congr 2
    rw [inv.len]
    simp only [Nat.add_sub_cancel]
    simp [List.getD, hv, hx]

/-- one Euler step keeps the invariant and computes exactly the next state of the explicitly written recurrence -/
theorem C10_step_inv (body : Body) (dt : Rat) (hdt : 0 < dt) (d i : Nat) (all : List Vec) (y : Vec) (h : Hist) (gf : Nat) (hg : 2 ≤ gf)
    (inv : GInv dt d i all h) (hy : all.getLast? = some y)
    (ms : List (Nat × Nat)) (hidx : ∀ p ∈ ms, p.1 < d)
    (hbody : ∀ t (y : Vec) rs, y.length = d → (body t y rs).length = d) :
    ∃ h', eulerStep body (gridTerms dt ms) true dt gf i y h = .ok (gridNext body dt ms all, h') ∧
      GInv dt d (i + 1) (all ++ [gridNext body dt ms all]) h' := by
  have hyd : y.length = d := inv.dimAll y (List.mem_of_getLast? hy)
  have hnext : gridNext body dt ms all = vadd y (vscale dt (body ((i : Rat) * dt) y (gridReads all ms))) := by
    simp only [gridNext, inv.len, Nat.add_sub_cancel]
    rw [List.getLastD_eq_getLast?, hy]; rfl
  have hlen : (gridNext body dt ms all).length = d := by
    rw [hnext, vadd_length _ _ (by rw [vscale_length, hbody _ _ _ hyd, hyd]), hyd]
  obtain ⟨h', hu⟩ := C19_update_ok h (((i : Rat) + 1) * dt) (gridNext body dt ms all) gf (Or.inl inv.grow)
  refine ⟨h', ?_, GInv_update dt hdt d i all h h' _ gf hg inv hlen hu⟩
  simp only [eulerStep, compiled, fixedTime, if_true]
  rw [readAll_grid dt hdt d i all h inv ms hidx]
  simp only
  rw [← hnext, hu]

/-- **Method of steps.**  For every number of steps, every body and every list of delayed terms whose delays are whole numbers of
steps, `_solve_euler` with the history produces exactly the states of the explicitly written recurrence with constant pre-history. -/
theorem C10_euler_method_of_steps_from (body : Body) (dt : Rat) (hdt : 0 < dt) (d : Nat) (gf : Nat) (hg : 2 ≤ gf)
    (ms : List (Nat × Nat)) (hidx : ∀ p ∈ ms, p.1 < d)
    (hbody : ∀ t (y : Vec) rs, y.length = d → (body t y rs).length = d)
    (n i : Nat) (all : List Vec) (y : Vec) (h : Hist) (inv : GInv dt d i all h) (hy : all.getLast? = some y) :
    ∃ ys yf hf, run (eulerStep body (gridTerms dt ms) true dt gf) n i y h = .ok (ys, yf, hf) ∧
      all.dropLast ++ ys ++ [yf] = gridRun body dt ms n all := by
  induction n generalizing i all y h with
  | zero =>
    refine ⟨[], y, h, rfl, ?_⟩
    simp only [gridRun, List.append_nil]
    exact dropLast_append_of_getLast? _ y hy
  | succ n ih =>
    obtain ⟨h', hs, inv'⟩ := C10_step_inv body dt hdt d i all y h gf hg inv hy ms hidx hbody
    obtain ⟨ys, yf, hf, hr, he⟩ := ih (i + 1) (all ++ [gridNext body dt ms all]) (gridNext body dt ms all) h' inv' (by simp)
    refine ⟨y :: ys, yf, hf, ?_, ?_⟩
    · simp only [run, hs, hr]
    · simp only [gridRun]
      rw [← he]
      simp only [List.dropLast_concat]
      have := dropLast_append_of_getLast? _ y hy
      rw [← this]
      simp

theorem C10_euler_method_of_steps (body : Body) (dt : Rat) (hdt : 0 < dt) (gf : Nat) (hg : 2 ≤ gf) (cap : Nat) (y0 : Vec)
    (ms : List (Nat × Nat)) (hidx : ∀ p ∈ ms, p.1 < y0.length)
    (hbody : ∀ t (y : Vec) rs, y.length = y0.length → (body t y rs).length = y0.length) (n : Nat) :
    ∃ ys yf hf, run (eulerStep body (gridTerms dt ms) true dt gf) n 0 y0 (Hist.init y0 0 none cap) = .ok (ys, yf, hf) ∧
      ys ++ [yf] = gridRun body dt ms n [y0] := by
  obtain ⟨ys, yf, hf, hr, he⟩ := C10_euler_method_of_steps_from body dt hdt y0.length gf hg ms hidx hbody n 0 [y0] y0 _
    (GInv_init dt y0 cap) rfl
  exact ⟨ys, yf, hf, hr, by simpa using he⟩

/-- the records of the history after the run are the computed states at the grid times -/
theorem C10_grid_records (body : Body) (dt : Rat) (hdt : 0 < dt) (gf : Nat) (hg : 2 ≤ gf) (cap : Nat) (y0 : Vec)
    (ms : List (Nat × Nat)) (hidx : ∀ p ∈ ms, p.1 < y0.length)
    (hbody : ∀ t (y : Vec) rs, y.length = y0.length → (body t y rs).length = y0.length) (n : Nat) :
    ∃ ys yf hf, run (eulerStep body (gridTerms dt ms) true dt gf) n 0 y0 (Hist.init y0 0 none cap) = .ok (ys, yf, hf) ∧
      GInv dt y0.length n (ys ++ [yf]) hf := by
  suffices H : ∀ (n i : Nat) (all : List Vec) (y : Vec) (h : Hist), GInv dt y0.length i all h → all.getLast? = some y →
      ∃ ys yf hf, run (eulerStep body (gridTerms dt ms) true dt gf) n i y h = .ok (ys, yf, hf) ∧
        GInv dt y0.length (i + n) (all.dropLast ++ ys ++ [yf]) hf by
    obtain ⟨ys, yf, hf, hr, hi⟩ := H n 0 [y0] y0 _ (GInv_init dt y0 cap) rfl
    exact ⟨ys, yf, hf, hr, by simpa using hi⟩
  intro n
  induction n with
  | zero =>
    intro i all y h inv hy
    refine ⟨[], y, h, rfl, ?_⟩
    simp only [List.append_nil, Nat.add_zero]
    rw [dropLast_append_of_getLast? _ y hy]; exact inv
  | succ n ih =>
    intro i all y h inv hy
    obtain ⟨h', hs, inv'⟩ := C10_step_inv body dt hdt y0.length i all y h gf hg inv hy ms hidx hbody
    obtain ⟨ys, yf, hf, hr, hi⟩ := ih (i + 1) (all ++ [gridNext body dt ms all]) (gridNext body dt ms all) h' inv' (by simp)
    refine ⟨y :: ys, yf, hf, by simp only [run, hs, hr], ?_⟩
    simp only [List.dropLast_concat] at hi
    have e : all.dropLast ++ (y :: ys) ++ [yf] = all ++ ys ++ [yf] := by
      have := dropLast_append_of_getLast? _ y hy
      conv => rhs; rw [← this]
      simp
    rw [e]
    have : i + (n + 1) = i + 1 + n := by omega
    rw [this]; exact hi

/-! ## Heun -/

/-- the explicitly written Heun recurrence for delays on the grid: both slopes use the reads of step `i` -/
def gridNextHeun (body : Body) (dt : Rat) (ms : List (Nat × Nat)) (all : List Vec) : Vec :=
  let y := all.getLastD []
  let t := ((all.length - 1 : Nat) : Rat) * dt
  let rs := gridReads all ms
  let k1 := body t y rs
  let k2 := body t (vadd y (vscale dt k1)) rs
  vadd y (vscale (dt / 2) (vadd k1 k2))

def gridRunHeun (body : Body) (dt : Rat) (ms : List (Nat × Nat)) : Nat → List Vec → List Vec
  | 0, all => all
  | n + 1, all => gridRunHeun body dt ms n (all ++ [gridNextHeun body dt ms all])

/-- one Heun step keeps the invariant and computes the next state of the explicitly written Heun recurrence: the history is read
twice at the same time with the same records, so predictor and corrector see the same delayed values -/
theorem C10_heun_step_inv (body : Body) (dt : Rat) (hdt : 0 < dt) (d i : Nat) (all : List Vec) (y : Vec) (h : Hist) (gf : Nat) (hg : 2 ≤ gf)
    (inv : GInv dt d i all h) (hy : all.getLast? = some y)
    (ms : List (Nat × Nat)) (hidx : ∀ p ∈ ms, p.1 < d)
    (hbody : ∀ t (y : Vec) rs, y.length = d → (body t y rs).length = d) :
    ∃ h', heunStep body (gridTerms dt ms) true dt gf i y h = .ok (gridNextHeun body dt ms all, h') ∧
      GInv dt d (i + 1) (all ++ [gridNextHeun body dt ms all]) h' := by
  have hyd : y.length = d := inv.dimAll y (List.mem_of_getLast? hy)
  have hnext : gridNextHeun body dt ms all =
      vadd y (vscale (dt / 2) (vadd (body ((i : Rat) * dt) y (gridReads all ms))
        (body ((i : Rat) * dt) (vadd y (vscale dt (body ((i : Rat) * dt) y (gridReads all ms)))) (gridReads all ms)))) := by
    simp only [gridNextHeun, inv.len, Nat.add_sub_cancel]
    rw [List.getLastD_eq_getLast?, hy]; rfl
  have hk1 : (body ((i : Rat) * dt) y (gridReads all ms)).length = d := hbody _ _ _ hyd
  have hy0 : (vadd y (vscale dt (body ((i : Rat) * dt) y (gridReads all ms)))).length = d := by
    rw [vadd_length _ _ (by rw [vscale_length, hk1, hyd]), hyd]
  have hk2 := hbody ((i : Rat) * dt) _ (gridReads all ms) hy0
  have hlen : (gridNextHeun body dt ms all).length = d := by
    rw [hnext, vadd_length _ _ (by rw [vscale_length, vadd_length _ _ (by rw [hk1, hk2]), hk1, hyd]), hyd]
  obtain ⟨h', hu⟩ := C19_update_ok h (((i : Rat) + 1) * dt) (gridNextHeun body dt ms all) gf (Or.inl inv.grow)
  refine ⟨h', ?_, GInv_update dt hdt d i all h h' _ gf hg inv hlen hu⟩
  simp only [heunStep, compiled, fixedTime, if_true]
  rw [readAll_grid dt hdt d i all h inv ms hidx]
  simp only
  rw [← hnext, hu]

/-- **Method of steps for Heun.** -/
theorem C10_heun_method_of_steps (body : Body) (dt : Rat) (hdt : 0 < dt) (gf : Nat) (hg : 2 ≤ gf) (cap : Nat) (y0 : Vec)
    (ms : List (Nat × Nat)) (hidx : ∀ p ∈ ms, p.1 < y0.length)
    (hbody : ∀ t (y : Vec) rs, y.length = y0.length → (body t y rs).length = y0.length) (n : Nat) :
    ∃ ys yf hf, run (heunStep body (gridTerms dt ms) true dt gf) n 0 y0 (Hist.init y0 0 none cap) = .ok (ys, yf, hf) ∧
      ys ++ [yf] = gridRunHeun body dt ms n [y0] := by
  suffices H : ∀ (n i : Nat) (all : List Vec) (y : Vec) (h : Hist), GInv dt y0.length i all h → all.getLast? = some y →
      ∃ ys yf hf, run (heunStep body (gridTerms dt ms) true dt gf) n i y h = .ok (ys, yf, hf) ∧
        all.dropLast ++ ys ++ [yf] = gridRunHeun body dt ms n all by
    obtain ⟨ys, yf, hf, hr, he⟩ := H n 0 [y0] y0 _ (GInv_init dt y0 cap) rfl
    exact ⟨ys, yf, hf, hr, by simpa using he⟩
  intro n
  induction n with
  | zero =>
    intro i all y h _ hy
    refine ⟨[], y, h, rfl, ?_⟩
    simp only [gridRunHeun, List.append_nil]
    exact dropLast_append_of_getLast? _ y hy
  | succ n ih =>
    intro i all y h inv hy
    obtain ⟨h', hs, inv'⟩ := C10_heun_step_inv body dt hdt y0.length i all y h gf hg inv hy ms hidx hbody
    obtain ⟨ys, yf, hf, hr, he⟩ := ih (i + 1) (all ++ [gridNextHeun body dt ms all]) (gridNextHeun body dt ms all) h' inv' (by simp)
    refine ⟨y :: ys, yf, hf, by simp only [run, hs, hr], ?_⟩
    simp only [gridRunHeun]
    rw [← he]
    simp only [List.dropLast_concat]
    have := dropLast_append_of_getLast? _ y hy
    rw [← this]
    simp

/-! ## pre-history, whatever has been recorded -/

/-- after any sequence of updates a query at or before the initial time returns the initial state -/
theorem C10_prehistory (y0 : Vec) (t0 : Rat) (us : List (Rat × Vec)) (t : Rat) (ht : t ≤ t0) :
    ∃ h', (Hist.init y0 t0 none Tables.histInitialCapacity).updates Tables.histGrowFactor us = .ok h' ∧ h'.query t = .ok y0 := by
  obtain ⟨h', hu, habs, hw⟩ := C19_impl_updates_abs y0 t0 us
  refine ⟨h', hu, ?_⟩
  have hne := ts_ne_nil h' hw
  unfold Hist.abs at habs
  obtain ⟨hl, h1, hcap, _⟩ := hw
  match hts : h'.ts, hrs : h'.rows.take h'.n with
  | [], _ => exact absurd hts hne
  | a :: ta, [] =>
    have : (h'.rows.take h'.n).length = h'.n := by simp [List.length_take]; omega
    rw [hrs] at this; simp at this; omega
  | a :: ta, r :: tr =>
    rw [hts, hrs] at habs
    simp only [List.zip_cons_cons, List.cons.injEq, Prod.mk.injEq] at habs
    obtain ⟨⟨ha, hr⟩, _⟩ := habs
    have hw' : h'.WF := ⟨hl, h1, hcap, by assumption⟩
    rw [C19_query_before h' hw' t (by simp [hts, ha]; exact ht)]
    have : h'.rows[0]? = some r := by
      have e : (h'.rows.take h'.n)[0]? = h'.rows[0]? := List.getElem?_take_of_lt (by omega)
      rw [hrs] at e
      simpa using e.symm
    simp [Hist.row, this, hr]

/-! ## time units -/

/-- the generated code of fixed-step solvers scales the step counter by `dt` before subtracting the delay, the adaptive one uses `t`
as it is (regenerated from `BaseBackend.add_var_hist`) -/
theorem C10_time_units : Tables.histFixedStepScalesT = true ∧ Tables.histAdaptiveUsesT = true := by decide

theorem C10_fixedTime (dt : Rat) (i : Nat) : fixedTime Tables.histFixedStepScalesT dt i = (i : Rat) * dt := by
  simp [fixedTime, C10_time_units.1]

/-! ## non-vacuity: a concrete delayed model -/

/-- x' = -x(t - 2·dt), dt = 1/2, x(0) = 1 -/
def demoBody : Body := fun _ _ rs => [-(rs.getD 0 0)]

example : (run (eulerStep demoBody (gridTerms (1/2) [(0, 2)]) true (1/2) 2) 5 0 [1] (Hist.init [1] 0 none 2)).toOption.map (fun r => r.1 ++ [r.2.1])
    = some [[1], [1/2], [0], [-1/2], [-3/4], [-3/4]] := by decide +kernel

example : gridRun demoBody (1/2) [(0, 2)] 5 [[1]] = [[1], [1/2], [0], [-1/2], [-3/4], [-3/4]] := by decide +kernel

end PyRates.Delay
