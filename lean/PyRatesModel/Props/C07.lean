import PyRatesModel.Front.Store
/-!
# C07 — overrides reach exactly their targets

Refinement of the object-table store (shared template objects, copy-on-write `update_var`) to the abstract map
`(label, var) ↦ value`: read-after-write, frame, and "last write wins" for every history.
-/
namespace PyRates.Front

theorem updateVar_wf (s : Store) (hw : s.WF) (label var : String) (x : Rat) : (s.updateVar true label var x).WF := by
  unfold Store.updateVar
  cases hid : s.labels label with
  | none => simpa using hw
  | some id =>
    intro l id' h
    simp only [if_true] at h ⊢
    by_cases hl : l = label
    · simp [hl] at h; omega
    · simp [hl] at h; have := hw l id' h; omega

/-- **Read after write** (copy-on-write store): the addressed node shows the written value. -/
theorem C07_read_after_write (s : Store) (dflt : String → Rat) (label var : String) (x : Rat)
    (hl : (s.labels label).isSome) :
    (s.updateVar true label var x).valueAt dflt label var = x := by
  obtain ⟨id, hid⟩ := Option.isSome_iff_exists.mp hl
  simp [Store.updateVar, Store.valueAt, hid, setVar]

/-- **Frame**: every other (label, variable) pair keeps its value — in particular nodes that share the same template object. -/
theorem C07_frame (s : Store) (hw : s.WF) (dflt : String → Rat) (label var : String) (x : Rat) (label' var' : String)
    (hne : label' ≠ label ∨ var' ≠ var) :
    (s.updateVar true label var x).valueAt dflt label' var' = s.valueAt dflt label' var' := by
  unfold Store.updateVar
  cases hid : s.labels label with
  | none => rfl
  | some id =>
    simp only [if_true]
    unfold Store.valueAt
    by_cases hl : label' = label
    · subst hl
      have hv : var' ≠ var := by rcases hne with h | h; exact absurd rfl h; exact h
      simp [hid, setVar, hv]
    · simp only [hl, if_false]
      cases hl' : s.labels label' with
      | none => rfl
      | some id' =>
        have : id' ≠ s.next := by have := hw label' id' hl'; omega
        simp [this]

/-- **Last write wins, for every history.**  After any sequence of single-node `update_var` calls the value shown for a node variable
is the last value written to exactly that (node, variable), and the value it had before the history if none was. -/
theorem C07_refines_map (h : List (String × String × Rat)) (s : Store) (hw : s.WF) (dflt : String → Rat) (label var : String)
    (hall : ∀ w ∈ h, (s.labels w.1).isSome) (hlab : (s.labels label).isSome) :
    (s.run true h).valueAt dflt label var = (lastWrite h label var).getD (s.valueAt dflt label var) := by
  induction h generalizing s with
  | nil => simp [Store.run, lastWrite]
  | cons w rest ih =>
    obtain ⟨l, v, x⟩ := w
    have hl : (s.labels l).isSome := hall (l, v, x) (by simp)
    -- labels stay defined after an update
    have hdef : ∀ l', (s.labels l').isSome → ((s.updateVar true l v x).labels l').isSome := by
      intro l' h'
      obtain ⟨id, hid⟩ := Option.isSome_iff_exists.mp hl
      simp only [Store.updateVar, hid, if_true]
      by_cases e : l' = l <;> simp [e, h']
    rw [Store.run, ih (s.updateVar true l v x) (updateVar_wf s hw l v x)
      (fun w hw' => hdef w.1 (hall w (List.mem_cons_of_mem _ hw'))) (hdef label hlab)]
    simp only [lastWrite]
    cases hlw : lastWrite rest label var with
    | some y => simp
    | none =>
      simp only [Option.getD_none]
      by_cases e : l = label ∧ v = var
      · obtain ⟨e1, e2⟩ := e
        subst e1; subst e2
        simp [C07_read_after_write s dflt l v x hl]
      · simp only [e, if_false, Option.getD_none]
        apply C07_frame s hw
        by_cases e1 : label = l
        · right; intro e2; exact e ⟨e1.symm, e2.symm⟩
        · left; exact e1

/-- Witness: without the `deepcopy` (write into the shared object) the frame property fails — two labels sharing a template both change. -/
theorem C07_alias_counterexample :
    let s : Store := { objs := fun _ k => if k = "op/a" then some 1 else none, labels := fun l => if l = "p1" ∨ l = "p2" then some 0 else none, next := 1 }
    (s.updateVar false "p1" "op/a" 5).valueAt (fun _ => 0) "p2" "op/a" = 5 ∧
    (s.updateVar true "p1" "op/a" 5).valueAt (fun _ => 0) "p2" "op/a" = 1 := by decide +kernel

end PyRates.Front
