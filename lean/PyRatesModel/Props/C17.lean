import PyRatesModel.Sweep.Grid
/-!
# C17 — a parameter sweep equals running each parameter set on its own

* **Uncoupled copies** (`C17_euler_blocks`, `C17_heun_blocks`, `C17_iter_blocks`, `C17_iter_heun_blocks`): integrating the concatenated state of copies that are
  not connected to one another gives, block by block, exactly what integrating each copy alone gives - for every number of copies,
  block sizes, step counts, Euler and Heun.
* **The grid** (`C17_zip_row`, `C17_mesh_mem`, `C17_mesh_length`, `C17_mesh_nodup`): row `i` of a linear grid holds the i-th value of every
  key; a permuted grid contains every combination of the listed values, exactly `∏ nᵢ` rows, each once when the values are distinct.
* **Targets** (`C17_targets`): a grid key addresses every (node, variable) pair of the cross product it lists.
PARTIAL: that the network `grid_search` builds *is* an uncoupled concatenation of the adapted circuits, and that labels, table and
columns line up, is tied differentially (harness/props/c17.py): every column block is compared exactly with the Lean trajectory of the
separately adapted circuit and with a separate run of the real code.
-/
namespace PyRates.Sweep
open PyRates.Solver

/-! ## grid -/

theorem C17_zip_row (vals : List (List Rat)) (n i : Nat) (hi : i < n) :
    (zipRows vals n)[i]? = some (vals.map (fun v => v.getD i 0)) := by
  simp [zipRows, hi]

theorem C17_zip_length (vals : List (List Rat)) (n : Nat) : (zipRows vals n).length = n := by simp [zipRows]

/-- a row is a combination: entry j is taken from list j -/
def IsCombo : Row → List (List Rat) → Prop
  | [], [] => True
  | x :: r, v :: vs => x ∈ v ∧ IsCombo r vs
  | _, _ => False

theorem mem_cart (vals : List (List Rat)) (r : Row) : r ∈ cart vals ↔ IsCombo r vals := by
  induction vals generalizing r with
  | nil => cases r <;> simp [cart, IsCombo]
  | cons v vs ih =>
    cases r with
    | nil => simp [cart, IsCombo]
    | cons x r =>
      simp only [cart, List.mem_flatMap, List.mem_map, IsCombo]
      constructor
      · rintro ⟨a, ha, b, hb, he⟩
        injection he with h1 h2
        subst h1; subst h2
        exact ⟨ha, (ih b).mp hb⟩
      · rintro ⟨hx, hr⟩
        exact ⟨x, hx, r, (ih r).mpr hr, rfl⟩

theorem swap01_swap01 {α} (l : List α) : swap01 (swap01 l) = l := by
  match l with
  | [] => rfl
  | [_] => rfl
  | _ :: _ :: _ => rfl

theorem isCombo_swap (r : Row) (vals : List (List Rat)) : IsCombo (swap01 r) (swap01 vals) ↔ IsCombo r vals := by
  match r, vals with
  | [], [] => simp [swap01]
  | [], [_] => simp [swap01]
  | [], _ :: _ :: _ => simp [swap01, IsCombo]
  | [_], [] => simp [swap01]
  | [_], [_] => simp [swap01]
  | [_], _ :: _ :: _ => simp [swap01, IsCombo]
  | _ :: _ :: _, [] => simp [swap01, IsCombo]
  | _ :: _ :: _, [_] => simp [swap01, IsCombo]
  | a :: b :: r, v :: w :: vs =>
    simp only [swap01, IsCombo]
    constructor
    · rintro ⟨h1, h2, h3⟩; exact ⟨h2, h1, h3⟩
    · rintro ⟨h1, h2, h3⟩; exact ⟨h2, h1, h3⟩

/-- a permuted grid contains exactly the combinations of the listed values -/
theorem C17_mesh_mem (vals : List (List Rat)) (r : Row) : r ∈ meshRows vals ↔ IsCombo r vals := by
  simp only [meshRows, List.mem_map]
  constructor
  · rintro ⟨a, ha, rfl⟩
    rw [mem_cart] at ha
    have := (isCombo_swap (swap01 a) vals)
    rw [swap01_swap01] at this
    rw [← isCombo_swap]
    rw [swap01_swap01]
    exact ha
  · intro h
    refine ⟨swap01 r, ?_, swap01_swap01 r⟩
    rw [mem_cart, isCombo_swap]
    exact h

theorem cart_length (vals : List (List Rat)) : (cart vals).length = (vals.map List.length).prod := by
  induction vals with
  | nil => rfl
  | cons v vs ih =>
    simp only [cart, List.map_cons, List.prod_cons]
    rw [List.length_flatMap]
    simp only [List.length_map, ih]
    induction v with
    | nil => simp
    | cons a rest ih2 => simp [List.sum_cons, ih2, Nat.add_mul, Nat.add_comm]

theorem swap01_map_length (vals : List (List Rat)) : ((swap01 vals).map List.length).prod = (vals.map List.length).prod := by
  match vals with
  | [] => rfl
  | [_] => rfl
  | a :: b :: r => simp [swap01, Nat.mul_left_comm]

/-- a permuted grid has `∏ nᵢ` rows -/
theorem C17_mesh_length (vals : List (List Rat)) : (meshRows vals).length = (vals.map List.length).prod := by
  simp [meshRows, cart_length, swap01_map_length]

theorem nodup_map_inj {α β} (f : α → β) (hf : ∀ a b, f a = f b → a = b) (l : List α) (h : l.Nodup) : (l.map f).Nodup := by
  unfold List.Nodup at *
  exact List.Pairwise.map f (fun a b hab hfab => hab (hf a b hfab)) h

theorem cart_nodup (vals : List (List Rat)) (h : ∀ v ∈ vals, v.Nodup) : (cart vals).Nodup := by
  induction vals with
  | nil => simp [cart]
  | cons v vs ih =>
    have hv := h v (by simp)
    have hvs := ih (fun w hw => h w (by simp [hw]))
    simp only [cart]
    induction v with
    | nil => simp
    | cons a rest ih2 =>
      simp only [List.flatMap_cons]
      rw [List.nodup_append]
      have ha := (List.nodup_cons.mp hv)
      refine ⟨?_, ih2 (fun w hw => by
          rcases List.mem_cons.mp hw with rfl | hw
          · exact ha.2
          · exact h w (by simp [hw])) ha.2, ?_⟩
      · exact nodup_map_inj _ (fun x y hxy => by injection hxy) _ hvs
      · intro x hx y hy hxy
        subst hxy
        obtain ⟨b, _, rfl⟩ := List.mem_map.mp hx
        obtain ⟨c, hc, hc2⟩ := List.mem_flatMap.mp hy
        obtain ⟨d, _, he⟩ := List.mem_map.mp hc2
        injection he with h1 _
        exact ha.1 (h1 ▸ hc)

theorem swap01_injective {α} (a b : List α) (h : swap01 a = swap01 b) : a = b := by
  have := congrArg swap01 h
  simpa [swap01_swap01] using this

/-- every combination occurs once when the listed values are distinct -/
theorem C17_mesh_nodup (vals : List (List Rat)) (h : ∀ v ∈ vals, v.Nodup) : (meshRows vals).Nodup := by
  unfold meshRows
  apply nodup_map_inj _ (fun a b hab => swap01_injective a b hab)
  apply cart_nodup
  intro v hv
  match vals, hv with
  | [], hv => simp [swap01] at hv
  | [w], hv => simp [swap01] at hv; subst hv; exact h _ (by simp)
  | a :: b :: r, hv =>
    simp only [swap01, List.mem_cons] at hv
    rcases hv with rfl | rfl | hv
    · exact h _ (by simp)
    · exact h _ (by simp)
    · exact h _ (by simp [hv])

/-- a grid key addresses every listed variable on every listed node (or edge) -/
theorem C17_targets (nodes vars : List String) (n v : String) : (n, v) ∈ targets nodes vars ↔ n ∈ nodes ∧ v ∈ vars := by
  simp only [targets, List.mem_flatMap, List.mem_map]
  constructor
  · rintro ⟨a, ha, b, hb, he⟩
    injection he with h1 h2
    subst h1; subst h2
    exact ⟨ha, hb⟩
  · rintro ⟨h1, h2⟩
    exact ⟨n, h1, v, h2, rfl⟩

/-! ## uncoupled copies -/

/-- the blocks have the sizes `dims` -/
def Sized : List Vec → List Nat → Prop
  | [], [] => True
  | y :: ys, d :: ds => y.length = d ∧ Sized ys ds
  | _, _ => False

theorem unflat_flat (ys : List Vec) (dims : List Nat) (h : Sized ys dims) : unflat dims (flat ys) = ys := by
  induction ys generalizing dims with
  | nil => cases dims <;> simp [Sized] at h <;> rfl
  | cons y ys ih =>
    cases dims with
    | nil => simp [Sized] at h
    | cons d ds =>
      obtain ⟨h1, h2⟩ := h
      simp only [flat, List.flatten_cons, unflat]
      rw [List.take_append_of_le_length (by omega), List.take_of_length_le (by omega)]
      rw [List.drop_append_of_le_length (by omega), List.drop_of_length_le (by omega)]
      simp only [List.nil_append]
      congr 1
      exact ih ds h2

theorem vadd_append (a b c d : Vec) (h : a.length = c.length) : vadd (a ++ b) (c ++ d) = vadd a c ++ vadd b d := by
  unfold vadd
  exact List.zipWith_append h

theorem vscale_append (k : Rat) (a b : Vec) : vscale k (a ++ b) = vscale k a ++ vscale k b := by
  simp [vscale]

/-- blockwise operation on the copies -/
def blockwise (g : Field → Vec → Vec) (fs : List Field) (ys : List Vec) : List Vec := List.zipWith g fs ys

/-- the fields keep the size of their blocks -/
def Keeps : List Field → List Nat → Prop
  | [], [] => True
  | f :: fs, d :: ds => (∀ t (y : Vec), y.length = d → (f t y).length = d) ∧ Keeps fs ds
  | _, _ => False

theorem vadd_flat (ys zs : List Vec) (dims : List Nat) (hy : Sized ys dims) (hz : Sized zs dims) :
    vadd (flat ys) (flat zs) = flat (List.zipWith vadd ys zs) := by
  induction ys generalizing zs dims with
  | nil => cases zs <;> simp [flat, vadd]
  | cons y ys ih =>
    cases zs with
    | nil => cases dims <;> simp [Sized] at hz hy
    | cons z zs =>
      cases dims with
      | nil => simp [Sized] at hy
      | cons d ds =>
        simp only [flat, List.flatten_cons, List.zipWith_cons_cons]
        rw [vadd_append _ _ _ _ (by rw [hy.1, hz.1])]
        congr 1
        exact ih zs ds hy.2 hz.2

theorem vscale_flat (k : Rat) (ys : List Vec) : vscale k (flat ys) = flat (ys.map (vscale k)) := by
  induction ys with
  | nil => rfl
  | cons y ys ih =>
    simp only [flat, List.flatten_cons, List.map_cons] at *
    rw [vscale_append, ih]

theorem sized_field (fs : List Field) (dims : List Nat) (hk : Keeps fs dims) (t : Nat) (ys : List Vec) (hy : Sized ys dims) :
    Sized (List.zipWith (fun f b => f t b) fs ys) dims := by
  induction fs generalizing ys dims with
  | nil => cases dims <;> cases ys <;> simp [Sized, Keeps] at hy hk ⊢
  | cons f fs ih =>
    cases dims with
    | nil => simp [Keeps] at hk
    | cons d ds =>
      cases ys with
      | nil => simp [Sized] at hy
      | cons y ys => exact ⟨hk.1 t y hy.1, ih ds hk.2 ys hy.2⟩

theorem sized_map_vscale (k : Rat) (ys : List Vec) (dims : List Nat) (hy : Sized ys dims) : Sized (ys.map (vscale k)) dims := by
  induction ys generalizing dims with
  | nil => cases dims <;> simp [Sized] at hy ⊢
  | cons y ys ih =>
    cases dims with
    | nil => simp [Sized] at hy
    | cons d ds => exact ⟨by rw [vscale, List.length_map]; exact hy.1, ih ds hy.2⟩

theorem sized_zip_vadd (ys zs : List Vec) (dims : List Nat) (hy : Sized ys dims) (hz : Sized zs dims) :
    Sized (List.zipWith vadd ys zs) dims := by
  induction ys generalizing zs dims with
  | nil => cases zs <;> cases dims <;> simp [Sized] at hy hz ⊢
  | cons y ys ih =>
    cases zs with
    | nil => cases dims <;> simp [Sized] at hz hy
    | cons z zs =>
      cases dims with
      | nil => simp [Sized] at hy
      | cons d ds =>
        refine ⟨?_, ih zs ds hy.2 hz.2⟩
        simp [vadd, hy.1, hz.1]

theorem field_flat (fs : List Field) (dims : List Nat) (t : Nat) (ys : List Vec) (hy : Sized ys dims) :
    flatField fs dims t (flat ys) = flat (List.zipWith (fun f b => f t b) fs ys) := by
  simp only [flatField, unflat_flat ys dims hy]

/-- **one Euler step of the combined network = one Euler step of every copy on its own** -/
theorem C17_euler_blocks (fs : List Field) (dims : List Nat) (hk : Keeps fs dims) (dt : Rat) (t0 i : Nat) (ys : List Vec)
    (hy : Sized ys dims) (hl : fs.length = ys.length) :
    eulerStepCode (flatField fs dims) dt t0 i (flat ys) = flat (blockwise (fun f y => eulerStepCode f dt t0 i y) fs ys)
    ∧ Sized (blockwise (fun f y => eulerStepCode f dt t0 i y) fs ys) dims := by
  have hs := sized_field fs dims hk (i + t0) ys hy
  have hsc := sized_map_vscale dt _ dims hs
  have e : blockwise (fun f y => eulerStepCode f dt t0 i y) fs ys =
      List.zipWith vadd ys ((List.zipWith (fun f b => f (i + t0) b) fs ys).map (vscale dt)) := by
    unfold blockwise eulerStepCode
    clear hs hsc hy hk
    induction fs generalizing ys with
    | nil => cases ys <;> simp
    | cons f fs ih =>
      cases ys with
      | nil => simp
      | cons y ys => simp [ih ys (by simpa using hl)]
  refine ⟨?_, ?_⟩
  · rw [e]
    unfold eulerStepCode
    rw [field_flat fs dims _ ys hy, vscale_flat, vadd_flat ys _ dims hy hsc]
  · rw [e]; exact sized_zip_vadd ys _ dims hy hsc


theorem zipWith_blockwise_eq {g h : Field → Vec → Vec} (fs : List Field) (ys : List Vec) (hgh : ∀ f y, g f y = h f y) :
    blockwise g fs ys = blockwise h fs ys := by
  unfold blockwise
  induction fs generalizing ys with
  | nil => simp
  | cons f fs ih =>
    cases ys with
    | nil => simp
    | cons y ys => simp [hgh, ih]

/-- **one Heun step of the combined network = one Heun step of every copy on its own** -/
theorem C17_heun_blocks (fs : List Field) (dims : List Nat) (hk : Keeps fs dims) (dt : Rat) (t0 i : Nat) (ys : List Vec)
    (hy : Sized ys dims) (hl : fs.length = ys.length) :
    heunStep (flatField fs dims) dt t0 i (flat ys) = flat (blockwise (fun f y => heunStep f dt t0 i y) fs ys) := by
  obtain ⟨he, hse⟩ := C17_euler_blocks fs dims hk dt t0 i ys hy hl
  have hk1 := sized_field fs dims hk (i + t0) ys hy
  -- second evaluation at the predicted states
  obtain ⟨ps, hps⟩ : ∃ ps, ps = blockwise (fun f y => eulerStepCode f dt t0 i y) fs ys := ⟨_, rfl⟩
  rw [← hps] at he hse
  have he' : vadd (flat ys) (vscale dt (flatField fs dims (i + t0) (flat ys))) = flat ps := he
  have hk2 := sized_field fs dims hk (i + t0) ps hse
  have hsum := sized_zip_vadd _ _ dims hk1 hk2
  have hsc := sized_map_vscale (dt / 2) _ dims hsum
  unfold heunStep
  simp only []
  rw [he', field_flat fs dims _ ys hy, field_flat fs dims _ ps hse, vadd_flat _ _ dims hk1 hk2, vscale_flat, vadd_flat ys _ dims hy hsc]
  congr 1
  unfold blockwise eulerStepCode at *
  clear he he' hse hk1 hk2 hsum hsc hy hk
  subst hps
  induction fs generalizing ys with
  | nil => cases ys <;> simp
  | cons f fs ih =>
    cases ys with
    | nil => simp
    | cons y ys =>
      simp only [List.zipWith_cons_cons, List.map_cons]
      rw [ih ys (by simpa using hl)]

/-- `k` Euler steps -/
theorem C17_iter_blocks (fs : List Field) (dims : List Nat) (hk : Keeps fs dims) (dt : Rat) (t0 : Nat) (k i : Nat) (ys : List Vec)
    (hy : Sized ys dims) (hl : fs.length = ys.length) :
    iter (eulerStepCode (flatField fs dims) dt t0) i k (flat ys)
      = flat (blockwise (fun f y => iter (eulerStepCode f dt t0) i k y) fs ys) := by
  induction k generalizing i ys with
  | zero =>
    simp only [iter, blockwise]
    congr 1
    clear hy hk
    induction fs generalizing ys with
    | nil => cases ys <;> simp at hl ⊢
    | cons f fs ih =>
      cases ys with
      | nil => simp at hl
      | cons y ys => simp; exact ih ys (by simpa using hl)
  | succ k ih =>
    obtain ⟨h1, h2⟩ := C17_euler_blocks fs dims hk dt t0 i ys hy hl
    simp only [iter]
    rw [h1, ih (i + 1) _ h2 (by simp [blockwise, hl])]
    congr 1
    unfold blockwise
    clear h1 h2 hy hk ih
    induction fs generalizing ys with
    | nil => cases ys <;> simp
    | cons f fs ih2 =>
      cases ys with
      | nil => simp
      | cons y ys => simp [iter]; exact ih2 ys (by simpa using hl)

theorem sized_blockwise_heun (fs : List Field) (dims : List Nat) (hk : Keeps fs dims) (dt : Rat) (t0 i : Nat) (ys : List Vec)
    (hy : Sized ys dims) : Sized (blockwise (fun f y => heunStep f dt t0 i y) fs ys) dims := by
  unfold blockwise
  induction fs generalizing ys dims with
  | nil => cases dims <;> cases ys <;> simp [Sized, Keeps] at hy hk ⊢
  | cons f fs ih =>
    cases dims with
    | nil => simp [Keeps] at hk
    | cons d ds =>
      cases ys with
      | nil => simp [Sized] at hy
      | cons y ys =>
        refine ⟨?_, ih ds hk.2 ys hy.2⟩
        have h1 : (f (i + t0) y).length = d := hk.1 _ y hy.1
        have hp : (vadd y (vscale dt (f (i + t0) y))).length = d := by simp [vadd, vscale, h1, hy.1]
        have h2 : (f (i + t0) (vadd y (vscale dt (f (i + t0) y)))).length = d := hk.1 _ _ hp
        have h2' := h2
        simp only [vadd, vscale] at h2'
        simp [heunStep, vadd, vscale, h1, h2', hy.1]

/-- `k` Heun steps of the combined network = `k` Heun steps of every copy on its own -/
theorem C17_iter_heun_blocks (fs : List Field) (dims : List Nat) (hk : Keeps fs dims) (dt : Rat) (t0 : Nat) (k i : Nat) (ys : List Vec)
    (hy : Sized ys dims) (hl : fs.length = ys.length) :
    iter (heunStep (flatField fs dims) dt t0) i k (flat ys)
      = flat (blockwise (fun f y => iter (heunStep f dt t0) i k y) fs ys) := by
  induction k generalizing i ys with
  | zero =>
    simp only [iter, blockwise]
    congr 1
    clear hy hk
    induction fs generalizing ys with
    | nil => cases ys <;> simp at hl ⊢
    | cons f fs ih =>
      cases ys with
      | nil => simp at hl
      | cons y ys => simp; exact ih ys (by simpa using hl)
  | succ k ih =>
    have h1 := C17_heun_blocks fs dims hk dt t0 i ys hy hl
    have h2 := sized_blockwise_heun fs dims hk dt t0 i ys hy
    simp only [iter]
    rw [h1, ih (i + 1) _ h2 (by simp [blockwise, hl])]
    congr 1
    unfold blockwise
    clear h1 h2 hy hk ih
    induction fs generalizing ys with
    | nil => cases ys <;> simp
    | cons f fs ih2 =>
      cases ys with
      | nil => simp
      | cons y ys => simp [iter]; exact ih2 ys (by simpa using hl)

/-! ## non-vacuity -/

example : meshRows [[1, 2, 3], [10, 20]] = [[1, 10], [2, 10], [3, 10], [1, 20], [2, 20], [3, 20]] := by decide +kernel
example : linearize [[1, 2], [5, 6]] false = some [[1, 5], [2, 6]] := by decide +kernel
example : linearize [[1, 2], [5]] false = none := by decide +kernel
example : meshRows [[1, 2], [10, 20], [7, 8]] =
    [[1, 10, 7], [1, 10, 8], [2, 10, 7], [2, 10, 8], [1, 20, 7], [1, 20, 8], [2, 20, 7], [2, 20, 8]] := by decide +kernel

end PyRates.Sweep
