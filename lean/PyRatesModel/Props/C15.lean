import PyRatesModel.Lemmas.Replace
import PyRatesModel.Generated.Tables
/-!
# C15 (string part) — equation edits change exactly the whole-identifier occurrences

Model: `PyRatesModel/Str/Replace.lean` (`parser.replace`, the function behind every `replace` / `remove` equation edit and
behind the input-rewriting of `CircuitIR._collect_ops`).
-/
namespace PyRates.Str

variable (A term repl : S)

/-- index bookkeeping for a string decomposed as `p ++ term ++ rest` -/
private theorem decomp (p t rest : S) (ht : t ≠ []) :
    (p ++ t ++ rest).take p.length = p ∧
    (p ++ t ++ rest).drop (p.length + t.length) = rest ∧
    (p ++ t ++ rest).take (p.length + t.length) = p ++ t ∧
    (p ++ t ++ rest)[p.length + t.length]? = rest[0]? ∧
    (p ++ t ++ rest)[p.length + t.length - 1]? = t.getLast? ∧
    (0 < p.length → (p ++ t ++ rest)[p.length - 1]? = p.getLast?) := by
  have htl : 0 < t.length := List.length_pos_iff.mpr ht
  refine ⟨by simp [List.append_assoc], ?_, ?_, ?_, ?_, ?_⟩
  · rw [← List.length_append]; simp
  · rw [← List.length_append, List.take_append_of_le_length (by simp)]; exact List.take_length
  · rw [← List.length_append, List.getElem?_append_right (by simp)]; simp
  · rw [List.append_assoc, List.getElem?_append_right (by omega)]
    rw [List.getElem?_append_left (by omega), List.getLast?_eq_getElem?]
    congr 1; omega
  · intro hp
    rw [List.append_assoc, List.getElem?_append_left (by omega), List.getLast?_eq_getElem?]

theorem loop_eq_spec (hterm : term ≠ []) (hsep : ∀ c ∈ term, A.contains c = false) :
    ∀ (fuel : Nat) (prev : Option Char) (eq acc : S), eq.length < fuel →
      replaceLoop A term repl fuel prev eq acc = acc ++ spec A term repl 0 (sepOk A prev) eq := by
  intro fuel
  induction fuel with
  | zero => intro prev eq acc h; omega
  | succ fuel ih =>
    intro prev eq acc hfuel
    unfold replaceLoop
    cases hf : find term eq with
    | none =>
      simp only
      have hno := find_none term eq hf
      have := spec_copy_prefix A term repl hterm eq.length (sepOk A prev) eq (Nat.le_refl _) (fun j _ => hno j)
      rw [this]; simp [spec]
    | some idx =>
      simp only
      obtain ⟨hpre, hno, hle⟩ := find_some term eq idx hf
      -- decompose eq = p ++ term ++ rest
      have hsplit := pre_split term (eq.drop idx) hpre
      generalize hp : eq.take idx = p at *
      generalize hr : (eq.drop idx).drop term.length = rest at *
      have heq : eq = p ++ term ++ rest := by
        rw [List.append_assoc, ← hsplit, ← hp, List.take_append_drop]
      have hpl : p.length = idx := by rw [← hp]; simp [hle]
      subst heq
      subst hpl
      obtain ⟨d1, d2, d3, d4, d5, d6⟩ := decomp p term rest hterm
      have htl : 0 < term.length := List.length_pos_iff.mpr hterm
      -- the spec copies the prefix p
      have hcopy := spec_copy_prefix A term repl hterm p.length (sepOk A prev) (p ++ term ++ rest)
        (by simp) hno
      rw [hcopy, d1]
      have hdrop : (p ++ term ++ rest).drop p.length = term ++ rest := by simp [List.append_assoc]
      rw [hdrop, d2, d3, d4, d5]
      -- flag in front of the occurrence
      have hflag : flagAt A (sepOk A prev) (p ++ term ++ rest) p.length
          = sepOk A (if p.length > 0 then (p ++ term ++ rest)[p.length - 1]? else prev) := by
        unfold flagAt
        by_cases h0 : p.length = 0
        · simp [h0]
        · have : p.length > 0 := by omega
          simp [h0, this]
      rw [hflag]
      generalize hb : sepOk A (if p.length > 0 then (p ++ term ++ rest)[p.length - 1]? else prev) = b
      -- last character of term is not a separator
      have hlast : sepOk A term.getLast? = false := by
        cases hl : term.getLast? with
        | none => simp [List.getLast?_eq_none_iff] at hl; exact absurd hl hterm
        | some c => exact hsep c (List.mem_of_getLast? hl)
      -- unfold the spec at the occurrence
      obtain ⟨c, t', hct⟩ : ∃ c t', term = c :: t' := by
        cases term with
        | nil => exact absurd rfl hterm
        | cons c t' => exact ⟨c, t', rfl⟩
      have hpre' : pre term (term ++ rest) = true := pre_append term rest
      have hget : (term ++ rest)[term.length]? = rest[0]? := by
        rw [List.getElem?_append_right (by omega)]; simp
      have hlen : (p ++ term ++ rest).drop (p.length + term.length) = rest := d2
      have hfuel' : rest.length < fuel := by
        simp only [List.length_append] at hfuel; omega
      have hspec : spec A term repl 0 b (term ++ rest)
          = if b && sepOk A rest[0]? then repl ++ spec A term repl 0 false rest
            else term ++ spec A term repl 0 false rest := by
        have hc : A.contains c = false := hsep c (by simp [hct])
        have ht' : ∀ d ∈ t', A.contains d = false := fun d hd => hsep d (by simp [hct, hd])
        conv => lhs; rw [hct]; simp only [List.cons_append]; unfold spec
        rw [← List.cons_append, ← hct, hpre', hget]
        simp only [Bool.and_true]
        split
        · congr 1
          by_cases hk : term.length - 1 = 0
          · have : t' = [] := by
              have : term.length = 1 := by omega
              rw [hct] at this; simpa using this
            subst this; rw [hk]; rfl
          · rw [spec_skip A term repl _ _ _ (by rw [hct]; simp) (by omega)]
            congr 1
            rw [hct]; simp
        · rw [hc, spec_copy_run A term repl t' rest ht', hct]; rfl
      rw [hspec]
      by_cases hacc : (b && sepOk A rest[0]?) = true
      · simp only [hacc, if_true]
        rw [ih _ _ _ hfuel', hlast]
        simp [List.append_assoc]
      · simp only [hacc, Bool.false_eq_true, if_false]
        rw [ih _ _ _ hfuel', hlast]
        simp [List.append_assoc]

/-- **`replace` is whole-occurrence substitution** for every equation string, every non-empty term made of non-separator
characters and every replacement: exactly the occurrences delimited on both sides by one of the allowed signs (or a border of
the string) are substituted; everything else is copied unchanged. -/
theorem C15_replace_eq_spec (eq : S) (hterm : term ≠ []) (hsep : ∀ c ∈ term, A.contains c = false) :
    replace A eq term repl = spec A term repl 0 true eq := by
  unfold replace
  simp only [hterm, if_false]
  rw [loop_eq_spec A term repl hterm hsep _ none eq [] (by omega)]
  simp [sepOk]

end PyRates.Str

namespace PyRates.Str

/-- the characters Python identifiers are made of (ASCII letters, digits, underscore) -/
def idChars : S := "abcdefghijklmnopqrstuvwxyzABCDEFGHIJKLMNOPQRSTUVWXYZ0123456789_".toList

/-- the allowed follow-up signs found in the current source of `replace` -/
def A0 : S := Tables.replaceAllowedFollowOps.toList

/-- no identifier character is among the allowed follow-up signs of the current source, … -/
theorem C15_idchars_not_separators : ∀ c ∈ idChars, A0.contains c = false := by decide +kernel

/-- … and every sign the equation language puts next to an identifier is (arithmetic, comparison, brackets, comma, blank,
index dot, and the derivative mark `'`). -/
theorem C15_separators_present : ∀ c ∈ "+-*/^=<>()[],.: '".toList, A0.contains c = true := by decide +kernel

/-- **Whole-identifier replacement in the current source.**  For every equation and every identifier `term`, `replace`
substitutes exactly the occurrences of `term` that are delimited by allowed signs / string borders. -/
theorem C15_replace_identifier (eq term repl : S) (hne : term ≠ []) (hid : ∀ c ∈ term, c ∈ idChars) :
    replace A0 eq term repl = spec A0 term repl 0 true eq :=
  C15_replace_eq_spec A0 term repl eq hne (fun c hc => C15_idchars_not_separators c (hid c hc))

/-- never a part of a longer identifier: inside a run of identifier characters that is preceded by an identifier character
nothing is replaced (this is `spec_copy_run`, restated for the source's sign set) -/
theorem C15_longer_identifier_untouched (term repl run rest : S) (hrun : ∀ c ∈ run, c ∈ idChars) :
    spec A0 term repl 0 false (run ++ rest) = run ++ spec A0 term repl 0 false rest :=
  spec_copy_run A0 term repl run rest (fun c hc => C15_idchars_not_separators c (hrun c hc))

/-- an equation in which `term` does not occur at all is returned unchanged -/
theorem C15_replace_absent (eq term repl : S) (hne : term ≠ []) (hid : ∀ c ∈ term, c ∈ idChars)
    (habs : ∀ j, pre term (eq.drop j) = false) : replace A0 eq term repl = eq := by
  rw [C15_replace_identifier eq term repl hne hid]
  have := spec_copy_prefix A0 term repl hne eq.length true eq (Nat.le_refl _) (fun j _ => habs j)
  rw [this]; simp [spec]

/-- Non-vacuity / regression witnesses (identifiers containing one another). -/
example : replace A0 "x = r + rr*r_in - r".toList "r".toList "Q".toList = "x = Q + rr*r_in - Q".toList := by decide +kernel
example : replace A0 "rr + 1".toList "r".toList "Q".toList = "rr + 1".toList := by decide +kernel
example : replace A0 "m_in2 = m_in + m_in2*in".toList "m_in".toList "(a+b)".toList = "m_in2 = (a+b) + m_in2*in".toList := by
  decide +kernel
example : replace A0 "x' = -x + xx".toList "x".toList "v".toList = "v' = -v + xx".toList := by decide +kernel
example : replace A0 "r".toList "r".toList "Q".toList = "Q".toList := by decide +kernel

end PyRates.Str
