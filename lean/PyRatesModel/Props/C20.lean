import PyRatesModel.Guard.Model
/-!
# C20 — unsupported requests fail loudly

The finite matrix backend × solver is decided over the tables regenerated from the source on every run.
-/
namespace PyRates.Guard
open PyRates.Tables

/-- **Every solver outside a backend's SUPPORTED_SOLVERS raises** (for every backend class whose dispatch is modelled and every solver
name that any backend knows, plus some that none knows). -/
theorem C20_unsupported_solver_raises :
    ∀ b ∈ modelled, ∀ s ∈ solverUniverse, b.supported.contains s = false → solveOutcome b s = .raise := by decide +kernel

/-- **Every supported solver name reaches a method that implements that very solver** — no name in a SUPPORTED_SOLVERS tuple falls through
to another integrator. -/
theorem C20_supported_solver_runs_named :
    ∀ b ∈ modelled, ∀ s ∈ b.supported, solveOutcome b s = .runs s := by decide +kernel

/-- the feature guards are consistent with the flags: a ring-buffer delay under a fixed-step solver on a backend without
SUPPORTS_EDGE_DELAY_BUFFER must raise; likewise sparse Jacobians and vectorization on the listed backends -/
theorem C20_feature_guards :
    ∀ b ∈ backends, ∀ s ∈ ["euler", "heun"], b.edgeDelayBuffer = false →
      mustRaise { backend := b.name, solver := s, vectorize := false, delay := .discrete, sparseJacobian := false } = true := by decide +kernel

theorem C20_vectorize_guard :
    ∀ n ∈ vectorizeForbiddenBackends, ∀ s ∈ solverUniverse,
      mustRaise { backend := n, solver := s, vectorize := true, delay := .none, sparseJacobian := false } = true := by decide +kernel

/-! ### the ring-buffer requirement of a network with any number of connections -/

theorem ringFlag_sticky (f : Bool) (cs : List ConnKind) : ringFlag true f cs = (f || cs.any (· == .ring)) := by
  induction cs generalizing f with
  | nil => simp [ringFlag]
  | cons c cs ih => simp [ringFlag, ih, Bool.or_assoc]

/-- the flag found in the current source is the sticky one -/
theorem C20_flag_sticky : ringFlagSticky = true := by decide

/-- **Order independence**: the requirement recorded for a network does not depend on the order in which its connections are declared
or processed. -/
theorem C20_ring_flag_order (cs cs' : List ConnKind) (h : cs.Perm cs') : ringFlag ringFlagSticky false cs = ringFlag ringFlagSticky false cs' := by
  rw [C20_flag_sticky, ringFlag_sticky, ringFlag_sticky]
  congr 1
  rw [Bool.eq_iff_iff]
  simp only [List.any_eq_true]
  constructor
  · rintro ⟨x, hx, hr⟩; exact ⟨x, h.mem_iff.mp hx, hr⟩
  · rintro ⟨x, hx, hr⟩; exact ⟨x, h.mem_iff.mpr hx, hr⟩

/-- **Every network with a ring-buffer connection is refused** by every backend without in-place buffers under a fixed-step solver — for any
number of further connections of any kind, before or after it. -/
theorem C20_ring_anywhere_raises (b : BackendT) (s : String) (hs : fixedStep s = true) (hb : b.edgeDelayBuffer = false)
    (cs : List ConnKind) (h : ConnKind.ring ∈ cs) : mustRaiseConns b s cs = true := by
  unfold mustRaiseConns
  rw [C20_flag_sticky, ringFlag_sticky, hs, hb]
  have : cs.any (· == ConnKind.ring) = true := List.any_eq_true.mpr ⟨.ring, h, by decide⟩
  simp [this]

/-- and a network without one is not refused on these grounds -/
theorem C20_no_ring_not_raised (b : BackendT) (s : String) (cs : List ConnKind) (h : ConnKind.ring ∉ cs) : mustRaiseConns b s cs = false := by
  unfold mustRaiseConns
  rw [C20_flag_sticky, ringFlag_sticky]
  have : cs.any (· == ConnKind.ring) = false := by
    rw [List.any_eq_false]; intro x hx hr
    have : x = .ring := by simpa using hr
    exact h (this ▸ hx)
  simp [this]

/-- why the flag has to be sticky: with "the last delayed connection wins" a ring buffer declared before a cascade is forgotten -/
theorem C20_ring_flag_last_wins_counterexample :
    ringFlag false false [.ring, .cascade] = false ∧ ringFlag true false [.ring, .cascade] = true
      ∧ ringFlag false false [.cascade, .ring] = true := by decide

/-- Non-vacuity: the tables are non-trivial (at least four backends, one of which lacks the ring buffer and one solver that not all support) -/
example : 4 ≤ modelled.length ∧ (backends.any (fun b => !b.edgeDelayBuffer)) = true
    ∧ (modelled.any (fun b => !(b.supported.contains "heun"))) = true := by decide +kernel

end PyRates.Guard
