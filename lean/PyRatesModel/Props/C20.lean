import PyRatesModel.Guard.Model
/-!
# C20 — unsupported requests fail loudly

The finite matrix backend × solver is decided over the tables regenerated from the source on every run.
-/
namespace PyRates.Guard
open PyRates.Tables

/-- **Every solver outside a backend's SUPPORTED_SOLVERS raises** (for every backend class whose dispatch is modelled and every solver
name that any backend knows, plus some that none knows). -/
theorem C20_unsupported_solver_raises :
    ∀ b ∈ modelled, ∀ s ∈ solverUniverse, b.supported.contains s = false → solveOutcome b s = .raise := by decide +kernel

/-- **Every supported solver name reaches a method that implements that very solver** — no name in a SUPPORTED_SOLVERS tuple falls through
to another integrator. -/
theorem C20_supported_solver_runs_named :
    ∀ b ∈ modelled, ∀ s ∈ b.supported, solveOutcome b s = .runs s := by decide +kernel

/-- the feature guards are consistent with the flags: a ring-buffer delay under a fixed-step solver on a backend without
SUPPORTS_EDGE_DELAY_BUFFER must raise; likewise sparse Jacobians and vectorization on the listed backends -/
theorem C20_feature_guards :
    ∀ b ∈ backends, ∀ s ∈ ["euler", "heun"], b.edgeDelayBuffer = false →
      mustRaise { backend := b.name, solver := s, vectorize := false, delay := .discrete, sparseJacobian := false } = true := by decide +kernel

theorem C20_vectorize_guard :
    ∀ n ∈ vectorizeForbiddenBackends, ∀ s ∈ solverUniverse,
      mustRaise { backend := n, solver := s, vectorize := true, delay := .none, sparseJacobian := false } = true := by decide +kernel

/-- Non-vacuity: the tables are non-trivial (at least four backends, one of which lacks the ring buffer and one solver that not all support) -/
example : 4 ≤ modelled.length ∧ (backends.any (fun b => !b.edgeDelayBuffer)) = true
    ∧ (modelled.any (fun b => !(b.supported.contains "heun"))) = true := by decide +kernel

end PyRates.Guard
