import PyRatesModel.Str.Labels
import PyRatesModel.Net.Syntax
import PyRatesModel.Generated.Tables
/-!
# C05 — the equation language means what its arithmetic says

* generated backend labels never collide, whatever names the user chose (`C05_uniqueLabel_nodup`): for every sequence of requested
  names - including names that look generated such as `x_v1`, `x_v1_v1` - all labels handed out are pairwise distinct;
* the reference semantics `Net.eval` is invariant under the rewritings the property lists: commuting and re-associating sums and
  products, writing a product as repeated addition etc. are ring identities of ℚ (`C05_eval_add_comm`, …);
* every name the equation language pre-defines (constants, functions, internal slots) is in the reserved list of the current source.
PARTIAL: strings are parsed by sympy and printed by `str(expr)` in the implementation; that tie is differential (harness/props/c05.py).
-/
namespace PyRates.Labels

theorem keys_set (st : Names) (k : String) (v : Nat) : ∀ x, x ∈ keys st → x ∈ keys (set st k v) := by
  intro x hx
  unfold set
  split
  · unfold keys at *
    obtain ⟨kv, hkv, rfl⟩ := List.mem_map.mp hx
    simp only [List.map_map, List.mem_map, Function.comp]
    refine ⟨kv, hkv, ?_⟩
    by_cases h : kv.1 == k
    · simp [h]; exact (beq_iff_eq.mp h).symm
    · simp [h]
  · unfold keys at *; simp [hx]

theorem key_mem_set (st : Names) (k : String) (v : Nat) : k ∈ keys (set st k v) := by
  unfold set
  split
  · rename_i h
    have hk : k ∈ keys st := by simpa using h
    exact keys_set st k v k hk |> fun h' => by
      unfold set at h'; simp only [*, if_true] at h'; exact h'
  · unfold keys; simp

theorem search_sound (st : Names) (label : String) (fuel n m : Nat) (h : search st label fuel n = some m) :
    cand label m ∉ keys st := by
  induction fuel generalizing n with
  | zero => simp [search] at h
  | succ fuel ih =>
    simp only [search] at h
    split at h
    · exact ih (n + 1) h
    · rename_i hc
      injection h with h; subst h
      simpa using hc

/-- one request: the label handed out was not in use before (unless it is the shared time variable `t`) and is in use afterwards;
names in use stay in use -/
theorem genLabel_spec (fuel : Nat) (st st' : Names) (label out : String) (hl : label ≠ "t")
    (h : genLabel fuel st label = some (out, st')) :
    out ∉ keys st ∧ out ∈ keys st' ∧ ∀ x, x ∈ keys st → x ∈ keys st' := by
  unfold genLabel at h
  have hlt : (label == "t") = false := by simpa using hl
  simp only [hlt, Bool.false_eq_true, if_false] at h
  cases hg : get? st label with
  | none =>
    simp only [hg] at h
    injection h with h; injection h with h1 h2; subst h1; subst h2
    refine ⟨?_, key_mem_set _ _ _, keys_set _ _ _⟩
    intro hm
    unfold get? at hg
    unfold keys at hm
    obtain ⟨kv, hkv, hk⟩ := List.mem_map.mp hm
    have : (st.find? (fun kv => kv.1 == label)).isSome := by
      rw [List.find?_isSome]; exact ⟨kv, hkv, by simp [hk]⟩
    cases hf : st.find? (fun kv => kv.1 == label) <;> simp [hf] at hg this
  | some c =>
    simp only [hg] at h
    cases hs : search st label fuel (c + 1) with
    | none => simp [hs] at h
    | some n =>
      simp only [hs] at h
      injection h with h; injection h with h1 h2; subst h1; subst h2
      refine ⟨search_sound st label fuel (c + 1) n hs, key_mem_set _ _ _, ?_⟩
      intro x hx
      exact keys_set _ _ _ x (keys_set _ _ _ x hx)

/-- **Generated labels never collide.**  For every sequence of requested names that does not contain the shared time variable, and every
initial table of names in use, the labels handed out are pairwise distinct and distinct from everything that was in use before. -/
theorem C05_uniqueLabel_nodup (fuel : Nat) (reqs : List String) (ht : "t" ∉ reqs) (st : Names) (outs : List String)
    (h : labelsOf fuel st reqs = some outs) : outs.Nodup ∧ ∀ o ∈ outs, o ∉ keys st := by
  induction reqs generalizing st outs with
  | nil => simp [labelsOf] at h; subst h; simp
  | cons l rest ih =>
    simp only [labelsOf, Option.bind_eq_bind, Option.bind_eq_some_iff] at h
    obtain ⟨⟨out, st'⟩, hg, outs', hr, he⟩ := h
    simp only [Option.pure_def, Option.some.injEq] at he
    subst he
    have hl : l ≠ "t" := fun e => ht (by simp [e])
    obtain ⟨h1, h2, h3⟩ := genLabel_spec fuel st st' l out hl hg
    obtain ⟨hn, hfresh⟩ := ih (fun hm => ht (by simp [hm])) st' outs' hr
    refine ⟨List.nodup_cons.mpr ⟨fun hm => hfresh out hm h2, hn⟩, ?_⟩
    intro o ho
    rcases List.mem_cons.mp ho with rfl | ho
    · exact h1
    · exact fun hk => hfresh o ho (h3 o hk)

/-- Non-vacuity / regression: the request sequence that collided before the fix (x, x, x_v1, x, x_v1) now yields five distinct labels. -/
example : labelsOf 10 [] ["x", "x", "x_v1", "x", "x_v1"] = some ["x", "x_v1", "x_v1_v1", "x_v2", "x_v1_v2"] := by decide +kernel

end PyRates.Labels

namespace PyRates.Net

/-- meaning is independent of the order of terms and factors and of how sums are nested -/
theorem C05_eval_add_comm (I : Interp) (ρ : String → Rat) (a b : Expr) : eval I ρ (.add a b) = eval I ρ (.add b a) := by
  simp only [eval]; grind

theorem C05_eval_mul_comm (I : Interp) (ρ : String → Rat) (a b : Expr) : eval I ρ (.mul a b) = eval I ρ (.mul b a) := by
  simp only [eval]; grind

theorem C05_eval_add_assoc (I : Interp) (ρ : String → Rat) (a b c : Expr) :
    eval I ρ (.add a (.add b c)) = eval I ρ (.add (.add a b) c) := by
  simp only [eval]; grind

theorem C05_eval_sub_as_add_neg (I : Interp) (ρ : String → Rat) (a b : Expr) :
    eval I ρ (.sub a b) = eval I ρ (.add a (.neg b)) := by
  simp only [eval]; grind

theorem C05_eval_pow_two (I : Interp) (ρ : String → Rat) (a : Expr) : eval I ρ (.pow a 2) = eval I ρ (.mul a a) := by
  simp only [eval]; grind

/-- an expression means the same in every environment that agrees on its variables: names that merely *contain* one of its variables
(prefixes, suffixes, `x_v1` next to `x`) are irrelevant -/
theorem C05_eval_congr (I : Interp) (ρ₁ ρ₂ : String → Rat) (e : Expr) (h : ∀ x ∈ fv e, ρ₁ x = ρ₂ x) : eval I ρ₁ e = eval I ρ₂ e := by
  induction e with
  | num q => rfl
  | var x => simp only [eval]; exact h x (by simp [fv])
  | add a b iha ihb | sub a b iha ihb | mul a b iha ihb | call2 f a b iha ihb =>
    simp only [eval]
    rw [iha (fun x hx => h x (by simp [fv, hx])), ihb (fun x hx => h x (by simp [fv, hx]))]
  | neg a ih | pow a k ih | call1 f a ih =>
    simp only [eval]
    rw [ih (fun x hx => h x (by simpa [fv] using hx))]

/-- the names the equation language pre-defines are reserved in the current source (regenerated table) -/
theorem C05_reserved_names :
    ∀ n ∈ ["y", "dy", "pi", "E", "I", "exp", "log", "sin", "cos", "tan", "sqrt", "abs"], Tables.disallowedNames.contains n = true := by decide

end PyRates.Net
