import PyRatesModel.Props.C01
/-!
# C09 — discrete edge delays shift the source by round(delay/dt) steps

Mechanism: `_add_edge_buffer` (ir/circuit.py 595-641) emits, per call of the generated function,
`buf = roll(buf, 1); buf[0] = x; out = buf[d]` on a zero-initialised buffer of `d + 1` slots.
-/
namespace PyRates.Delay

/-- `np.roll(buf, 1)` followed by `buf[0] = x` -/
def push (buf : List Rat) (x : Rat) : List Rat := x :: buf.dropLast

/-- buffer after the calls for steps `0 … k-1` with source values `xs 0 … xs (k-1)`, starting from zeros -/
def bufAfter (n : Nat) (xs : Nat → Rat) : Nat → List Rat
  | 0 => List.replicate n 0
  | k + 1 => push (bufAfter n xs k) (xs k)

theorem push_length (buf : List Rat) (x : Rat) (h : 0 < buf.length) : (push buf x).length = buf.length := by
  simp [push]; omega

theorem bufAfter_length (n : Nat) (hn : 0 < n) (xs : Nat → Rat) (k : Nat) : (bufAfter n xs k).length = n := by
  induction k with
  | zero => simp [bufAfter]
  | succ k ih => rw [bufAfter, push_length _ _ (by omega), ih]

/-- **Ring-buffer invariant**: after the call of step `k`, slot `j` holds the source value of step `k − j` (zero if the simulation had not
started yet) — for every buffer size, every step and every source sequence. -/
theorem C09_ring_invariant (n : Nat) (xs : Nat → Rat) (k j : Nat) (hj : j < n) :
    (bufAfter n xs (k + 1))[j]? = some (if j ≤ k then xs (k - j) else 0) := by
  induction k generalizing j with
  | zero =>
    cases j with
    | zero => simp [bufAfter, push]
    | succ j =>
      simp only [bufAfter, push, List.getElem?_cons_succ]
      have : j < (List.replicate n (0 : Rat)).dropLast.length := by simp; omega
      rw [List.getElem?_eq_getElem this]
      simp [List.getElem_dropLast]
  | succ k ih =>
    cases j with
    | zero => simp [bufAfter, push]
    | succ j =>
      rw [bufAfter]
      simp only [push, List.getElem?_cons_succ]
      have hl : (bufAfter n xs (k + 1)).length = n := bufAfter_length n (by omega) xs (k + 1)
      have hj' : j < (bufAfter n xs (k + 1)).dropLast.length := by simp [hl]; omega
      rw [List.getElem?_eq_getElem hj', List.getElem_dropLast]
      have := ih j (by omega)
      rw [List.getElem?_eq_getElem (by omega)] at this
      rw [Option.some.inj this]
      by_cases h : j ≤ k
      · have h2 : j + 1 ≤ k + 1 := by omega
        simp only [h, h2, if_true]
        congr 2
        omega
      · have h2 : ¬ (j + 1 ≤ k + 1) := by omega
        simp [h, h2]

/-- the value read by an edge with a delay of `d` steps during step `k` (`out = buf[d]`, buffer of `d+1` slots): the source value of
step `k − d`, zero before the start; every edge reads its own slot, so edges with different delays sharing the source do not interact -/
theorem C09_delayed_read (d : Nat) (xs : Nat → Rat) (k : Nat) :
    (bufAfter (d + 1) xs (k + 1))[d]? = some (if d ≤ k then xs (k - d) else 0) :=
  C09_ring_invariant (d + 1) xs k d (by omega)

/-- Witness: if the buffer is pushed twice per step (both Heun evaluations call the function) a delay of 3 steps acts after 1.5 steps. -/
theorem C09_double_push_counterexample :
    let xs : Nat → Rat := fun k => (k : Rat)
    -- three Heun steps = six pushes of the values 0,0,1,1,2,2
    (bufAfter 4 (fun i => xs (i / 2)) 6)[3]? = some 1 ∧ (bufAfter 4 xs 3)[3]? = some 0 := by decide +kernel

/-! ### vectorized sources: one buffer row per unit, read by `index_2d(buffer, source_idx, delays)` -/

/-- the 2-D buffer of a vector-valued source after the calls for steps `0 … k-1`: row `u` is the ring buffer of unit `u` -/
def bufAfterV (n units : Nat) (xs : Nat → Nat → Rat) (k : Nat) : List (List Rat) :=
  (List.range units).map (fun u => bufAfter n (xs u) k)

/-- `buffer[source_idx[i], delays[i]]` -/
def read2d (bufs : List (List Rat)) (src d : Nat) : Option Rat := (bufs[src]?).bind (·[d]?)

/-- **Every edge of a vectorized source reads its own unit at its own delay**: slot `(u, d)` of the 2-D buffer holds the value unit `u`
had `d` steps ago (zero before the start), for every number of units, buffer width, step and source sequence. -/
theorem C09_vector_read (n units : Nat) (xs : Nat → Nat → Rat) (k u d : Nat) (hu : u < units) (hd : d < n) :
    read2d (bufAfterV n units xs (k + 1)) u d = some (if d ≤ k then xs u (k - d) else 0) := by
  unfold read2d bufAfterV
  rw [List.getElem?_map, List.getElem?_range hu]
  simp only [Option.map_some, Option.bind_some]
  exact C09_ring_invariant n (xs u) k d hd

/-- Why the unit index matters: reading the whole column `buffer[:, d]` hands slot `i` the delayed value of unit `i`, which is the source of
edge `i` only if the edges are declared in unit order (two units, edges declared as (1, 0): edge 0 must read unit 1). -/
theorem C09_column_shortcut_counterexample :
    let xs : Nat → Nat → Rat := fun u k => (10 * u + k : Nat)
    read2d (bufAfterV 3 2 xs 4) 1 2 = some 11 ∧ read2d (bufAfterV 3 2 xs 4) 0 2 = some 1 := by decide +kernel

end PyRates.Delay
