import PyRatesModel.Props.C07
/-!
# C14 — read-only and copy-making operations leave a template unchanged

Model of `CircuitTemplate.collect_edges` (frontend/template/circuit.py 1072-1099) on a circuit with sub-circuits: the parent owns an
edge list, every sub-circuit owns its own.  The collected list is the parent's edges followed by every sub-circuit's edges with the
sub-circuit label prefixed.  `collect` builds a new list; `collectAliased` is the pre-fix code, which appended to the parent's own list.
Copy-on-derive / copy-on-write for values is `C07_frame`.
-/
namespace PyRates.Front

structure E where
  src : String
  tgt : String
  w : Rat
deriving Repr, DecidableEq

structure Circ where
  edges : List E
  subs : List (String × List E)
deriving Repr, DecidableEq

def pref (l : String) (e : E) : E := { e with src := l ++ "/" ++ e.src, tgt := l ++ "/" ++ e.tgt }

/-- specification: all edges of the hierarchy with prefixed endpoints, each exactly once -/
def allEdges (c : Circ) : List E := c.edges ++ c.subs.flatMap (fun (l, es) => es.map (pref l))

/-- `collect_edges` as it is now: a new list, the template is not touched -/
def collect (c : Circ) : Circ × List E := (c, allEdges c)

/-- pre-fix `collect_edges`: `edges = self.edges; edges.append(...)` — the result *is* the parent's list -/
def collectAliased (c : Circ) : Circ × List E := ({ c with edges := allEdges c }, allEdges c)

def repeatOp (f : Circ → Circ × List E) : Nat → Circ → Circ × List E
  | 0, c => (c, [])
  | n + 1, c => let (c', _) := f c; repeatOp f n c' |> fun r => (r.1, (f r.1).2)

/-- **Frame**: any number of `collect_edges` calls leaves the template exactly as it was and each call returns the specification's list. -/
theorem C14_collect_frame (c : Circ) (n : Nat) : (repeatOp collect n c).1 = c := by
  induction n generalizing c with
  | zero => rfl
  | succ n ih => simp [repeatOp, collect, ih]

theorem C14_collect_result (c : Circ) : (collect c).2 = allEdges c ∧ (collect c).1 = c := ⟨rfl, rfl⟩

/-- every edge of a sub-circuit appears exactly once in the collected list (counting) -/
theorem C14_collect_length (c : Circ) : (collect c).2.length = c.edges.length + (c.subs.map (fun s => s.2.length)).sum := by
  simp only [collect, allEdges, List.length_append]
  congr 1
  induction c.subs with
  | nil => rfl
  | cons s r ih => simp [List.flatMap_cons, ih]

/-- Witness (pre-fix code): a parent with 1 edge and a sub-circuit with 2 edges grows 1 → 3 → 5 under repeated calls. -/
theorem C14_aliased_grows :
    let c : Circ := { edges := [⟨"a", "b", 1⟩], subs := [("s", [⟨"p", "q", 1⟩, ⟨"q", "p", 2⟩])] }
    c.edges.length = 1 ∧ (collectAliased c).1.edges.length = 3 ∧ (collectAliased (collectAliased c).1).1.edges.length = 5 := by
  decide +kernel

/-- read-only accessors of the value store do not change it (`valueAt` is a pure function of the store): stated for completeness -/
theorem C14_valueAt_readonly (s : Store) (dflt : String → Rat) (l v : String) : (fun _ : Rat => s) (s.valueAt dflt l v) = s := rfl

end PyRates.Front
