import PyRatesModel.Props.C01
/-!
# C04 — vectorization does not change the model (mechanism theorems)

The specification (`Net.IsSolution`) speaks about frontend variables only, so it does not mention how nodes are grouped: any
compilation scheme that satisfies it per frontend variable yields the same dynamics.  What vectorization adds are two data-dependent
mechanisms in `NetworkGraph._generate_edge_equation`; they are modelled and proved equivalent here:

* the **matrix branch**: a weight matrix is filled from the list of (target index, source index, weight) triples of all merged edges
  (`weight_mat[row, col] += w`) and multiplied with the source vector;
* the **indexed branch**: `t[tidx] = s[sidx] * w`, used only when all target indices are distinct.

Both equal the grouped sum `Σ_{(t,s,w), t = i} w · x_s`, duplicates (parallel edges) included — hence the branch chosen by the
`matrix_sparseness` threshold cannot matter.
-/
namespace PyRates.Vec

abbrev Triple := Nat × Nat × Rat     -- (target index, source index, weight)

/-- what target `i` must receive: the sum over **all** triples with that target -/
def groupedSum (ts : List Triple) (x : Nat → Rat) (i : Nat) : Rat :=
  (ts.map (fun (t : Triple) => if t.1 = i then t.2.2 * x t.2.1 else 0)).sum

/-- `weight_mat[row, col] += w` for every triple, starting from zeros (matrix as a function) -/
def fillAcc (ts : List Triple) : Nat → Nat → Rat :=
  ts.foldl (fun W (t : Triple) => fun r c => if r = t.1 ∧ c = t.2.1 then W r c + t.2.2 else W r c) (fun _ _ => 0)

/-- the pre-fix code: `weight_mat[row, col] = w` -/
def fillOverwrite (ts : List Triple) : Nat → Nat → Rat :=
  ts.foldl (fun W (t : Triple) => fun r c => if r = t.1 ∧ c = t.2.1 then t.2.2 else W r c) (fun _ _ => 0)

/-- row `i` of `W · x` for `n` source entries -/
def matvec (W : Nat → Nat → Rat) (x : Nat → Rat) (n : Nat) (i : Nat) : Rat :=
  ((List.range n).map (fun j => W i j * x j)).sum

theorem sum_range_update (n s : Nat) (hs : s < n) (a : Nat → Rat) (w : Rat) (x : Nat → Rat) :
    ((List.range n).map (fun j => (if j = s then a j + w else a j) * x j)).sum
      = ((List.range n).map (fun j => a j * x j)).sum + w * x s := by
  induction n with
  | zero => omega
  | succ n ih =>
    rw [List.range_succ, List.map_append, List.map_append, List.sum_append, List.sum_append]
    simp only [List.map_cons, List.map_nil, List.sum_cons, List.sum_nil]
    by_cases hsn : s = n
    · subst hsn
      have : ((List.range s).map (fun j => (if j = s then a j + w else a j) * x j))
           = ((List.range s).map (fun j => a j * x j)) := by
        apply List.map_congr_left
        intro j hj
        have : j ≠ s := by have := List.mem_range.mp hj; omega
        simp [this]
      rw [this]; simp; grind
    · have hlt : s < n := by omega
      rw [ih hlt]
      have : n ≠ s := fun h => hsn h.symm
      simp [this]; grind

theorem matvec_fold (ts : List Triple) (x : Nat → Rat) (n i : Nat) (hs : ∀ t ∈ ts, t.2.1 < n) (W0 : Nat → Nat → Rat) :
    matvec (ts.foldl (fun W (t : Triple) => fun r c => if r = t.1 ∧ c = t.2.1 then W r c + t.2.2 else W r c) W0) x n i
      = matvec W0 x n i + groupedSum ts x i := by
  induction ts generalizing W0 with
  | nil => simp [groupedSum]; grind
  | cons t rest ih =>
    rw [List.foldl_cons, ih (fun t' ht' => hs t' (List.mem_cons_of_mem _ ht'))]
    have hst : t.2.1 < n := hs t (by simp)
    simp only [groupedSum, List.map_cons, List.sum_cons]
    by_cases hi : t.1 = i
    · subst hi
      have : matvec (fun r c => if r = t.1 ∧ c = t.2.1 then W0 r c + t.2.2 else W0 r c) x n t.1
           = matvec W0 x n t.1 + t.2.2 * x t.2.1 := by
        unfold matvec
        have := sum_range_update n t.2.1 hst (fun j => W0 t.1 j) t.2.2 x
        simpa using this
      rw [this]; simp; grind
    · have : matvec (fun r c => if r = t.1 ∧ c = t.2.1 then W0 r c + t.2.2 else W0 r c) x n i = matvec W0 x n i := by
        unfold matvec
        apply congrArg
        apply List.map_congr_left
        intro j _
        have : ¬ (i = t.1 ∧ j = t.2.1) := fun h => hi h.1.symm
        simp [this]
      rw [this]; simp [hi]; grind

/-- **Matrix branch.**  The weight matrix filled by accumulation, times the source vector, gives every target the sum over all
merged edges that lead to it — parallel edges (identical (target, source) pairs) included. -/
theorem C04_weightMat_matvec (ts : List Triple) (x : Nat → Rat) (n i : Nat) (hs : ∀ t ∈ ts, t.2.1 < n) :
    matvec (fillAcc ts) x n i = groupedSum ts x i := by
  unfold fillAcc
  rw [matvec_fold ts x n i hs]
  have hz : ∀ m : Nat, ((List.range m).map (fun _ => (0 : Rat))).sum = 0 := by
    intro m
    induction m with
    | zero => rfl
    | succ m ih => rw [List.range_succ, List.map_append, List.sum_append, ih]; simp; grind
  have : matvec (fun _ _ => (0 : Rat)) x n i = 0 := by
    unfold matvec
    have : (List.range n).map (fun j => (0 : Rat) * x j) = (List.range n).map (fun _ => (0 : Rat)) := by
      apply List.map_congr_left; intro j _; grind
    rw [this, hz]
  rw [this]; grind

/-- the indexed branch `t[tidx] = s[sidx] * w`: the value written to target `i` is that of the **last** triple with target `i` -/
def scatter (ts : List Triple) (x : Nat → Rat) : Nat → Rat :=
  ts.foldl (fun (out : Nat → Rat) (t : Triple) => fun i => if i = t.1 then t.2.2 * x t.2.1 else out i) (fun _ => 0)

theorem groupedSum_cons (t : Triple) (rest : List Triple) (x : Nat → Rat) (i : Nat) :
    groupedSum (t :: rest) x i = (if t.1 = i then t.2.2 * x t.2.1 else 0) + groupedSum rest x i := by
  simp [groupedSum]

theorem groupedSum_zero (rest : List Triple) (x : Nat → Rat) (i : Nat) (h : ∀ t ∈ rest, t.1 ≠ i) :
    groupedSum rest x i = 0 := by
  induction rest with
  | nil => rfl
  | cons t r ih =>
    rw [groupedSum_cons, ih (fun t' ht' => h t' (List.mem_cons_of_mem _ ht'))]
    have : t.1 ≠ i := h t (by simp)
    simp [this]; grind

theorem scatter_fold (ts : List Triple) (x : Nat → Rat) (out0 : Nat → Rat) (i : Nat)
    (hd : (ts.map (·.1)).Nodup) (h0 : (∃ t ∈ ts, t.1 = i) → out0 i = 0) :
    ts.foldl (fun (out : Nat → Rat) (t : Triple) => fun i => if i = t.1 then t.2.2 * x t.2.1 else out i) out0 i
      = out0 i + groupedSum ts x i := by
  induction ts generalizing out0 with
  | nil => simp [groupedSum]; grind
  | cons t rest ih =>
    simp only [List.map_cons, List.nodup_cons] at hd
    rw [List.foldl_cons, groupedSum_cons]
    by_cases hi : t.1 = i
    · subst hi
      have hnot : ∀ t' ∈ rest, t'.1 ≠ t.1 := by
        intro t' ht' he
        exact hd.1 (by rw [← he]; exact List.mem_map_of_mem ht')
      rw [ih _ hd.2 (fun ⟨t', ht', he⟩ => absurd he (hnot t' ht'))]
      rw [groupedSum_zero rest x t.1 hnot, h0 ⟨t, by simp, rfl⟩]
      simp; grind
    · have hne : i ≠ t.1 := fun h => hi h.symm
      rw [ih _ hd.2 (by
        intro h; simp only [hne, if_false]
        obtain ⟨t', ht', he⟩ := h
        exact h0 ⟨t', List.mem_cons_of_mem _ ht', he⟩)]
      simp [hne, hi]; grind

/-- **Indexed branch.**  When all target indices are distinct (the only situation in which the code takes this branch) the scatter
writes the grouped sum as well … -/
theorem C04_scatter_distinct (ts : List Triple) (x : Nat → Rat) (i : Nat) (hd : (ts.map (·.1)).Nodup) :
    scatter ts x i = groupedSum ts x i := by
  unfold scatter
  rw [scatter_fold ts x (fun _ => 0) i hd (fun _ => rfl)]
  grind

/-- … so both branches are interchangeable: the `matrix_sparseness` threshold cannot change the result. -/
theorem C04_branch_irrelevant (ts : List Triple) (x : Nat → Rat) (n i : Nat) (hs : ∀ t ∈ ts, t.2.1 < n)
    (hd : (ts.map (·.1)).Nodup) : matvec (fillAcc ts) x n i = scatter ts x i := by
  rw [C04_weightMat_matvec ts x n i hs, C04_scatter_distinct ts x i hd]

/-- Witness (pre-fix code): with `=` instead of `+=` two parallel edges (weights 3 and 5) deliver 5·x, not 8·x. -/
theorem C04_overwrite_counterexample :
    matvec (fillOverwrite [(0, 0, 3), (0, 0, 5)]) (fun _ => 1) 1 0 = 5 ∧ matvec (fillAcc [(0, 0, 3), (0, 0, 5)]) (fun _ => 1) 1 0 = 8 := by
  decide +kernel

end PyRates.Vec
