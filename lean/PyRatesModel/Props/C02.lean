import PyRatesModel.Backends.Funcs
import PyRatesModel.Generated.Tables
import PyRatesModel.Lemmas.Hist
/-!
# C02 — all backends compute the same function for the same model

What differs between backends is (a) the target syntax and (b) a small table of functions that are not plain library calls.  The
theorems cover (b):
* `C02_finterp_eq_spec`: the Fortran interpolation function (search loop + two-point formula) equals the clamped piecewise-linear
  interpolant - what `np.interp`/`jnp.interp` compute - for every increasing grid, every sample vector and every query, *provided the
  emitted formula starts from sample `n-1`*; which sample the current source uses is a regenerated table (`C02_tables`).
* `C02_finterp_wrong_base`: with the other base point the function is not the interpolant (a concrete witness), so the table entry
  matters.
* `C02_idx_once`: an index variable is shifted by the backend's start index exactly once however often it is rendered, provided
  the membership test and the insertion use the same key (regenerated table).
PARTIAL: syntax generation and all library-backed functions (sigmoid, matvec, sums, roll buffers ...) are tied differentially
(harness/props/c02.py): vector fields, returned arguments and trajectories of the four backends are compared with one another and,
on polynomial models, exactly with the Lean value.
-/
namespace PyRates.Backends
open PyRates.Hist (StrictSorted sorted_tail)

theorem lerp1_left (x0 y0 x1 y1 : Rat) : lerp1 x0 y0 x1 y1 x0 = y0 := by
  unfold lerp1
  have : x0 - x0 = 0 := by grind
  rw [this, Rat.div_def, Rat.zero_mul, Rat.zero_mul, Rat.add_zero]

/-- the scan started at grid point `(px, py)` with `px ≤ t` is the interpolant of the remaining grid -/
theorem fscan_eq_spec (px py : Rat) (xs ys : List Rat) (t : Rat) (hl : xs.length = ys.length) (hs : StrictSorted (px :: xs))
    (hp : px ≤ t) : fscan true px py xs ys t = interpSpec (px :: xs) (py :: ys) t := by
  induction xs generalizing px py ys with
  | nil =>
    cases ys with
    | nil => simp [fscan, interpSpec]
    | cons _ _ => simp at hl
  | cons x xs ih =>
    cases ys with
    | nil => simp at hl
    | cons y ys =>
      have hpx : px < x := by
        simp only [StrictSorted] at hs
        cases xs <;> first | exact hs | exact hs.1
      simp only [fscan, interpSpec, if_true]
      by_cases h1 : t < x
      · simp only [h1, if_true]
        by_cases h0 : t ≤ px
        · have : t = px := by grind
          subst this
          simp only [Rat.le_refl, if_true]
          have := lerp1_left t py x y
          unfold lerp1 at this
          exact this
        · simp only [h0, if_false]; rfl
      · simp only [h1, if_false]
        have h0 : ¬ t ≤ px := by grind
        simp only [h0, if_false]
        exact ih x y ys (by simpa using hl) (sorted_tail hs) (by grind)

theorem getLastD_cons_le (x0 : Rat) (xs : List Rat) (hs : StrictSorted (x0 :: xs)) : x0 ≤ (x0 :: xs).getLastD x0 := by
  induction xs generalizing x0 with
  | nil => simp
  | cons x xs ih =>
    have hx : x0 < x := by
      simp only [StrictSorted] at hs
      cases xs <;> first | exact hs | exact hs.1
    have := ih x (sorted_tail hs)
    have e : (x0 :: x :: xs).getLastD x0 = (x :: xs).getLastD x := by
      simp [List.getLastD]
    rw [e]; grind

/-- beyond the last grid point the interpolant is the last sample -/
theorem spec_after_last (xs ys : List Rat) (x0 y0 : Rat) (t : Rat) (hl : xs.length = ys.length) (hs : StrictSorted (x0 :: xs))
    (ht : (x0 :: xs).getLastD x0 < t) : interpSpec (x0 :: xs) (y0 :: ys) t = (y0 :: ys).getLastD y0 := by
  induction xs generalizing x0 y0 ys with
  | nil =>
    cases ys with
    | nil => simp [interpSpec]
    | cons _ _ => simp at hl
  | cons x xs ih =>
    cases ys with
    | nil => simp at hl
    | cons y ys =>
      have hx : x0 < x := by
        simp only [StrictSorted] at hs
        cases xs <;> first | exact hs | exact hs.1
      have e : (x0 :: x :: xs).getLastD x0 = (x :: xs).getLastD x := by simp [List.getLastD]
      have e2 : (y0 :: y :: ys).getLastD y0 = (y :: ys).getLastD y := by simp [List.getLastD]
      rw [e] at ht
      have hle := getLastD_cons_le x xs (sorted_tail hs)
      simp only [interpSpec]
      have h0 : ¬ t ≤ x0 := by grind
      have h1 : ¬ t < x := by grind
      simp only [h0, h1, if_false]
      rw [e2]
      exact ih (x0 := x) (y0 := y) (ys := ys) (by simpa using hl) (sorted_tail hs) ht

/-- **The Fortran interpolation function is the interpolant** (for the base point `n-1`). -/
theorem C02_finterp_eq_spec (xs ys : List Rat) (t : Rat) (hl : xs.length = ys.length) (h1 : 1 ≤ xs.length) (hs : StrictSorted xs) :
    finterp true xs ys t = interpSpec xs ys t := by
  match xs, ys, hl, h1, hs with
  | x0 :: xs', y0 :: ys', hl, _, hs =>
    simp only [finterp]
    by_cases ha : t < x0
    · simp only [ha, if_true]
      cases xs' with
      | nil =>
        cases ys' with
        | nil => simp [interpSpec]
        | cons _ _ => simp at hl
      | cons x xs2 =>
        cases ys' with
        | nil => simp at hl
        | cons y ys2 =>
          have : t ≤ x0 := by grind
          simp [interpSpec, this]
    · simp only [ha, if_false]
      by_cases hb : (x0 :: xs').getLastD x0 < t
      · simp only [hb, if_true]
        exact (spec_after_last xs' ys' x0 y0 t (by simpa using hl) hs hb).symm
      · simp only [hb, if_false]
        exact fscan_eq_spec x0 y0 xs' ys' t (by simpa using hl) hs (by grind)

/-- with the other base point the emitted function is not the interpolant -/
theorem C02_finterp_wrong_base : finterp false [0, 2] [1, 5] 1 ≠ interpSpec [0, 2] [1, 5] 1 := by decide +kernel

/-- which sample the current source starts from, and whether its offset bookkeeping tests the key it inserts (regenerated) -/
theorem C02_tables : Tables.finterpBaseIsPrev = true ∧ Tables.idxOffsetKeyConsistent = true ∧ Tables.torchInterpIsLinear = true := by decide

/-- the Fortran function the current source emits is the interpolant -/
theorem C02_finterp_current (xs ys : List Rat) (t : Rat) (hl : xs.length = ys.length) (h1 : 1 ≤ xs.length) (hs : StrictSorted xs) :
    finterp Tables.finterpBaseIsPrev xs ys t = interpSpec xs ys t := by
  rw [C02_tables.1]; exact C02_finterp_eq_spec xs ys t hl h1 hs

/-! ## index offsets -/

theorem processIdx_shifted_mem (start : Int) (s : IdxState) (v : String) (h : start ≠ 0) :
    v ∈ (processIdx start true s v).shifted := by
  unfold processIdx
  by_cases hc : v ∈ s.shifted
  · simp [hc]
  · simp [hc, h]

/-- rendering an already shifted index variable again changes nothing -/
theorem C02_idx_idempotent (start : Int) (s : IdxState) (v : String) (hm : v ∈ s.shifted) : processIdx start true s v = s := by
  unfold processIdx
  simp [hm]

/-- an index variable is shifted exactly once, however often it is rendered -/
theorem C02_idx_once (start : Int) (s : IdxState) (v : String) (k : Nat) (h : start ≠ 0) :
    (List.replicate (k + 1) v).foldl (processIdx start true) s = processIdx start true s v := by
  induction k with
  | zero => rfl
  | succ k ih =>
    rw [List.replicate_succ', List.foldl_append, ih]
    simp only [List.foldl_cons, List.foldl_nil]
    exact C02_idx_idempotent start _ v (processIdx_shifted_mem start s v h)

/-- with an inconsistent key every rendering shifts again -/
example : ((List.replicate 2 "t").foldl (processIdx 1 false) ⟨[("t", 0)], []⟩).get "t" = 2
    ∧ ((List.replicate 2 "t").foldl (processIdx 1 true) ⟨[("t", 0)], []⟩).get "t" = 1 := by decide +kernel

example : interpSpec [0, 2, 4] [1, 4, 2] 1 = 5/2 ∧ finterp true [0, 2, 4] [1, 4, 2] 3 = 3 ∧ finterp true [0, 2, 4] [1, 4, 2] 9 = 2
    ∧ finterp true [0, 2, 4] [1, 4, 2] 4 = 2 ∧ finterp true [0, 2, 4] [1, 4, 2] 0 = 1 := by decide +kernel

end PyRates.Backends
