import PyRatesModel.Gamma.Chain
/-!
# C11 — distributed delays are unit-gain gamma kernels with the stated mean

Model: `PyRatesModel/Gamma/Chain.lean`.
* `C11_unit_gain`: for every order and every rate `a ≠ 0` the chain is at rest under a constant input exactly when every stage
  equals the input; its output then equals the input (steady-state gain 1).
* `C11_rest_invariant`: a chain at rest stays at rest under Euler steps of any size.
* `C11_ramp_delay`: a ramp `u(t) = c t` passes the chain as the same ramp delayed by `k/a` after `k` stages - by `n/a = d` at the output
  (`C11_mean_delay`): the kernel's mean delay is the edge's delay.
* `C11_order_*`: the order rules of the two code paths; a zero delay gets no chain, a spread of zero the `dde_approx` order.
* `C11_groups_*`: every delay slot lands in exactly the group of its own (order, rate): edges that differ in (d, s) get different kernels.
PARTIAL: that the compiled network *is* the explicitly written augmented system is tied differentially (harness/props/c11.py).
-/
namespace PyRates.Gamma
open PyRates.Solver

/-! ## steady state -/

theorem chainDeriv_length (a u : Rat) (zs : List Rat) : (chainDeriv a u zs).length = zs.length := by
  induction zs generalizing u with
  | nil => rfl
  | cons z zs ih => simp [chainDeriv, ih]

/-- unit steady-state gain: all stage derivatives vanish iff every stage equals the (constant) input -/
theorem C11_unit_gain (a u : Rat) (ha : a ≠ 0) (zs : List Rat) :
    (∀ x ∈ chainDeriv a u zs, x = 0) ↔ zs = List.replicate zs.length u := by
  induction zs generalizing u with
  | nil => simp [chainDeriv]
  | cons z zs ih =>
    simp only [chainDeriv, List.mem_cons, forall_eq_or_imp, List.length_cons, List.replicate_succ, List.cons.injEq]
    constructor
    · rintro ⟨h1, h2⟩
      have hz : z = u := by
        rcases Rat.mul_eq_zero.mp h1 with h | h
        · exact absurd h ha
        · grind
      subst hz
      exact ⟨rfl, (ih z).mp h2⟩
    · rintro ⟨h1, h2⟩
      subst h1
      refine ⟨by grind, (ih z).mpr h2⟩

theorem C11_unit_gain_output (a u : Rat) (ha : a ≠ 0) (zs : List Rat) (h : ∀ x ∈ chainDeriv a u zs, x = 0) :
    chainOut u zs = u := by
  have := (C11_unit_gain a u ha zs).mp h
  unfold chainOut
  rw [this, List.getLastD_eq_getLast?, List.getLast?_replicate]
  split <;> rfl

/-- a chain at rest stays at rest, whatever the step size -/
theorem C11_rest_invariant (a dt u : Rat) (n : Nat) : chainEuler a dt u (List.replicate n u) = List.replicate n u := by
  induction n with
  | zero => rfl
  | succ k ih =>
    simp only [chainEuler, List.replicate_succ, chainDeriv, List.zipWith_cons_cons, List.cons.injEq] at ih ⊢
    exact ⟨by grind, ih⟩

/-! ## mean delay: a ramp comes out as the same ramp, delayed -/

/-- stage `k` (1-based) of a chain with rate `a` driven by the ramp `c·t`: the ramp delayed by `k/a` -/
def rampStage (a c t : Rat) (k : Nat) : Rat := c * (t - (k : Rat) / a)

/-- the delayed ramps solve the stage equations: `d/dt z_k = c = a (z_{k-1} - z_k)` for every stage and every time -/
theorem C11_ramp_delay (a c t : Rat) (ha : a ≠ 0) (k : Nat) :
    a * (rampStage a c t k - rampStage a c t (k + 1)) = c := by
  unfold rampStage
  have h1 : (((k + 1 : Nat) : Rat)) = (k : Rat) + 1 := by simp
  rw [h1]
  have : (k : Rat) / a = (k : Rat) * a⁻¹ := Rat.div_def _ _
  have h2 : ((k : Rat) + 1) / a = ((k : Rat) + 1) * a⁻¹ := Rat.div_def _ _
  rw [this, h2]
  have hinv : a * a⁻¹ = 1 := Rat.mul_inv_cancel a ha
  grind

/-- with `a = n/d` the output stage lags the input ramp by exactly the edge's delay `d` -/
theorem C11_mean_delay (n : Nat) (d c t : Rat) (hn : n ≠ 0) (hd : d ≠ 0) :
    rampStage (rate n d) c t n = c * (t - d) := by
  unfold rampStage rate
  rw [if_neg hd]
  have hn' : (n : Rat) ≠ 0 := by exact_mod_cast hn
  have e : (n : Rat) / ((n : Rat) / d) = d := by
    rw [Rat.div_def, Rat.div_def, Rat.inv_mul_rev, Rat.inv_inv, ← Rat.mul_assoc, Rat.mul_comm (n : Rat) d, Rat.mul_assoc,
      Rat.mul_inv_cancel _ hn', Rat.mul_one]
  rw [e]

/-! ## order rules -/

theorem C11_order_zero_delay (s : Rat) (k : Nat) : orderScalar 0 s k = 0 := by simp [orderScalar]

theorem C11_order_no_spread (d : Rat) (k : Nat) (hd : d ≠ 0) : orderScalar d 0 k = k := by
  simp [orderScalar, hd]

theorem C11_order_matrix_pos (d s : Rat) (k : Nat) : 1 ≤ orderMatrix d s k := by
  unfold orderMatrix
  split
  · exact Nat.le_max_left _ _
  · split <;> omega

/-- for a positive delay and spread with `(d/s)² ≥ 1/2 + ddeApprox`-ish orders the two code paths agree whenever the spread-derived
order is at least 1 and exceeds `ddeApprox` -/
theorem C11_order_paths_agree (d s : Rat) (k : Nat) (hd : d ≠ 0) (hs : 0 < s)
    (h1 : 1 ≤ (pyRound ((d / s) * (d / s))).toNat) (hk : k < (pyRound ((d / s) * (d / s))).toNat) :
    orderScalar d s k = orderMatrix d s k := by
  simp only [orderScalar, orderMatrix, hd, hs, if_true, if_false]
  rw [if_pos hk]
  omega

/-! ## grouping of slots -/

theorem mem_insertSlot (key : Nat × Rat) (slot : Nat) (gs : List ((Nat × Rat) × List Nat)) :
    ∃ ss, (key, ss) ∈ insertSlot key slot gs ∧ slot ∈ ss := by
  induction gs with
  | nil => exact ⟨[slot], by simp [insertSlot], by simp⟩
  | cons g rest ih =>
    obtain ⟨k, ss⟩ := g
    simp only [insertSlot]
    split
    · rename_i h; subst h; exact ⟨ss ++ [slot], by simp, by simp⟩
    · obtain ⟨ss', h1, h2⟩ := ih
      exact ⟨ss', by simp [h1], h2⟩

theorem insertSlot_keeps (key k : Nat × Rat) (slot s : Nat) (gs : List ((Nat × Rat) × List Nat))
    (h : ∃ ss, (k, ss) ∈ gs ∧ s ∈ ss) : ∃ ss, (k, ss) ∈ insertSlot key slot gs ∧ s ∈ ss := by
  induction gs with
  | nil => obtain ⟨ss, h1, _⟩ := h; simp at h1
  | cons g rest ih =>
    obtain ⟨k', ss'⟩ := g
    obtain ⟨ss, h1, h2⟩ := h
    simp only [insertSlot]
    rcases List.mem_cons.mp h1 with he | hr
    · injection he with e1 e2
      subst e1; subst e2
      split
      · exact ⟨ss ++ [slot], by simp, by simp [h2]⟩
      · exact ⟨ss, by simp, h2⟩
    · obtain ⟨ss2, h3, h4⟩ := ih ⟨ss, hr, h2⟩
      split
      · exact ⟨ss, by simp [hr], h2⟩
      · exact ⟨ss2, by simp [h3], h4⟩

/-- every slot is in the group that carries its own (order, rate) -/
theorem C11_groups_cover (slots : List (Nat × (Nat × Rat))) (slot : Nat) (key : Nat × Rat) (h : (slot, key) ∈ slots) :
    ∃ ss, (key, ss) ∈ groupSlots slots ∧ slot ∈ ss := by
  induction slots with
  | nil => simp at h
  | cons x rest ih =>
    obtain ⟨s, k⟩ := x
    simp only [groupSlots]
    rcases List.mem_cons.mp h with he | hr
    · injection he with e1 e2
      subst e1; subst e2
      exact mem_insertSlot _ _ _
    · exact insertSlot_keeps _ _ _ _ _ (ih hr)

theorem insertSlot_keys (key : Nat × Rat) (slot : Nat) (gs : List ((Nat × Rat) × List Nat)) (hnd : (gs.map (·.1)).Nodup) :
    ((insertSlot key slot gs).map (·.1)).Nodup := by
  induction gs with
  | nil => simp [insertSlot]
  | cons g rest ih =>
    obtain ⟨k, ss⟩ := g
    simp only [insertSlot]
    split
    · simpa using hnd
    · rename_i hne
      simp only [List.map_cons, List.nodup_cons] at hnd ⊢
      refine ⟨?_, ih hnd.2⟩
      intro hmem
      -- k is a key of the updated rest: either it was one before, or it is the inserted key
      have : k ∈ rest.map (·.1) ∨ k = key := by
        clear ih hnd
        induction rest with
        | nil => simp [insertSlot] at hmem; exact Or.inr hmem
        | cons g2 r2 ih2 =>
          obtain ⟨k2, s2⟩ := g2
          simp only [insertSlot] at hmem
          split at hmem
          · simp at hmem ⊢; rcases hmem with h | h
            · exact Or.inl (Or.inl h)
            · exact Or.inl (Or.inr h)
          · simp at hmem ⊢; rcases hmem with h | h
            · exact Or.inl (Or.inl h)
            · rcases ih2 (by simpa using h) with h3 | h3
              · exact Or.inl (Or.inr (by simpa using h3))
              · exact Or.inr h3
      rcases this with h | h
      · exact hnd.1 h
      · exact hne h

/-- groups have pairwise different (order, rate): two slots share a chain only if their orders and rates coincide -/
theorem C11_groups_distinct_keys (slots : List (Nat × (Nat × Rat))) : ((groupSlots slots).map (·.1)).Nodup := by
  induction slots with
  | nil => simp [groupSlots]
  | cons x rest ih =>
    obtain ⟨s, k⟩ := x
    exact insertSlot_keys _ _ _ ih

/-! ## non-vacuity -/
example : orderScalar (1/2) (3/16) 0 = 7 ∧ rate 7 (1/2) = 14 := by decide +kernel
example : chainDeriv 2 5 [5, 5, 5] = [0, 0, 0] ∧ chainOut 5 [5, 5, 5] = 5 := by decide +kernel
example : groupSlots [(0, (2, 4)), (1, (3, 6)), (2, (2, 4))] = [((2, 4), [2, 0]), ((3, 6), [1])] := by decide +kernel

/-! ### how one delay slot is realised (`_add_edge_buffer`, chain branch): chain, ring buffer, history access or pass-through -/

theorem C11_slot_through_iff (adaptive : Bool) (dt d s : Rat) (k : Nat) :
    slotKind adaptive dt d s k = .through ↔
      orderScalar d s k = 0 ∧ (d = 0 ∨ (adaptive = false ∧ (pyRound (d / dt)).toNat ≤ 1)) := by
  unfold slotKind
  by_cases hn : 0 < orderScalar d s k
  · simp [hn]; omega
  · have h0 : orderScalar d s k = 0 := by omega
    by_cases hd : d = 0
    · simp [hd]
    · cases adaptive
      · by_cases hk : 1 < (pyRound (d / dt)).toNat
        · simp [h0, hd, hk]; omega
        · simp [h0, hd, hk]; omega
      · simp [h0, hd]

/-- no delay that the scheme can represent is dropped: a slot with a non-zero delay is delivered undelayed only under a fixed-step solver
and only if the delay rounds to at most one step (which PyRates neglects by design) -/
theorem C11_slot_not_dropped (adaptive : Bool) (dt d s : Rat) (k : Nat) (hd : d ≠ 0)
    (h : adaptive = true ∨ 2 ≤ (pyRound (d / dt)).toNat) : slotKind adaptive dt d s k ≠ .through := by
  intro ht
  rw [C11_slot_through_iff] at ht
  rcases ht with ⟨_, h1 | ⟨ha, hk⟩⟩
  · exact hd h1
  · rcases h with h | h
    · simp [ha] at h
    · omega

theorem C11_slot_ring_steps (adaptive : Bool) (dt d s : Rat) (k m : Nat) (h : slotKind adaptive dt d s k = .ring m) :
    m = (pyRound (d / dt)).toNat ∧ 2 ≤ m ∧ orderScalar d s k = 0 ∧ adaptive = false := by
  unfold slotKind at h
  by_cases hn : 0 < orderScalar d s k
  · simp [hn] at h
  · have h0 : orderScalar d s k = 0 := by omega
    simp only [hn, if_false] at h
    by_cases hd : d = 0
    · simp only [hd, if_true] at h; exact absurd h (by simp)
    · cases adaptive
      · by_cases hk : 1 < (pyRound (d / dt)).toNat
        · simp [hd, hk] at h; subst h; exact ⟨rfl, by omega, h0, rfl⟩
        · simp [hd, hk] at h
      · simp [hd] at h

theorem C11_slot_chain (adaptive : Bool) (dt d s : Rat) (k n : Nat) (a : Rat) (h : slotKind adaptive dt d s k = .chain n a) :
    n = orderScalar d s k ∧ 0 < n ∧ a = rate n d := by
  unfold slotKind at h
  by_cases hn : 0 < orderScalar d s k
  · simp [hn] at h; obtain ⟨h1, h2⟩ := h; subst h1; exact ⟨rfl, hn, h2.symm⟩
  · simp only [hn, if_false] at h
    by_cases hd : d = 0
    · simp only [hd, if_true] at h; exact absurd h (by simp)
    · cases adaptive
      · by_cases hk : 1 < (pyRound (d / dt)).toNat
        · simp [hd, hk] at h
        · simp [hd, hk] at h
      · simp [hd] at h

/-- the defect that was repaired: a pure delay of `d = 5 dt` next to distributed delays was passed through -/
theorem C11_slot_old_dropped : slotKindOld (5/100) 0 0 = .through ∧ slotKind false (1/100) (5/100) 0 0 = .ring 5 := by
  decide +kernel

example : slotKind false (1/8) (1/2) (1/4) 0 = .chain 4 8 := by decide +kernel
example : slotKind true (1/8) (1/2) 0 0 = .history (1/2) := by decide +kernel
example : slotKind false (1/8) (1/8) 0 0 = .through := by decide +kernel
example : slotKind false (1/8) (1/2) 0 3 = .chain 3 6 := by decide +kernel


end PyRates.Gamma
