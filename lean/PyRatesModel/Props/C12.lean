import Mathlib.Analysis.SpecialFunctions.ExpDeriv
import PyRatesModel.Analysis.DiffSound
import PyRatesModel.Net.Jac
/-!
# C12 — get_jacobian_func returns the derivative of get_run_func

* `C12_diff_sound` (Analysis/DiffSound.lean, Mathlib): the formal derivative used by the model is the derivative, for every expression,
  environment and variable (named unary functions under the hypothesis that `f'` is the derivative of `f`).
* the model's Jacobian table (`Net.jacobian`) is keyed by (row path, column path) - the same addressing as the state layout of C01 -
  so "in the same state ordering" is a statement about the layout only.
* `C12_subst_eval`, `C12_sumExprs_eval`: inlining algebraic intermediates and summing the sources of an input variable is composition -
  the closed right-hand side that is differentiated denotes the vector field of the specification.
* polynomial corollary: without named functions the hypothesis on `f'` is vacuous.
-/
namespace PyRates.Net

/-- expressions without named functions -/
def Polynomial : Expr → Prop
  | .num _ | .var _ => True
  | .add a b | .sub a b | .mul a b => Polynomial a ∧ Polynomial b
  | .neg a | .pow a _ => Polynomial a
  | .call1 _ _ | .call2 _ _ _ => False

theorem Polynomial.unary {e : Expr} (h : Polynomial e) : Unary e := by
  induction e with
  | num q => trivial
  | var y => trivial
  | add a b iha ihb | sub a b iha ihb | mul a b iha ihb => exact ⟨iha h.1, ihb h.2⟩
  | neg a ih | pow a k ih => exact ih h
  | call1 f a ih => exact absurd h (by simp [Polynomial])
  | call2 f a b _ _ => exact absurd h (by simp [Polynomial])

/-- value of a polynomial expression does not depend on the interpretation of named functions -/
theorem evalR_poly (I J : String → ℝ → ℝ) (ρ : String → ℝ) (e : Expr) (h : Polynomial e) : evalR I ρ e = evalR J ρ e := by
  induction e with
  | num q => rfl
  | var y => rfl
  | add a b iha ihb | sub a b iha ihb | mul a b iha ihb => simp only [evalR]; rw [iha h.1, ihb h.2]
  | neg a ih | pow a k ih => simp only [evalR]; rw [ih h]
  | call1 f a ih => exact absurd h (by simp [Polynomial])
  | call2 f a b _ _ => exact absurd h (by simp [Polynomial])

theorem D_poly (x : String) (e : Expr) (h : Polynomial e) : Polynomial (D x e) := by
  induction e with
  | num q => trivial
  | var y => simp only [D]; split <;> trivial
  | add a b iha ihb | sub a b iha ihb => exact ⟨iha h.1, ihb h.2⟩
  | mul a b iha ihb => exact ⟨⟨iha h.1, h.2⟩, ⟨h.1, ihb h.2⟩⟩
  | neg a ih => exact ih h
  | pow a k ih => simp only [D]; split; trivial; exact ⟨⟨trivial, h⟩, ih h⟩
  | call1 f a ih => exact absurd h (by simp [Polynomial])
  | call2 f a b _ _ => exact absurd h (by simp [Polynomial])

/-- **Polynomial models: unconditional.**  For expressions built from numbers, variables, `+ - *`, unary minus and integer powers the formal
derivative is the derivative, for every environment and every variable - no hypothesis at all. -/
theorem C12_diff_sound_polynomial (ρ : String → ℝ) (x : String) (e : Expr) (h : Polynomial e) :
    HasDerivAt (fun v => evalR (fun _ _ => 0) (Function.update ρ x v) e) (evalR (fun _ _ => 0) ρ (D x e)) (ρ x) := by
  -- instantiate the general theorem with the exponential for every name: exp' = exp, so the hypothesis holds
  have key := C12_diff_sound (fun _ => Real.exp) (fun _ a => Real.hasDerivAt_exp a) ρ x e h.unary
  have e1 : (fun v => evalR (fun _ _ => 0) (Function.update ρ x v) e) = (fun v => evalR (fun _ => Real.exp) (Function.update ρ x v) e) := by
    funext v; exact evalR_poly _ _ _ e h
  rw [e1, evalR_poly (fun _ _ => 0) (fun _ => Real.exp) ρ (D x e) (D_poly x e h)]
  exact key

/-! ## inlining of algebraic intermediates -/

/-- inlining is composition: the value of an expression whose variables were replaced by closed expressions is the value of the
expression in the environment that binds every variable to the value of its closed expression -/
theorem C12_subst_eval (I : Interp) (ρ : String → Rat) (σ : String → Expr) (e : Expr) :
    eval I ρ (substAll σ e) = eval I (fun x => eval I ρ (σ x)) e := by
  induction e with
  | num q => rfl
  | var x => rfl
  | add a b iha ihb | sub a b iha ihb | mul a b iha ihb => simp only [substAll, eval, iha, ihb]
  | neg a ih => simp only [substAll, eval, ih]
  | pow a k ih => simp only [substAll, eval, ih]
  | call1 f a ih => simp only [substAll, eval, ih]
  | call2 f a b iha ihb => simp only [substAll, eval, iha, ihb]

/-- the closed expression of an input variable is the sum of the closed expressions of its sources -/
theorem C12_sumExprs_eval (I : Interp) (ρ : String → Rat) (es : List Expr) :
    eval I ρ (sumExprs es) = (es.map (eval I ρ)).sum := by
  induction es with
  | nil => rfl
  | cons e rest ih =>
    cases rest with
    | nil => simp [sumExprs, Rat.add_zero]
    | cons e2 r2 =>
      simp only [sumExprs, eval, List.map_cons, List.sum_cons] at ih ⊢
      rw [ih]

end PyRates.Net
