import PyRatesModel.Lemmas.Solver
import PyRatesModel.Generated.Tables
/-!
# C03 — run() returns the numerical solution of the compiled system (fixed-step part)

Model: `PyRatesModel/Solver/Fixed.lean`.  The adaptive half of the statement (scipy/diffrax approximate the true solution)
is numerical analysis of third-party integrators and is *not* covered by these theorems (see DESIGN.md, C03 "P").
-/
namespace PyRates.Tables
open PyRates.Solver in
/-- the time-axis form found in the current source -/
def timeAxisKind : AxisKind := if timeAxisIsArange then .arangeStep else .linspaceOpen
end PyRates.Tables

namespace PyRates.Solver

/-- **Rows of the storage loop.**  With `steps = m·s`, `m` rows allocated and sampling every `s > 0` steps, the loop
terminates without error, writes every row (no garbage memory is returned), and row `k` is the state after `k·s` steps;
in particular row 0 is the initial state. -/
theorem C03_solve_rows (g : Bool) (step : Nat → Vec → Vec) (m s : Nat) (hs : 0 < s) (y0 : Vec) :
    solve g step (m * s) m s y0 = .ok ((List.range m).map (fun k => some (iter step 0 (k * s) y0))) := by
  unfold solve
  rw [loop_spec g step s m hs (m * s) 0 y0 0 (List.replicate m none) (by omega) (by simp) (by omega) (by omega)]
  simp

/-- `_solve_euler` rows are the Euler iterates, the j-th step called with `t = t0 + j`. -/
theorem C03_euler_rows (g : Bool) (f : Field) (dt : Rat) (t0 m s : Nat) (hs : 0 < s) (y0 : Vec) :
    solve g (eulerStepCode f dt t0) (m * s) m s y0
      = .ok ((List.range m).map (fun k => some (iter (eulerStepCode f dt t0) 0 (k * s) y0))) :=
  C03_solve_rows g _ m s hs y0

/-- The coded Heun step is the textbook Heun step whenever the solver copies the returned right-hand side
or the vector field returns a fresh array. -/
theorem C03_heunStepCode_eq (f : Field) (inPlace copyRhs : Bool) (h : copyRhs = true ∨ inPlace = false)
    (dt : Rat) (t0 i : Nat) (y : Vec) : heunStepCode f inPlace copyRhs dt t0 i y = heunStep f dt t0 i y := by
  rcases h with h | h <;> simp [heunStepCode, heunStep, h]

/-- `_solve_heun` as it is in the current source (`Tables.heunCopiesRhs` is regenerated from `_solve_heun`'s text) returns the
Heun iterates for both vector-field conventions. -/
theorem C03_heun_rows (g : Bool) (f : Field) (inPlace : Bool) (dt : Rat) (t0 m s : Nat) (hs : 0 < s) (y0 : Vec) :
    solve g (heunStepCode f inPlace Tables.heunCopiesRhs dt t0) (m * s) m s y0
      = .ok ((List.range m).map (fun k => some (iter (heunStep f dt t0) 0 (k * s) y0))) := by
  have : heunStepCode f inPlace Tables.heunCopiesRhs dt t0 = heunStep f dt t0 := by
    funext i y; exact C03_heunStepCode_eq f inPlace _ (Or.inl (by decide)) dt t0 i y
  rw [this]; exact C03_solve_rows g _ m s hs y0

/-- **The jax scheme** (`lax.scan` over `store_steps` blocks of `store_step` steps) returns the same rows for *every*
`store_steps`/`store_step` — there is no relation between `T` and the step sizes it depends on. -/
theorem C03_scan_rows (step : Nat → Vec → Vec) (m s : Nat) (y0 : Vec) :
    scanSolve step m s y0 = (List.range m).map (fun k => iter step 0 (k * s) y0) := by
  have := scanOuter_spec step s y0 m 0
  simpa [scanSolve, iter] using this

/-- hence both schemes agree whenever the numpy scheme's guard holds -/
theorem C03_scan_eq_loop (g : Bool) (step : Nat → Vec → Vec) (m s : Nat) (hs : 0 < s) (y0 : Vec) :
    solve g step (m * s) m s y0 = .ok ((scanSolve step m s y0).map some) := by
  rw [C03_solve_rows g step m s hs, C03_scan_rows]; simp

/-- Witness for why the copy matters: with an in-place vector field and no copy the coded step is *not* Heun's
(`x' = -x/2`, `dt = 1`, `x = 1`: 3/4 instead of 5/8). -/
theorem C03_heun_alias_counterexample :
    let f : Field := fun _ y => y.map (fun x => -x / 2)
    heunStepCode f true false 1 0 0 [1] = [3/4] ∧ heunStep f 1 0 0 [1] = [5/8] := by decide +kernel

/-- The time axis as the current source builds it (`Tables.timeAxisKind`): the index holds the times `k·dts`
for `k < round(T/dts)`, for **every** `T` (multiple of the sampling step or not). -/
theorem C03_time_index (T dts : Rat) :
    timeAxis Tables.timeAxisKind T dts
      = (List.range (pyRound (T / dts)).toNat).map (fun (k : Nat) => (k : Rat) * dts) := by
  rfl

/-- The `linspace(0, T, n, endpoint=False)` form agrees with `k·dts` when `T = m·dts` … -/
theorem C03_time_index_linspace (m : Nat) (dts : Rat) (hd : dts ≠ 0) :
    timeAxis .linspaceOpen ((m : Rat) * dts) dts = (List.range m).map (fun (k : Nat) => (k : Rat) * dts) := by
  unfold timeAxis
  have h1 : (m : Rat) * dts / dts = (m : Rat) := by grind
  rw [h1, pyRound_nat]
  show linspaceOpen _ _ = _
  unfold linspaceOpen
  apply List.map_congr_left
  intro k hk
  have hm : (m : Rat) ≠ 0 := by
    have : k < m := by simpa using hk
    have : (0 : Rat) < (m : Rat) := by exact_mod_cast (by omega : 0 < m)
    grind
  grind

/-- … and does not otherwise (witness `T = 9/2`, `dts = 1`: 0, 9/8, 9/4, 27/8 label the states at times 0, 1, 2, 3). -/
theorem C03_time_index_linspace_counterexample :
    timeAxis .linspaceOpen (9/2) 1 = [0, 9/8, 9/4, 27/8] ∧ timeAxis .arangeStep (9/2) 1 = [0, 1, 2, 3] := by
  decide +kernel

/-- **End-to-end shape of a fixed-step run.**  For sampling an integer multiple `s ≥ 1` of the step and `T` a multiple `m`
of the sampling step, the result is exactly the list of `(k·dts, state after k·s steps)` for `k < m`, with the rows whose
time is below the cutoff dropped and the order kept. -/
theorem C03_run_spec (g : Bool) (step : Rat → Nat → Vec → Vec) (dt cutoff : Rat) (m s : Nat) (hs : 0 < s) (hdt : dt ≠ 0) (y0 : Vec) :
    runFixed g Tables.timeAxisKind step { T := (m : Rat) * ((s : Rat) * dt), dt := dt, dts := (s : Rat) * dt, cutoff := cutoff } y0
      = .ok (((List.range m).map (fun (k : Nat) => ((k : Rat) * ((s : Rat) * dt), some (iter (step dt) 0 (k * s) y0)))).filter
              (fun r => cutoff ≤ r.1)) := by
  have hsq : (s : Rat) ≠ 0 := by
    have : (0 : Rat) < (s : Rat) := by exact_mod_cast hs
    grind
  have hdts : (s : Rat) * dt ≠ 0 := by grind
  have e1 : (m : Rat) * ((s : Rat) * dt) / dt = ((m * s : Nat) : Rat) := by
    rw [Rat.natCast_mul]; grind
  have e2 : (m : Rat) * ((s : Rat) * dt) / ((s : Rat) * dt) = (m : Rat) := by grind
  have e3 : (s : Rat) * dt / dt = (s : Rat) := by grind
  unfold runFixed
  simp only [hdt, hdts, or_self, if_false, e1, e2, e3, pyRound_nat]
  rw [C03_solve_rows g _ m s hs y0, C03_time_index, e2, pyRound_nat]
  show (if _ then _ else _) = _
  simp only [List.length_map, List.length_range, ne_eq, not_true_eq_false, if_false]
  rw [List.zip_map']
  rfl

/-- **Rows of the guarded storage loop for every `steps`, `store_steps`, `store_step > 0`** (no relation between `T` and the step sizes
is assumed): the loop never raises, row `k` is the state after `k·s` steps whenever the integration reaches that instant and is
never-written memory otherwise. -/
theorem C03_guarded_rows (step : Nat → Vec → Vec) (steps m s : Nat) (hs : 0 < s) (y0 : Vec) :
    solve true step steps m s y0
      = .ok ((List.range m).map (fun k => if k * s < steps then some (iter step 0 (k * s) y0) else none)) := by
  unfold solve
  rw [loop_guarded_spec step s m steps hs steps 0 y0 0 (List.replicate m none) (by omega) (by simp) (by omega) (by omega) (by omega) (by simp)]
  simp [rowAt]

/-- in particular no garbage row is returned as soon as the last allocated row is due before the end: `(m-1)·s < steps` -/
theorem C03_guarded_no_garbage (step : Nat → Vec → Vec) (steps m s : Nat) (hs : 0 < s) (y0 : Vec) (h : ∀ k, k < m → k * s < steps) :
    solve true step steps m s y0 = .ok ((List.range m).map (fun k => some (iter step 0 (k * s) y0))) := by
  rw [C03_guarded_rows step steps m s hs y0]
  congr 1
  apply List.map_congr_left
  intro k hk
  have := h k (by simpa using hk)
  simp [this]

/-- the storage condition found in the current source is the guarded one -/
theorem C03_store_guarded : Tables.storeGuarded = true := by decide

/-- hence `_solve_euler`/`_solve_heun` as they are in the current source never raise on the record and return, for **every** `T`, step
and sampling step, the states at the sampling instants they reach (`round(T/dts)` rows, the number its time index has) -/
theorem C03_current_rows (step : Nat → Vec → Vec) (steps m s : Nat) (hs : 0 < s) (y0 : Vec) :
    solve Tables.storeGuarded step steps m s y0
      = .ok ((List.range m).map (fun k => if k * s < steps then some (iter step 0 (k * s) y0) else none)) := by
  rw [C03_store_guarded]; exact C03_guarded_rows step steps m s hs y0

/-- Outside the hypothesis `T = m·dts` the two forms of the storage condition differ.  Without the guard the loop fails loudly rather than
returning garbage: `T = 5, dt = 1, dts = 2` stores three rows into a buffer of `round(5/2) = 2` (half-even) rows — an IndexError.  With the guard
(the form found in the current source, `Tables.storeGuarded`) the run returns exactly the `round(T/dts)` rows that its time index announces. -/
theorem C03_nonmultiple_T_unguarded_raises :
    runFixed false Tables.timeAxisKind (fun _ _ y => y) { T := 5, dt := 1, dts := 2, cutoff := 0 } [1] = .error .indexError := by
  decide +kernel

theorem C03_nonmultiple_T_rows :
    runFixed Tables.storeGuarded Tables.timeAxisKind (fun dt => eulerStepCode (fun _ y => y) dt 0) { T := 5, dt := 1, dts := 2, cutoff := 0 } [1]
      = .ok [(0, some [1]), (2, some [4])] := by
  decide +kernel

/-- Non-vacuity: a concrete run (`x' = -x/2 + t`, Euler, `dt = 1/2`, `dts = 1`, `T = 3`, `cutoff = 1`). -/
example :
    runFixed Tables.storeGuarded Tables.timeAxisKind (fun dt => eulerStepCode (fun t y => y.map (fun x => -x/2 + (t : Rat))) dt 0)
      { T := 3, dt := 1/2, dts := 1, cutoff := 1 } [1]
    = .ok [(1, some [17/16]), (2, some [729/256])] := by decide +kernel

end PyRates.Solver
