import PyRatesModel.Generated.Tables
/-!
# C13 — results do not depend on what the process did before

Generic model of the module-level caches (`OperatorTemplate.cache`, `template_cache`, `_compiled_module_cache`, `_sympify_cache`):
`lookupOrCompute` returns the cached value for the request's key or computes and stores it.  A cache is *transparent* when, after any
history of requests, every request gets exactly what a fresh process would compute for it.
-/
namespace PyRates.Caches

variable {Req K V : Type} [DecidableEq K]

/-- the cache as an association list -/
abbrev Cache (K V : Type) := List (K × V)

def find (c : Cache K V) (k : K) : Option V := (List.find? (fun kv => decide (kv.1 = k)) c).map (·.2)

/-- one cached call -/
def lookupOrCompute (key : Req → K) (compute : Req → V) (c : Cache K V) (r : Req) : Cache K V × V :=
  match find c (key r) with
  | some v => (c, v)
  | none => (c ++ [(key r, compute r)], compute r)

/-- run a history of requests, returning the final cache and the result of the last request -/
def runHistory (key : Req → K) (compute : Req → V) : Cache K V → List Req → Cache K V
  | c, [] => c
  | c, r :: rest => runHistory key compute (lookupOrCompute key compute c r).1 rest

/-- every entry of the cache is the value computed for some request with that key -/
def Sound (key : Req → K) (compute : Req → V) (c : Cache K V) : Prop :=
  ∀ kv ∈ c, ∃ r, key r = kv.1 ∧ compute r = kv.2

theorem find_mem (c : Cache K V) (k : K) (v : V) (h : find c k = some v) : (k, v) ∈ c := by
  unfold find at h
  cases hf : List.find? (fun kv => decide (kv.1 = k)) c with
  | none => simp [hf] at h
  | some kv =>
    simp only [hf, Option.map_some, Option.some.injEq] at h
    have hm := List.mem_of_find?_eq_some hf
    have hk := List.find?_some hf
    simp only [decide_eq_true_eq] at hk
    subst h; subst hk; exact hm

theorem sound_step (key : Req → K) (compute : Req → V) (c : Cache K V) (r : Req) (hs : Sound key compute c) :
    Sound key compute (lookupOrCompute key compute c r).1 := by
  unfold lookupOrCompute
  cases hf : find c (key r) with
  | some v => simpa using hs
  | none =>
    intro kv hkv
    simp only [List.mem_append, List.mem_singleton] at hkv
    rcases hkv with h | h
    · exact hs kv h
    · exact ⟨r, by simp [h], by simp [h]⟩

theorem sound_history (key : Req → K) (compute : Req → V) (c : Cache K V) (h : List Req) (hs : Sound key compute c) :
    Sound key compute (runHistory key compute c h) := by
  induction h generalizing c with
  | nil => exact hs
  | cons r rest ih => exact ih _ (sound_step key compute c r hs)

/-- **Transparency.**  If the key determines the computed value, then after *any* history of requests every request is answered with
exactly the value a fresh process would compute. -/
theorem C13_cache_transparent (key : Req → K) (compute : Req → V)
    (hdet : ∀ r₁ r₂, key r₁ = key r₂ → compute r₁ = compute r₂) (h : List Req) (r : Req) :
    (lookupOrCompute key compute (runHistory key compute [] h) r).2 = compute r := by
  have hs : Sound key compute (runHistory key compute [] h) := sound_history key compute [] h (by intro kv hkv; cases hkv)
  unfold lookupOrCompute
  cases hf : find (runHistory key compute [] h) (key r) with
  | none => rfl
  | some v =>
    obtain ⟨r', hk, hv⟩ := hs _ (find_mem _ _ _ hf)
    simp only at hk hv
    rw [← hv]; exact hdet r' r hk

/-- an operator definition as the cache sees it -/
structure OpDef where
  name : String
  equations : List String
  variables : List (String × String)
deriving DecidableEq, Repr

/-- the operator cache of the current source: keyed by the whole definition, hence transparent for every history -/
theorem C13_operator_cache_transparent (h : List OpDef) (r : OpDef) :
    (lookupOrCompute (fun d : OpDef => d) (fun d : OpDef => d) (runHistory (fun d : OpDef => d) (fun d => d) [] h) r).2 = r :=
  C13_cache_transparent (fun d : OpDef => d) (fun d => d) (fun _ _ h => h) h r

/-- the key of `OperatorTemplate.cache` in the current source mentions the name, the equations and the variable definitions, and
`CircuitTemplate.apply` resets the per-circuit IR caches first (both read from the source by the table extractor) -/
theorem C13_source_cache_discipline :
    Tables.opCacheKeyIncludesDefinition = true ∧ Tables.irCachesResetAtApply = true := by decide

/-- Witness (pre-fix code): keyed by the name only, a second operator called `op` receives the first one's equations. -/
theorem C13_name_keyed_counterexample :
    let a : OpDef := ⟨"op", ["x' = -x"], []⟩
    let b : OpDef := ⟨"op", ["x' = -2*x"], []⟩
    (lookupOrCompute (fun d : OpDef => d.name) (fun d => d) (runHistory (fun d : OpDef => d.name) (fun d => d) [] [a]) b).2 = a := by
  decide +kernel

/-- counters that are reset at the start of a compilation produce labels that depend on that compilation's requests only -/
def labelsFrom (start : Nat) (n : Nat) : List String := (List.range n).map (fun i => s!"in_edge_{start + i}")

theorem C13_counter_reset (earlier n : Nat) : labelsFrom 0 n = labelsFrom (earlier - earlier) n := by simp

end PyRates.Caches
