import PyRatesModel.Pop.Matrix
/-!
# C16 — Population/Connectivity equals the explicit node-and-edge network

* `C16_matvec_explicit`: for every weight matrix (any shape, zeros anywhere, signed entries) and every source vector, each target
  unit receives under `W @ x` exactly what it receives in the network with one scalar edge per non-zero entry of its row.
* `C16_wsum_explicit`: the same with a coupling function evaluated per (target, source) pair.
* `C16_global_explicit`: a scalar weight `w` delivers `w·Σ_j x_j` to every target = the all-to-all network with weight `w`.
PARTIAL: per-unit parameters, the compilation of populations and the delay options are tied differentially (harness/props/c16.py)
against the Lean trajectory of the explicitly written network.
-/
namespace PyRates.Pop

/-- summing over the non-zero entries only (the explicit edges) is the full weighted sum of the row -/
theorem C16_row (h : Rat → Rat) (row : List Rat) (x : Vec) :
    received h row x = (List.zipWith (fun w xj => w * h xj) row x).sum := by
  unfold received explicitEdges
  induction row generalizing x with
  | nil => simp
  | cons w r ih =>
    cases x with
    | nil => simp
    | cons a q =>
      simp only [List.zip_cons_cons, List.zipWith_cons_cons, List.sum_cons]
      by_cases hw : w = 0
      · subst hw
        simp only [List.filter_cons, ne_eq, not_true_eq_false, decide_false, Bool.false_eq_true, if_false]
        rw [ih q]; simp only [Rat.zero_mul, Rat.zero_add]
      · simp only [List.filter_cons, ne_eq, hw, not_false_eq_true, decide_true, if_true, List.map_cons, List.sum_cons]
        rw [ih q]

/-- **A weight matrix means the explicit network**: `(W @ x)[i]` is what target `i` receives over the scalar edges of the non-zero
entries of row `i`, for every matrix and every source vector. -/
theorem C16_matvec_explicit (W : Mat) (x : Vec) : matvec W x = W.map (fun row => received (fun v => v) row x) := by
  unfold matvec dot
  apply List.map_congr_left
  intro row _
  rw [C16_row]

/-- the same with a coupling function evaluated per (target, source) pair; `y` holds the post-synaptic values of the targets -/
theorem C16_wsum_explicit (g : Rat → Rat → Rat) (W : Mat) (x y : Vec) :
    wsum g W x y = List.zipWith (fun row yi => received (fun v => g v yi) row x) W y := by
  unfold wsum
  congr 1
  funext row yi
  rw [C16_row]

/-- a scalar weight: every one of the `n` targets receives `w·Σ_j x_j`, which is what it receives in the all-to-all network with
weight `w` -/
theorem C16_global_explicit (w : Rat) (x : Vec) (n : Nat) : globalCoupling w x n = List.replicate n (receivedGlobal w x) := by
  unfold globalCoupling receivedGlobal
  congr 1
  induction x with
  | nil => simp
  | cons a r ih => simp [List.sum_cons, Rat.mul_add, ih]

/-- zero entries create no edge -/
theorem C16_no_edge_for_zero (row : List Rat) (x : Vec) : ∀ p ∈ explicitEdges row x, p.1 ≠ 0 := by
  intro p hp
  unfold explicitEdges at hp
  have := (List.mem_filter.mp hp).2
  simpa using this

/-- every non-zero entry creates its edge (with the source unit of its column) -/
theorem C16_edge_for_nonzero (row : List Rat) (x : Vec) (p : Rat × Rat) (hp : p ∈ row.zip x) (hnz : p.1 ≠ 0) :
    p ∈ explicitEdges row x := by
  unfold explicitEdges
  exact List.mem_filter.mpr ⟨hp, by simpa using hnz⟩

example : matvec [[0, 2, -1], [1, 0, 0]] [3, 5, 7] = [3, 3] ∧ explicitEdges [0, 2, -1] [3, 5, 7] = [(2, 5), (-1, 7)]
    ∧ received (fun v => v) [0, 2, -1] [3, 5, 7] = 3 := by decide +kernel

end PyRates.Pop
