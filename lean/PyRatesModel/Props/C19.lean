import PyRatesModel.Lemmas.Hist
import PyRatesModel.Generated.Tables
/-!
# C19 — DDEHistory returns the piecewise-linear interpolant of what it was given

Property theorems only.  Model: `PyRatesModel/Hist/DDEHistory.lean`.
All statements hold for histories of any length, any capacity and any growth factor ≥ 2.
-/
namespace PyRates.Hist

theorem C19_init_wf (y0 : Vec) (t0 : Rat) (m : Option Nat) (c : Nat) :
    (Hist.init y0 t0 m c).WF := by
  cases m <;> simp [Hist.init, Hist.WF] <;> (try omega) <;> (intro i hi; have : i = 0 := by omega
                                                             subst this; simp)

theorem C19_init_abs (y0 : Vec) (t0 : Rat) (m : Option Nat) (c : Nat) :
    (Hist.init y0 t0 m c).abs = [(t0, some y0)] := by
  cases m <;> simp [Hist.init, Hist.abs]

/-- `_grow` keeps every record (records survive buffer growth). -/
theorem C19_grow_abs (h : Hist) (gf : Nat) (hle : h.n ≤ h.rows.length) : (h.grow gf).abs = h.abs := by
  simp only [Hist.grow, Hist.abs]
  rw [List.take_append_of_le_length (by simp [List.length_take]; omega), List.take_take]
  simp

private theorem set_take_succ {α} (l : List α) (n : Nat) (x : α) (hn : n < l.length) :
    (l.set n x).take (n+1) = l.take n ++ [x] := by
  induction l generalizing n with
  | nil => simp at hn
  | cons a rest ih =>
    cases n with
    | zero => simp
    | succ k => simp at hn; simp [ih k hn]

theorem writeRow_abs_wf (h : Hist) (t : Rat) (y : Vec) (hw : h.WF) (hcap : h.n < h.rows.length) :
    (h.writeRow t y).abs = h.abs ++ [(t, some y)] ∧ (h.writeRow t y).WF := by
  obtain ⟨hlen, h1, hle, hrows⟩ := hw
  refine ⟨?_, ?_⟩
  · simp only [Hist.abs, Hist.writeRow]
    rw [set_take_succ _ _ _ hcap, List.zip_append (by simp [hlen, hle])]
    simp
  · refine ⟨by simp [Hist.writeRow, hlen], by simp [Hist.writeRow], by simp [Hist.writeRow]; omega, ?_⟩
    intro i hi
    simp only [Hist.writeRow] at hi ⊢
    by_cases hin : i = h.n
    · subst hin; exact ⟨y, by simp [hcap]⟩
    · obtain ⟨v, hv⟩ := hrows i (by omega)
      exact ⟨v, by rw [List.getElem?_set_ne (by omega)]; exact hv⟩

theorem grow_wf (h : Hist) (gf : Nat) (hw : h.WF) (hg : 2 ≤ gf) :
    (h.grow gf).WF ∧ (h.grow gf).n < (h.grow gf).rows.length := by
  obtain ⟨hlen, h1, hle, hrows⟩ := hw
  have hmul : h.rows.length * 2 ≤ h.rows.length * gf := Nat.mul_le_mul_left _ hg
  have hl : (h.grow gf).rows.length = h.rows.length * gf := by
    simp [Hist.grow, List.length_take]; omega
  refine ⟨⟨hlen, h1, ?_, ?_⟩, ?_⟩
  · show h.n ≤ _; rw [hl]; omega
  · intro i hi
    have hi' : i < h.n := hi
    obtain ⟨v, hv⟩ := hrows i hi'
    refine ⟨v, ?_⟩
    show (h.rows.take h.n ++ _)[i]? = _
    rw [List.getElem?_append_left (by simp; omega)]
    simp [List.getElem?_take, hi', hv]
  · show h.n < _; rw [hl]; omega

/-- A successful `update` appends exactly the record `(t, y)`; nothing recorded before changes. -/
theorem C19_update_abs (h h' : Hist) (t : Rat) (y : Vec) (gf : Nat) (hg : 2 ≤ gf) (hw : h.WF)
    (hu : h.update t y gf = .ok h') : h'.abs = h.abs ++ [(t, some y)] ∧ h'.WF := by
  unfold Hist.update at hu
  split at hu
  · split at hu
    · injection hu with hu; subst hu
      obtain ⟨hgw, hgc⟩ := grow_wf h gf hw hg
      have := writeRow_abs_wf (h.grow gf) t y hgw hgc
      rwa [C19_grow_abs _ _ hw.2.2.1] at this
    · cases hu
  · injection hu with hu; subst hu
    exact writeRow_abs_wf h t y hw (by omega)

/-- A bounded history refuses updates beyond its capacity instead of overwriting. -/
theorem C19_update_full (h : Hist) (t : Rat) (y : Vec) (gf : Nat) (hb : h.growable = false)
    (hfull : h.rows.length ≤ h.n) : h.update t y gf = .error .full := by
  simp [Hist.update, hb, hfull]

/-- A growable history never refuses; a bounded one accepts while there is room. -/
theorem C19_update_ok (h : Hist) (t : Rat) (y : Vec) (gf : Nat)
    (hroom : h.growable = true ∨ h.n < h.rows.length) : ∃ h', h.update t y gf = .ok h' := by
  unfold Hist.update
  split
  · rcases hroom with hg | hr
    · simp [hg]
    · omega
  · exact ⟨_, rfl⟩

/-- run a whole sequence of updates -/
def Hist.updates (h : Hist) (gf : Nat) : List (Rat × Vec) → Except Err Hist
  | [] => .ok h
  | (t, y) :: rest => match h.update t y gf with
    | .ok h' => h'.updates gf rest
    | .error e => .error e

/-- For every sequence of updates of any length (across any number of growth events) a growable
history holds exactly the initial record followed by the updates, in order. -/
theorem C19_updates_abs (h : Hist) (gf : Nat) (hg : 2 ≤ gf) (us : List (Rat × Vec)) (hw : h.WF)
    (hgr : h.growable = true) :
    ∃ h', h.updates gf us = .ok h' ∧ h'.abs = h.abs ++ us.map (fun u => (u.1, some u.2)) ∧ h'.WF
      ∧ h'.growable = true := by
  induction us generalizing h with
  | nil => exact ⟨h, rfl, by simp, hw, hgr⟩
  | cons u rest ih =>
    obtain ⟨t, y⟩ := u
    obtain ⟨h1, hu⟩ := C19_update_ok h t y gf (Or.inl hgr)
    obtain ⟨habs, hw1⟩ := C19_update_abs h h1 t y gf hg hw hu
    have hgr1 : h1.growable = true := by
      unfold Hist.update at hu
      split at hu
      · simp [hgr] at hu; subst hu; simpa [Hist.writeRow, Hist.grow] using hgr
      · injection hu with hu; subst hu; simpa [Hist.writeRow] using hgr
    obtain ⟨h2, hr, ha2, hw2, hg2⟩ := ih h1 hw1 hgr1
    refine ⟨h2, by simp [Hist.updates, hu, hr], ?_, hw2, hg2⟩
    rw [ha2, habs]; simp

/-! ## Queries -/

/-- every written row has dimension `d` (numpy enforces one row shape) -/
def Hist.Dim (h : Hist) (d : Nat) : Prop := ∀ (i : Nat) (v : Vec), h.rows[i]? = some (some v) → v.length = d

/-- the linear interpolant between two records -/
def lerp (t0 t1 t : Rat) (y0 y1 : Vec) : Vec := vadd y0 (vscale ((t - t0) / (t1 - t0)) (vsub y1 y0))

theorem ts_ne_nil (h : Hist) (hw : h.WF) : h.ts ≠ [] := by
  intro he; have := hw.1; have := hw.2.1; simp [he] at *; omega

/-- A query at or before the initial time returns the initial record. -/
theorem C19_query_before (h : Hist) (hw : h.WF) (t : Rat) (ht : t ≤ h.ts.head (ts_ne_nil h hw)) :
    h.query t = h.row 0 := by
  have hne := ts_ne_nil h hw
  unfold Hist.query
  rw [List.head?_eq_some_head hne, List.getLast?_eq_some_getLast hne]
  simp [ht]

/-- A query at or after the last recorded time returns the last record. -/
theorem C19_query_after (h : Hist) (hw : h.WF) (hs : StrictSorted h.ts) (t : Rat)
    (ht : h.ts.getLast (ts_ne_nil h hw) ≤ t) : h.query t = h.row (h.n - 1) := by
  have hne := ts_ne_nil h hw
  unfold Hist.query
  rw [List.head?_eq_some_head hne, List.getLast?_eq_some_getLast hne]
  simp only
  split
  · rename_i hle
    -- t ≤ first ≤ last ≤ t : the history has a single record
    have : h.n = 1 := by
      apply Classical.byContradiction
      intro hn
      have h2 : 1 < h.ts.length := by have := hw.1; have := hw.2.1; omega
      have hlt := sorted_get_lt h.ts hs 0 (h.ts.length - 1) (by omega) (by omega)
      rw [List.getLast_eq_getElem] at ht
      rw [List.head_eq_getElem] at hle
      grind
    rw [this]
  · rfl

/-- Strictly between two neighbouring records the query is their linear interpolant. -/
theorem C19_query_between (h : Hist) (hw : h.WF) (hs : StrictSorted h.ts) (t : Rat) (i : Nat)
    (hi : i + 1 < h.ts.length) (h1 : h.ts[i]'(by omega) ≤ t) (h2 : t < h.ts[i+1])
    (hfirst : h.ts.head (ts_ne_nil h hw) < t) :
    h.query t = (do let y0 ← h.row i; let y1 ← h.row (i+1); pure (lerp (h.ts[i]'(by omega)) h.ts[i+1] t y0 y1)) := by
  have hne := ts_ne_nil h hw
  have hb := bisect_spec h.ts t i hs hi h1 h2
  have hlast : t < h.ts.getLast hne := by
    rw [List.getLast_eq_getElem]
    by_cases he : i + 1 = h.ts.length - 1
    · simpa [he] using h2
    · have := sorted_get_lt h.ts hs (i+1) (h.ts.length - 1) (by omega) (by omega)
      grind
  unfold Hist.query
  rw [List.head?_eq_some_head hne, List.getLast?_eq_some_getLast hne]
  have hn1 : ¬ (t ≤ h.ts.head hne) := by grind
  have hn2 : ¬ (t ≥ h.ts.getLast hne) := by grind
  simp only [hn1, hn2, if_false, hb, Nat.add_sub_cancel]
  rw [List.getElem?_eq_getElem (by omega), List.getElem?_eq_getElem hi]
  rfl

theorem lerp_left (t0 t1 : Rat) (y0 y1 : Vec) (hd : y0.length = y1.length) : lerp t0 t1 t0 y0 y1 = y0 := by
  unfold lerp vadd vscale vsub
  induction y0 generalizing y1 with
  | nil => simp
  | cons a r ih =>
    cases y1 with
    | nil => simp at hd
    | cons b r1 =>
      simp only [List.zipWith_cons_cons, List.map_cons, List.cons.injEq]
      refine ⟨by grind, ?_⟩
      exact ih r1 (by simpa using hd)

/-- A query exactly at a recorded time returns exactly that record. -/
theorem C19_query_at_record (h : Hist) (hw : h.WF) (hs : StrictSorted h.ts) (d : Nat) (hd : h.Dim d)
    (i : Nat) (hi : i < h.ts.length) : h.query h.ts[i] = h.row i := by
  have hne := ts_ne_nil h hw
  have hlen := hw.1
  by_cases h0 : i = 0
  · subst h0
    exact C19_query_before h hw _ (by rw [List.head_eq_getElem]; exact Rat.le_refl)
  by_cases hl : i = h.ts.length - 1
  · have := C19_query_after h hw hs h.ts[i] (by rw [List.getLast_eq_getElem]; simp [hl])
    rw [this]; congr 1; omega
  · have hi1 : i + 1 < h.ts.length := by omega
    have hlt := sorted_get_lt h.ts hs i (i+1) (by omega) hi1
    have hf : h.ts.head hne < h.ts[i] := by
      rw [List.head_eq_getElem]; exact sorted_get_lt h.ts hs 0 i (by omega) hi
    rw [C19_query_between h hw hs h.ts[i] i hi1 Rat.le_refl hlt hf]
    obtain ⟨v0, hv0⟩ := hw.2.2.2 i (by omega)
    obtain ⟨v1, hv1⟩ := hw.2.2.2 (i+1) (by omega)
    have e0 : h.row i = .ok v0 := by simp [Hist.row, hv0]
    have e1 : h.row (i+1) = .ok v1 := by simp [Hist.row, hv1]
    rw [e0, e1]
    show Except.ok (lerp _ _ _ v0 v1) = Except.ok v0
    rw [lerp_left _ _ _ _ (by rw [hd i v0 hv0, hd (i+1) v1 hv1])]

def exEq : Except Err Vec → Except Err Vec → Bool
  | .ok a, .ok b => a == b
  | .error a, .error b => a == b
  | _, _ => false

/-! ## Tie to the constants of the current source (regenerated table) -/

/-- the growth factor and initial capacity found in the source satisfy what the theorems above need -/
theorem C19_tables_ok : 2 ≤ Tables.histGrowFactor ∧ 1 ≤ Tables.histInitialCapacity := by decide

/-- `C19_updates_abs` for the history as the code constructs it (`max_steps=None`, the source's constants). -/
theorem C19_impl_updates_abs (y0 : Vec) (t0 : Rat) (us : List (Rat × Vec)) :
    ∃ h', (Hist.init y0 t0 none Tables.histInitialCapacity).updates Tables.histGrowFactor us = .ok h'
      ∧ h'.abs = (t0, some y0) :: us.map (fun u => (u.1, some u.2)) ∧ h'.WF := by
  obtain ⟨h', h1, h2, h3, _⟩ := C19_updates_abs (Hist.init y0 t0 none Tables.histInitialCapacity)
    Tables.histGrowFactor C19_tables_ok.1 us (C19_init_wf _ _ _ _) rfl
  exact ⟨h', h1, by rw [h2, C19_init_abs]; rfl, h3⟩

def demoHist : Except Err Hist :=
  (Hist.init [0, 10] 0 none 2).updates 2 [(1, [2, 20]), (2, [6, 0]), (4, [8, 8])]

/-- Non-vacuity: a concrete history (initial record + 3 updates through a growth event with
capacity 2) holds its four records, has grown to capacity 4, and answers queries with the interpolant. -/
example : demoHist.toOption.map (·.abs)
    = some [(0, some [0,10]), (1, some [2,20]), (2, some [6,0]), (4, some [8,8])] := by decide +kernel
example : demoHist.toOption.map (·.rows.length) = some 4 := by decide +kernel
example : demoHist.toOption.map (fun h => exEq (h.query 3) (.ok [7, 4]) && exEq (h.query (3/2)) (.ok [4, 10])
    && exEq (h.query (-1)) (.ok [0, 10]) && exEq (h.query 9) (.ok [8, 8]) && exEq (h.query 2) (.ok [6, 0]))
    = some true := by decide +kernel

/-- Non-vacuity for the bounded case: capacity 2 accepts one update and refuses the second. -/
example : ((Hist.init [1] 0 (some 2)).update 1 [5]).toOption.map (·.abs)
    = some [(0, some [1]), (1, some [5])] := by decide +kernel
example : ((Hist.init [1] 0 (some 2)).update 1 [5]).toOption.map (fun h1 => (h1.update 2 [7]).toOption.isNone)
    = some true := by decide +kernel

end PyRates.Hist
