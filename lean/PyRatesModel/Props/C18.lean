import PyRatesModel.Generated.Tables
import PyRatesModel.Auto.Slots
/-!
# C18 — auto-07p export addresses every parameter and state consistently

Model of `FortranBackend._auto_param_indices` (fortran_backend.py 998-1009) for the blocked range read from the source
(`Tables.autoBlockedLo/Hi`, the class attribute `_AUTO_BLOCKED_PAR_RANGE`).  All emitted texts (parnames, STPNT, the call that forwards
PAR slots, DFDP columns) are produced by zipping the *same* index list with the same parameter list, so consistency reduces to
properties of that list, proved here for every number of parameters.
-/
namespace PyRates.Auto

theorem slotsFrom_low (n i : Nat) (h : i + n ≤ 9) : slotsFrom 10 15 n i 1 = (List.range n).map (fun j => i + j + 1) := by
  induction n generalizing i with
  | zero => rfl
  | succ n ih =>
    have hs : stepSlot 10 15 1 i = (i + 1, 1) := by
      unfold stepSlot
      rw [if_neg (by omega)]
    rw [slotsFrom, hs, ih (i + 1) (by omega), List.range_succ_eq_map]
    simp only [List.map_cons, List.map_map]
    congr 1
    apply List.map_congr_left
    intro j _; simp; omega

theorem slotsFrom_high (n i : Nat) (h : 10 ≤ i) : slotsFrom 10 15 n i 6 = (List.range n).map (fun j => i + j + 6) := by
  induction n generalizing i with
  | zero => rfl
  | succ n ih =>
    have hs : stepSlot 10 15 6 i = (i + 6, 6) := by
      unfold stepSlot
      rw [if_neg (by omega)]
    rw [slotsFrom, hs, ih (i + 1) (by omega), List.range_succ_eq_map]
    simp only [List.map_cons, List.map_map]
    congr 1
    apply List.map_congr_left
    intro j _; simp; omega

theorem slotsFrom_append (lo hi : Nat) (a b i inc : Nat) :
    slotsFrom lo hi (a + b) i inc = slotsFrom lo hi a i inc ++
      slotsFrom lo hi b (i + a) ((List.range a).foldl (fun c j => (stepSlot lo hi c (i + j)).2) inc) := by
  induction a generalizing i inc with
  | zero => simp [slotsFrom]
  | succ a ih =>
    rw [show a + 1 + b = (a + b) + 1 by omega, slotsFrom, slotsFrom, ih]
    simp only [List.cons_append, List.cons.injEq, true_and]
    congr 2
    · omega
    · rw [List.range_succ_eq_map, List.foldl_cons, List.foldl_map]
      simp only [Nat.add_zero]
      congr 1
      funext c j
      congr 2; omega

/-- **Closed form, for every number of parameters** (blocked range (10, 15)). -/
theorem slots_closed (n : Nat) : slots 10 15 n = (List.range n).map slotClosed := by
  unfold slots
  by_cases h : n ≤ 9
  · rw [slotsFrom_low n 0 (by omega)]
    apply List.map_congr_left
    intro j hj
    have : j < 9 := by have := List.mem_range.mp hj; omega
    simp [slotClosed, this]
  · obtain ⟨m, rfl⟩ : ∃ m, n = 9 + (m + 1) := ⟨n - 10, by omega⟩
    rw [slotsFrom_append, slotsFrom_low 9 0 (by omega)]
    have hinc : (List.range 9).foldl (fun c j => (stepSlot 10 15 c (0 + j)).2) 1 = 1 := by decide
    rw [hinc]
    -- parameter 9: hits the blocked range
    have h9 : stepSlot 10 15 1 9 = (15, 6) := by decide
    rw [slotsFrom, show 0 + 9 = 9 from rfl, h9, slotsFrom_high m 10 (by omega)]
    rw [List.range_add, List.map_append]
    have hfirst : (List.range 9).map (fun j => 0 + j + 1) = (List.range 9).map slotClosed := by decide
    rw [hfirst]
    congr 1
    rw [List.range_succ_eq_map]
    simp only [List.map_cons, List.map_map]
    have e0 : slotClosed (9 + 0) = 15 := by decide
    rw [e0]
    congr 1
    apply List.map_congr_left
    intro j _
    simp only [Function.comp, slotClosed]
    rw [if_neg (by omega)]
    omega

theorem slotClosed_strictMono (a b : Nat) (h : a < b) : slotClosed a < slotClosed b := by
  unfold slotClosed; split <;> split <;> omega

/-- slots are pairwise distinct and increase with the declaration position, for every number of parameters -/
theorem C18_slots_strictly_increasing (n a b : Nat) (ha : a < b) (hb : b < n) :
    (slots 10 15 n)[a]? = some (slotClosed a) ∧ (slots 10 15 n)[b]? = some (slotClosed b) ∧ slotClosed a < slotClosed b := by
  rw [slots_closed]
  refine ⟨by simp [List.getElem?_map, List.getElem?_range (by omega : a < n)], by simp [List.getElem?_map, List.getElem?_range hb],
    slotClosed_strictMono a b ha⟩

/-- no parameter is ever placed in a slot auto-07p reserves (PAR(11)..PAR(14)), nor in slot 0 -/
theorem C18_slots_avoid_reserved (n : Nat) : ∀ s ∈ slots 10 15 n, 1 ≤ s ∧ ¬ (11 ≤ s ∧ s ≤ 14) := by
  rw [slots_closed]
  intro s hs
  obtain ⟨k, _, rfl⟩ := List.mem_map.mp hs
  unfold slotClosed; split <;> omega

/-- NPAR = the largest slot = the slot of the last parameter -/
theorem C18_npar (n : Nat) (hn : 0 < n) : (slots 10 15 n).getLast? = some (slotClosed (n - 1)) := by
  rw [slots_closed]
  obtain ⟨m, rfl⟩ : ∃ m, n = m + 1 := ⟨n - 1, by omega⟩
  rw [List.range_succ, List.map_append]; simp

/-- the theorems above are about the range the source uses now -/
theorem C18_tables : Tables.autoBlockedLo = 10 ∧ Tables.autoBlockedHi = 15 ∧ Tables.autoTimeSlot = 14 := by decide

/-- Non-vacuity: twelve parameters cross the reserved range -/
example : slots 10 15 12 = [1, 2, 3, 4, 5, 6, 7, 8, 9, 15, 16, 17] := by decide

end PyRates.Auto
