import PyRatesModel.Props.C01
import PyRatesModel.Props.C03
import PyRatesModel.Front.Paths
/-!
# C06 — a variable path addresses the same variable everywhere

`run()` returns, for a resolved variable path `p`, the column `k ↦ (state after k·s steps)(p)`.  The two facts this rests on are
proved elsewhere and re-exported here for the audit: the reference semantics is stated per frontend path (`C01_solve_sound`) and the
stored rows are the iterates in order (`C03_solve_rows`).  What is specific to C06 is wildcard resolution.  The circuit hierarchy is
modelled as the list of its leaf-node paths in declaration order (a trie); `getNodes` mirrors `CircuitTemplate.get_nodes`
(frontend/template/circuit.py 908-973) for patterns consisting of an exact prefix followed by `all`s, and for the single `all`.
-/
namespace PyRates.Paths

theorem children_flat (labels : List String) (hd : labels.Nodup) : children (labels.map (fun l => [l])) = labels := by
  unfold children
  have h0 : (labels.map (fun l => [l])).filterMap List.head? = labels := by
    induction labels with
    | nil => rfl
    | cons a r ih => simp [ih (List.nodup_cons.mp hd).2]
  rw [h0]
  have : ∀ (ls acc : List String), (acc ++ ls).Nodup →
      ls.foldl (fun acc l => if acc.contains l then acc else acc ++ [l]) acc = acc ++ ls := by
    intro ls
    induction ls with
    | nil => intro acc _; simp
    | cons a r ih =>
      intro acc h
      have hn : acc.contains a = false := by
        simp only [List.contains_eq_mem, decide_eq_false_iff_not]
        intro hm
        have := List.nodup_append.mp h
        exact this.2.2 a hm a (by simp) rfl
      simp only [List.foldl_cons, hn, Bool.false_eq_true, if_false]
      rw [ih (acc ++ [a]) (by simpa [List.append_assoc] using h)]
      simp [List.append_assoc]
  simpa using this labels [] (by simpa using hd)

theorem filter_single (labels : List String) (hd : labels.Nodup) (p : String) (hp : p ≠ "all") :
    (if labels.contains p then [[p]] else []) = (labels.map (fun l => [l])).filter (matchesPat [p]) := by
  induction labels with
  | nil => simp
  | cons a r ih =>
    have hd' := List.nodup_cons.mp hd
    simp only [List.map_cons, List.filter_cons]
    by_cases ha : a = p
    · subst ha
      have hm : matchesPat [a] [a] = true := by simp [matchesPat]
      have hrest : (r.map (fun l => [l])).filter (matchesPat [a]) = [] := by
        rw [List.filter_eq_nil_iff]
        intro q hq
        obtain ⟨l, hl, rfl⟩ := List.mem_map.mp hq
        have : l ≠ a := fun e => hd'.1 (e ▸ hl)
        simp [matchesPat, hp, this, Ne.symm this]
      simp [hm, hrest]
    · have hm : matchesPat [p] [a] = false := by simp [matchesPat, hp, Ne.symm ha]
      have hpa : (p == a) = false := by simpa using Ne.symm ha
      simp only [hm, Bool.false_eq_true, if_false, List.contains_cons, hpa, Bool.false_or]
      exact ih hd'.2

/-- Flat circuits (depth 1): `get_nodes` is the glob, for every set of node labels and every one-component pattern. -/
theorem C06_getNodes_flat (labels : List String) (hd : labels.Nodup) (p : String) (fuel : Nat) :
    getNodes (fuel + 1) (labels.map (fun l => [l])) [p] = globSpec (labels.map (fun l => [l])) [p] := by
  unfold getNodes globSpec
  rw [children_flat labels hd]
  by_cases hp : p = "all"
  · subst hp
    have hall : (labels.map (fun l => [l])).all (fun q => q.length ≤ 1) = true := by simp
    simp only [beq_self_eq_true, if_true, hall]
    rw [List.filter_eq_self.mpr]
    intro q _; simp [matchesPat]
  · have hp' : (p == "all") = false := by simpa using hp
    simp only [hp', Bool.false_eq_true, if_false]
    exact filter_single labels hd p hp

/-- Non-vacuity / regression: a two-level hierarchy, prefix + `all`, single `all`, exact path (declaration order kept). -/
example :
    let leaves := [["c1", "p1"], ["c1", "p2"], ["c2", "p1"], ["c2", "q"]]
    getNodes 5 leaves ["c1", "all"] = globSpec leaves ["c1", "all"] ∧
    getNodes 5 leaves ["all"] = globSpec leaves ["all"] ∧
    getNodes 5 leaves ["all", "all"] = globSpec leaves ["all", "all"] ∧
    getNodes 5 leaves ["c2", "q"] = [["c2", "q"]] ∧
    getNodes 5 leaves ["all", "p1"] = [["c1", "p1"], ["c2", "p1"]] := by decide +kernel

end PyRates.Paths
