import PyRatesModel.Props.C01
import PyRatesModel.Props.C03
import PyRatesModel.Front.Paths
/-!
# C06 — a variable path addresses the same variable everywhere

`run()` returns, for a resolved variable path `p`, the column `k ↦ (state after k·s steps)(p)`.  The two facts this rests on are
proved elsewhere and re-exported here for the audit: the reference semantics is stated per frontend path (`C01_solve_sound`) and the
stored rows are the iterates in order (`C03_solve_rows`).  What is specific to C06 is wildcard resolution.  The circuit hierarchy is
modelled as the list of its leaf-node paths in declaration order (a trie); `getNodes` mirrors `CircuitTemplate.get_nodes`
(frontend/template/circuit.py 908-973) for patterns consisting of an exact prefix followed by `all`s, and for the single `all`.
-/
namespace PyRates.Paths

theorem children_flat (labels : List String) (hd : labels.Nodup) : children (labels.map (fun l => [l])) = labels := by
  unfold children
  have h0 : (labels.map (fun l => [l])).filterMap List.head? = labels := by
    induction labels with
    | nil => rfl
    | cons a r ih => simp [ih (List.nodup_cons.mp hd).2]
  rw [h0]
  have : ∀ (ls acc : List String), (acc ++ ls).Nodup →
      ls.foldl (fun acc l => if acc.contains l then acc else acc ++ [l]) acc = acc ++ ls := by
    intro ls
    induction ls with
    | nil => intro acc _; simp
    | cons a r ih =>
      intro acc h
      have hn : acc.contains a = false := by
        simp only [List.contains_eq_mem, decide_eq_false_iff_not]
        intro hm
        have := List.nodup_append.mp h
        exact this.2.2 a hm a (by simp) rfl
      simp only [List.foldl_cons, hn, Bool.false_eq_true, if_false]
      rw [ih (acc ++ [a]) (by simpa [List.append_assoc] using h)]
      simp [List.append_assoc]
  simpa using this labels [] (by simpa using hd)

theorem filter_single (labels : List String) (hd : labels.Nodup) (p : String) (hp : p ≠ "all") :
    (if labels.contains p then [[p]] else []) = (labels.map (fun l => [l])).filter (matchesPat [p]) := by
  induction labels with
  | nil => simp
  | cons a r ih =>
    have hd' := List.nodup_cons.mp hd
    simp only [List.map_cons, List.filter_cons]
    by_cases ha : a = p
    · subst ha
      have hm : matchesPat [a] [a] = true := by simp [matchesPat]
      have hrest : (r.map (fun l => [l])).filter (matchesPat [a]) = [] := by
        rw [List.filter_eq_nil_iff]
        intro q hq
        obtain ⟨l, hl, rfl⟩ := List.mem_map.mp hq
        have : l ≠ a := fun e => hd'.1 (e ▸ hl)
        simp [matchesPat, hp, this, Ne.symm this]
      simp [hm, hrest]
    · have hm : matchesPat [p] [a] = false := by simp [matchesPat, hp, Ne.symm ha]
      have hpa : (p == a) = false := by simpa using Ne.symm ha
      simp only [hm, Bool.false_eq_true, if_false, List.contains_cons, hpa, Bool.false_or]
      exact ih hd'.2

/-- Flat circuits (depth 1): `get_nodes` is the glob, for every set of node labels and every one-component pattern. -/
theorem C06_getNodes_flat (labels : List String) (hd : labels.Nodup) (p : String) (fuel : Nat) :
    getNodes (fuel + 1) (labels.map (fun l => [l])) [p] = globSpec (labels.map (fun l => [l])) [p] := by
  unfold getNodes globSpec
  rw [children_flat labels hd]
  by_cases hp : p = "all"
  · subst hp
    have hall : (labels.map (fun l => [l])).all (fun q => q.length ≤ 1) = true := by simp
    simp only [beq_self_eq_true, if_true, hall]
    rw [List.filter_eq_self.mpr]
    intro q _; simp [matchesPat]
  · have hp' : (p == "all") = false := by simpa using hp
    simp only [hp', Bool.false_eq_true, if_false]
    exact filter_single labels hd p hp

/-- Non-vacuity / regression: a two-level hierarchy, prefix + `all`, single `all`, exact path (declaration order kept). -/
example :
    let leaves := [["c1", "p1"], ["c1", "p2"], ["c2", "p1"], ["c2", "q"]]
    getNodes 5 leaves ["c1", "all"] = globSpec leaves ["c1", "all"] ∧
    getNodes 5 leaves ["all"] = globSpec leaves ["all"] ∧
    getNodes 5 leaves ["all", "all"] = globSpec leaves ["all", "all"] ∧
    getNodes 5 leaves ["c2", "q"] = [["c2", "q"]] ∧
    getNodes 5 leaves ["all", "p1"] = [["c1", "p1"], ["c2", "p1"]] := by decide +kernel

/-! ### hierarchies of any depth -/

/-- the leaf paths of a circuit hierarchy of uniform depth `d`, in declaration order: at depth 0 a node (the empty relative path), at depth
`d+1` a non-empty list of distinctly labelled sub-hierarchies whose leaves are listed sub-circuit by sub-circuit -/
def Hier : Nat → List NodePath → Prop
  | 0, leaves => leaves = [[]]
  | d + 1, leaves => ∃ cs : List (String × List NodePath),
      cs ≠ [] ∧ (cs.map Prod.fst).Nodup ∧ (∀ c ∈ cs, Hier d c.2) ∧ leaves = cs.flatMap (fun c => c.2.map (c.1 :: ·))

def blocks (cs : List (String × List NodePath)) : List NodePath := cs.flatMap (fun c => c.2.map (c.1 :: ·))

theorem hier_ne_nil : ∀ (d : Nat) (leaves : List NodePath), Hier d leaves → leaves ≠ [] := by
  intro d
  induction d with
  | zero => intro leaves h; simp [Hier] at h; simp [h]
  | succ d ih =>
    intro leaves h
    obtain ⟨cs, hne, _, hsub, rfl⟩ := h
    cases cs with
    | nil => exact absurd rfl hne
    | cons c rest =>
      have := ih c.2 (hsub c (by simp))
      cases hc : c.2 with
      | nil => exact absurd hc this
      | cons q qs => simp [hc]

theorem hier_length : ∀ (d : Nat) (leaves : List NodePath), Hier d leaves → ∀ q ∈ leaves, q.length = d := by
  intro d
  induction d with
  | zero => intro leaves h q hq; simp [Hier] at h; subst h; simp at hq; simp [hq]
  | succ d ih =>
    intro leaves h q hq
    obtain ⟨cs, _, _, hsub, rfl⟩ := h
    simp only [List.mem_flatMap, List.mem_map] at hq
    obtain ⟨c, hc, q', hq', rfl⟩ := hq
    simp [ih c.2 (hsub c hc) q' hq']

/-- the dedup fold over a list that consists of non-empty blocks of equal labels with pairwise distinct labels -/
theorem fold_blocks (cs : List (String × List NodePath)) (hne : ∀ c ∈ cs, c.2 ≠ []) :
    ∀ (acc : List String), (acc ++ cs.map Prod.fst).Nodup →
      ((blocks cs).filterMap List.head?).foldl (fun acc l => if acc.contains l then acc else acc ++ [l]) acc = acc ++ cs.map Prod.fst := by
  induction cs with
  | nil => intro acc _; simp [blocks]
  | cons c rest ih =>
    intro acc hnd
    have hc2 : c.2 ≠ [] := hne c (by simp)
    have hrest : ∀ c' ∈ rest, c'.2 ≠ [] := fun c' h => hne c' (by simp [h])
    have hblock : (blocks (c :: rest)).filterMap List.head? = c.2.map (fun _ => c.1) ++ (blocks rest).filterMap List.head? := by
      simp [blocks, List.filterMap_append, List.filterMap_map, Function.comp_def]
    rw [hblock, List.foldl_append]
    have hnot : acc.contains c.1 = false := by
      simp only [List.contains_eq_mem, decide_eq_false_iff_not]
      intro hm
      have := List.nodup_append.mp hnd
      exact this.2.2 c.1 hm c.1 (by simp) rfl
    have hfold : ∀ (qs : List NodePath), qs ≠ [] →
        (qs.map (fun _ => c.1)).foldl (fun acc l => if acc.contains l then acc else acc ++ [l]) acc = acc ++ [c.1] := by
      intro qs hq
      cases qs with
      | nil => exact absurd rfl hq
      | cons q qs =>
        simp only [List.map_cons, List.foldl_cons, hnot, Bool.false_eq_true, if_false]
        have : ∀ (m : List NodePath) (a : List String), a.contains c.1 = true →
            (m.map (fun _ => c.1)).foldl (fun acc l => if acc.contains l then acc else acc ++ [l]) a = a := by
          intro m
          induction m with
          | nil => intro a _; rfl
          | cons _ m ihm => intro a ha; simp only [List.map_cons, List.foldl_cons, ha, if_true]; exact ihm a ha
        exact this qs (acc ++ [c.1]) (by simp)
    rw [hfold c.2 hc2, ih hrest (acc ++ [c.1]) (by simpa [List.append_assoc] using hnd)]
    simp [List.append_assoc]

theorem children_blocks (cs : List (String × List NodePath)) (hne : ∀ c ∈ cs, c.2 ≠ []) (hnd : (cs.map Prod.fst).Nodup) :
    children (blocks cs) = cs.map Prod.fst := by
  unfold children
  simpa using fold_blocks cs hne [] (by simpa using hnd)

theorem sub_blocks (cs : List (String × List NodePath)) (hnd : (cs.map Prod.fst).Nodup) (c : String × List NodePath) (hc : c ∈ cs) :
    sub (blocks cs) c.1 = c.2 := by
  induction cs with
  | nil => simp at hc
  | cons a rest ih =>
    have hnd' : a.1 ∉ rest.map Prod.fst ∧ (rest.map Prod.fst).Nodup := List.nodup_cons.mp (by rw [List.map_cons] at hnd; exact hnd)
    have hsplit : blocks (a :: rest) = a.2.map (a.1 :: ·) ++ blocks rest := by simp [blocks]
    unfold sub
    rw [hsplit, List.filter_append, List.map_append]
    rcases List.mem_cons.mp hc with rfl | hmem
    · have h1 : ((c.2.map (c.1 :: ·)).filter (fun p => p.head? == some c.1)).map List.tail = c.2 := by
        rw [List.filter_eq_self.mpr (by intro p hp; obtain ⟨q, _, rfl⟩ := List.mem_map.mp hp; simp)]
        simp [List.map_map, Function.comp_def]
      have h2 : (blocks rest).filter (fun p => p.head? == some c.1) = [] := by
        rw [List.filter_eq_nil_iff]
        intro p hp
        simp only [blocks, List.mem_flatMap, List.mem_map] at hp
        obtain ⟨c', hc', q, _, rfl⟩ := hp
        have : c'.1 ≠ c.1 := fun e => hnd'.1 (e ▸ List.mem_map_of_mem (f := Prod.fst) hc')
        simp [this]
      rw [h1, h2]; simp
    · have hne : a.1 ≠ c.1 := fun e => hnd'.1 (e ▸ List.mem_map_of_mem (f := Prod.fst) hmem)
      have h1 : (a.2.map (a.1 :: ·)).filter (fun p => p.head? == some c.1) = [] := by
        rw [List.filter_eq_nil_iff]
        intro p hp; obtain ⟨q, _, rfl⟩ := List.mem_map.mp hp; simp [hne]
      rw [h1]
      simpa [sub] using ih hnd'.2 hmem

theorem sub_blocks_none (cs : List (String × List NodePath)) (l : String) (hl : l ∉ cs.map Prod.fst) : sub (blocks cs) l = [] := by
  unfold sub
  have : (blocks cs).filter (fun p => p.head? == some l) = [] := by
    rw [List.filter_eq_nil_iff]
    intro p hp
    simp only [blocks, List.mem_flatMap, List.mem_map] at hp
    obtain ⟨c, hc, q, _, rfl⟩ := hp
    have : c.1 ≠ l := fun e => hl (e ▸ List.mem_map_of_mem (f := Prod.fst) hc)
    simp [this]
  simp [this]

theorem getNodes_nil : ∀ (fuel : Nat) (pat : List String), getNodes fuel [] pat = [] := by
  intro fuel
  induction fuel with
  | zero => intro pat; rfl
  | succ fuel ih =>
    intro pat
    match pat with
    | [] => rfl
    | [p] => unfold getNodes; by_cases hp : (p == "all") = true <;> simp [hp, children]
    | p :: q :: rest =>
      unfold getNodes
      by_cases hp : (p == "all") = true
      · simp [hp, children]
      · simp [hp, sub, ih]

theorem flatMap_congr' {α β} (l : List α) (f g : α → List β) (h : ∀ x ∈ l, f x = g x) : l.flatMap f = l.flatMap g := by
  induction l with
  | nil => rfl
  | cons a r ih => rw [List.flatMap_cons, List.flatMap_cons, h a (by simp), ih (fun x hx => h x (by simp [hx]))]

theorem matchesPat_cons (p l : String) (rest : List String) (q : NodePath) (hr : rest ≠ []) (hq : q.length = rest.length) :
    matchesPat (p :: rest) (l :: q) = ((p == "all" || p == l) && matchesPat rest q) := by
  unfold matchesPat
  have h1 : ((p :: rest) == ["all"]) = false := by
    cases rest with
    | nil => exact absurd rfl hr
    | cons a r => simp
  have h2 : ((p :: rest).length == (l :: q).length) = true := by simp [hq]
  have h3 : (rest.length == q.length) = true := by simp [hq]
  rw [h1, h2, h3]
  simp only [Bool.false_or, Bool.true_and, List.zip_cons_cons, List.all_cons]
  by_cases hall : (rest == ["all"]) = true
  · have hre : rest = ["all"] := by simpa using hall
    subst hre
    match q, hq with
    | [x], _ => simp
  · simp [hall]

theorem filter_blocks (cs : List (String × List NodePath)) (p : String) (rest : List String) (hr : rest ≠ [])
    (hlen : ∀ c ∈ cs, ∀ q ∈ c.2, q.length = rest.length) :
    (blocks cs).filter (matchesPat (p :: rest))
      = cs.flatMap (fun c => if (p == "all" || p == c.1) then (c.2.filter (matchesPat rest)).map (c.1 :: ·) else []) := by
  induction cs with
  | nil => simp [blocks]
  | cons a r ih =>
    have hsplit : blocks (a :: r) = a.2.map (a.1 :: ·) ++ blocks r := by simp [blocks]
    rw [hsplit, List.filter_append, List.flatMap_cons, ih (fun c hc => hlen c (by simp [hc]))]
    congr 1
    have hfa : (a.2.map (a.1 :: ·)).filter (matchesPat (p :: rest))
        = (a.2.filter (fun q => (p == "all" || p == a.1) && matchesPat rest q)).map (a.1 :: ·) := by
      rw [List.filter_map]
      congr 1
      apply List.filter_congr
      intro q hq
      simp only [Function.comp]
      exact matchesPat_cons p a.1 rest q hr (hlen a (by simp) q hq)
    rw [hfa]
    by_cases hp : (p == "all" || p == a.1) = true
    · simp [hp]
    · have : (p == "all" || p == a.1) = false := by simpa using hp
      simp [this]

theorem globSpec_all (leaves : List NodePath) : globSpec leaves ["all"] = leaves := by
  unfold globSpec
  rw [List.filter_eq_self]
  intro q _; simp [matchesPat]

/-- **Hierarchical circuits**: on the leaf list of a circuit hierarchy of any depth `d ≥ 1` (sub-circuits of sub-circuits …, distinct labels per
level, any number of nodes) `get_nodes` is the glob for every pattern with one component per level and for the single `all`. -/
theorem C06_getNodes_hier : ∀ (d : Nat) (leaves : List NodePath) (pat : List String) (fuel : Nat),
    Hier (d + 1) leaves → (pat.length = d + 1 ∨ pat = ["all"]) → d + 1 ≤ fuel →
    getNodes fuel leaves pat = globSpec leaves pat := by
  intro d
  induction d with
  | zero =>
    intro leaves pat fuel h hp hf
    obtain ⟨cs, hne0, hnd, hsub, rfl⟩ := h
    clear hne0
    have hflat : cs.flatMap (fun c => c.2.map (c.1 :: ·)) = (cs.map Prod.fst).map (fun l => [l]) := by
      have : ∀ c ∈ cs, c.2 = [[]] := fun c hc => by simpa [Hier] using hsub c hc
      clear hnd hsub
      induction cs with
      | nil => rfl
      | cons a r ih => simp [List.flatMap_cons, this a (by simp), ih (fun c hc => this c (by simp [hc]))]
    rw [hflat]
    obtain ⟨fuel', rfl⟩ : ∃ f, fuel = f + 1 := ⟨fuel - 1, by omega⟩
    have hp1 : ∃ p, pat = [p] := by
      rcases hp with hp | hp
      · match pat, hp with
        | [p], _ => exact ⟨p, rfl⟩
      · exact ⟨"all", hp⟩
    obtain ⟨p, rfl⟩ := hp1
    exact C06_getNodes_flat (cs.map Prod.fst) hnd p fuel'
  | succ d ih =>
    intro leaves pat fuel h hp hf
    obtain ⟨cs, hne, hnd, hsub, rfl⟩ := h
    obtain ⟨fuel', rfl⟩ : ∃ f, fuel = f + 1 := ⟨fuel - 1, by omega⟩
    have hcne : ∀ c ∈ cs, c.2 ≠ [] := fun c hc => hier_ne_nil (d + 1) c.2 (hsub c hc)
    have hchildren := children_blocks cs hcne hnd
    have hlen : ∀ c ∈ cs, ∀ q ∈ c.2, q.length = d + 1 := fun c hc q hq => hier_length (d + 1) c.2 (hsub c hc) q hq
    show getNodes (fuel' + 1) (blocks cs) pat = globSpec (blocks cs) pat
    rcases hp with hp | hp
    · -- one component per level
      match pat, hp with
      | p :: q :: rest, hp =>
        have hrl : (q :: rest).length = d + 1 := by simpa using hp
        have hrne : (q :: rest) ≠ [] := by simp
        unfold getNodes globSpec
        rw [filter_blocks cs p (q :: rest) hrne (fun c hc x hx => by rw [hlen c hc x hx, hrl])]
        by_cases hall : (p == "all") = true
        · simp only [hall, if_true, Bool.true_or]
          rw [hchildren, List.flatMap_map]
          apply flatMap_congr'
          intro c hc
          rw [sub_blocks cs hnd c hc, ih c.2 (q :: rest) fuel' (hsub c hc) (Or.inl hrl) (by omega)]
          rfl
        · have hall' : (p == "all") = false := by simpa using hall
          simp only [hall', Bool.false_eq_true, if_false, Bool.false_or]
          by_cases hmem : p ∈ cs.map Prod.fst
          · obtain ⟨c, hc, rfl⟩ := List.mem_map.mp hmem
            rw [sub_blocks cs hnd c hc, ih c.2 (q :: rest) fuel' (hsub c hc) (Or.inl hrl) (by omega)]
            -- exactly one block matches
            have : ∀ (l : List (String × List NodePath)), (l.map Prod.fst).Nodup → c ∈ l →
                l.flatMap (fun c' => if (c.1 == c'.1) = true then (c'.2.filter (matchesPat (q :: rest))).map (c'.1 :: ·) else [])
                  = (globSpec c.2 (q :: rest)).map (c.1 :: ·) := by
              intro l
              induction l with
              | nil => intro _ h; simp at h
              | cons a r ihl =>
                intro hn hm
                have hn' : a.1 ∉ r.map Prod.fst ∧ (r.map Prod.fst).Nodup := List.nodup_cons.mp (by rw [List.map_cons] at hn; exact hn)
                rw [List.flatMap_cons]
                rcases List.mem_cons.mp hm with rfl | hr
                · have hnone : r.flatMap (fun c' => if (c.1 == c'.1) = true then (c'.2.filter (matchesPat (q :: rest))).map (c'.1 :: ·) else []) = [] := by
                    rw [List.flatMap_eq_nil_iff]
                    intro c' hc'
                    have : c.1 ≠ c'.1 := fun e => hn'.1 (e ▸ List.mem_map_of_mem (f := Prod.fst) hc')
                    simp [this]
                  rw [hnone]; simp [globSpec]
                · have : (c.1 == a.1) = false := by
                    have : c.1 ≠ a.1 := fun e => hn'.1 (e ▸ List.mem_map_of_mem (f := Prod.fst) hr)
                    simpa using this
                  simp only [this, Bool.false_eq_true, if_false, List.nil_append]
                  exact ihl hn'.2 hr
            exact (this cs hnd hc).symm
          · rw [sub_blocks_none cs p hmem, getNodes_nil]
            symm
            simp only [List.map_nil]
            rw [List.flatMap_eq_nil_iff]
            intro c hc
            have : p ≠ c.1 := fun e => hmem (e ▸ List.mem_map_of_mem (f := Prod.fst) hc)
            simp [this]
    · -- the single `all`
      subst hp
      rw [globSpec_all]
      unfold getNodes
      have hnot : (blocks cs).all (fun q => q.length ≤ 1) = false := by
        rw [List.all_eq_false]
        obtain ⟨c, hc⟩ := List.exists_mem_of_ne_nil cs hne
        obtain ⟨q, hq⟩ := List.exists_mem_of_ne_nil c.2 (hcne c hc)
        refine ⟨c.1 :: q, ?_, ?_⟩
        · simp only [blocks, List.mem_flatMap, List.mem_map]; exact ⟨c, hc, q, hq, rfl⟩
        · simp [hlen c hc q hq]
      simp only [beq_self_eq_true, if_true, hnot, Bool.false_eq_true, if_false]
      rw [hchildren, List.flatMap_map]
      show _ = cs.flatMap (fun c => c.2.map (c.1 :: ·))
      apply flatMap_congr'
      intro c hc
      show (getNodes fuel' (sub (blocks cs) c.1) ["all"]).map (c.1 :: ·) = _
      rw [sub_blocks cs hnd c hc, ih c.2 ["all"] fuel' (hsub c hc) (Or.inr rfl) (by omega), globSpec_all]

/-- Non-vacuity: a concrete two-level hierarchy satisfies `Hier` (and the theorem applies to it). -/
example : Hier 2 [["c1", "p1"], ["c1", "p2"], ["c2", "q"]] := by
  refine ⟨[("c1", [["p1"], ["p2"]]), ("c2", [["q"]])], by simp, by decide, ?_, rfl⟩
  intro c hc
  simp only [List.mem_cons, List.mem_nil_iff, or_false] at hc
  rcases hc with rfl | rfl
  · exact ⟨[("p1", [[]]), ("p2", [[]])], by simp, by decide, by intro c hc; simp at hc; rcases hc with rfl | rfl <;> rfl, rfl⟩
  · exact ⟨[("q", [[]])], by simp, by decide, by intro c hc; simp at hc; subst hc; rfl, rfl⟩

example : getNodes 3 [["c1", "p1"], ["c1", "p2"], ["c2", "q"]] ["all", "p1"] = [["c1", "p1"]] := by decide +kernel

end PyRates.Paths
