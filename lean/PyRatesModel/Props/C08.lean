import PyRatesModel.Props.C19
import PyRatesModel.Props.C03
import PyRatesModel.Props.C01
/-!
# C08 — extrinsic inputs are applied at the right time to the right unit

* fixed step: `create_input_node` emits `u = index(u_input, t)` and the solvers pass the step counter, so sample `k` is the value used
  during step `k` (both Heun evaluations of step `k` included); for a pure integrator the state is the running sum of the samples.
* adaptive: `u = interp(t, linspace(0, T, N), u_input)`; `np.interp` is the clamped piecewise-linear interpolant.  It is the same
  function as the `DDEHistory` query (C19) on the history whose records are `(time_k, [sample_k])`, so C19's theorems carry over.
* several inputs and edges converging on one variable add up: `inputValue` (Net/Syntax.lean) sums feeders, edges and `ext p`.
-/
namespace PyRates.Inputs
open PyRates.Solver PyRates.Hist

/-- vector field of the pure integrator `x' = u` with `u` the sample indexed by the step counter -/
def integratorField (U : Nat → Rat) : Field := fun t _ => [U t]

def partialSum (U : Nat → Rat) : Nat → Rat
  | 0 => 0
  | k + 1 => partialSum U k + U k

theorem iter_integrator (U : Nat → Rat) (dt : Rat) (i k : Nat) (x : Rat) :
    iter (eulerStepCode (integratorField U) dt 0) i k [x] = [x + dt * (partialSum (fun j => U (i + j)) k)] := by
  induction k generalizing i x with
  | zero => simp [iter, partialSum]; grind
  | succ k ih =>
    rw [iter_succ_left]
    have hstep : eulerStepCode (integratorField U) dt 0 i [x] = [x + dt * U i] := by
      simp [eulerStepCode, integratorField, Solver.vadd, Solver.vscale]
    rw [hstep, ih]
    congr 1
    have hs : ∀ (n : Nat), partialSum (fun j => U (i + j)) (n + 1) = U i + partialSum (fun j => U (i + 1 + j)) n := by
      intro n
      induction n with
      | zero => simp [partialSum]; grind
      | succ n ihn =>
        rw [partialSum, ihn, partialSum]
        have : i + (n + 1) = i + 1 + n := by omega
        rw [this]; grind
    rw [hs]; grind

/-- **Sample k drives step k.**  Under Euler the integrator `x' = u` holds `x_0 + dt·Σ_{i<k} u_i` after `k` steps. -/
theorem C08_sample_k_in_step_k (U : Nat → Rat) (dt : Rat) (k : Nat) (x0 : Rat) :
    iter (eulerStepCode (integratorField U) dt 0) 0 k [x0] = [x0 + dt * partialSum U k] := by
  have := iter_integrator U dt 0 k x0
  simpa using this

/-- Heun: both evaluations of step `k` use sample `k`, so for an integrator Heun and Euler coincide. -/
theorem C08_heun_uses_same_sample (U : Nat → Rat) (dt : Rat) (i : Nat) (x : Rat) :
    heunStep (integratorField U) dt 0 i [x] = [x + dt * U i] := by
  simp [heunStep, integratorField, Solver.vadd, Solver.vscale]; grind

/-- `np.interp(t, xs, ys)` as the query of the history with records `(xs_k, [ys_k])` -/
def interpHist (xs ys : List Rat) : Hist :=
  { ts := xs, rows := ys.map (fun y => some [y]), n := xs.length, growable := false }

def npInterp (xs ys : List Rat) (t : Rat) : Except Hist.Err Hist.Vec := (interpHist xs ys).query t

theorem interpHist_wf (xs ys : List Rat) (h : xs.length = ys.length) (h1 : 1 ≤ xs.length) : (interpHist xs ys).WF := by
  refine ⟨rfl, h1, by simp [interpHist, h], ?_⟩
  intro i hi
  have hi' : i < ys.length := by simpa [interpHist, h] using hi
  exact ⟨[ys[i]], by simp [interpHist, hi']⟩

/-- at a grid point the interpolant returns exactly the sample (C19_query_at_record transported) -/
theorem C08_interp_at_grid (xs ys : List Rat) (h : xs.length = ys.length) (h1 : 1 ≤ xs.length) (hs : StrictSorted xs)
    (i : Nat) (hi : i < xs.length) : npInterp xs ys xs[i] = .ok [ys[i]'(by omega)] := by
  have hw := interpHist_wf xs ys h h1
  have hd : (interpHist xs ys).Dim 1 := by
    intro j v hv
    simp only [interpHist, List.getElem?_map] at hv
    cases hy : ys[j]? with
    | none => simp [hy] at hv
    | some y => simp [hy] at hv; subst hv; rfl
  have := C19_query_at_record (interpHist xs ys) hw hs 1 hd i hi
  have hi' : i < ys.length := by omega
  have hrow : (interpHist xs ys).row i = .ok [ys[i]] := by simp [Hist.row, interpHist, hi']
  unfold npInterp
  exact this.trans hrow

/-- clamped outside the grid -/
theorem C08_interp_clamp_left (xs ys : List Rat) (h : xs.length = ys.length) (h1 : 1 ≤ xs.length) (t : Rat)
    (ht : t ≤ xs.head (by intro e; simp [e] at h1)) : npInterp xs ys t = (interpHist xs ys).row 0 :=
  C19_query_before (interpHist xs ys) (interpHist_wf xs ys h h1) t ht

/-- linear between neighbouring grid points -/
theorem C08_interp_between (xs ys : List Rat) (h : xs.length = ys.length) (h1 : 1 ≤ xs.length) (hs : StrictSorted xs) (t : Rat)
    (i : Nat) (hi : i + 1 < xs.length) (ha : xs[i]'(by omega) ≤ t) (hb : t < xs[i+1])
    (hf : xs.head (by intro e; simp [e] at h1) < t) :
    npInterp xs ys t = (do let y0 ← (interpHist xs ys).row i; let y1 ← (interpHist xs ys).row (i+1);
                           pure (lerp (xs[i]'(by omega)) xs[i+1] t y0 y1)) :=
  C19_query_between (interpHist xs ys) (interpHist_wf xs ys h h1) hs t i hi ha hb hf

/-- Non-vacuity: samples 1, 4, 2 on the grid 0, 2, 4: interpolated at 1 → 5/2, at 3 → 3, clamped at -1 and 9. -/
example : exEq (npInterp [0, 2, 4] [1, 4, 2] 1) (.ok [5/2]) && exEq (npInterp [0, 2, 4] [1, 4, 2] 3) (.ok [3])
    && exEq (npInterp [0, 2, 4] [1, 4, 2] (-1)) (.ok [1]) && exEq (npInterp [0, 2, 4] [1, 4, 2] 9) (.ok [2]) = true := by decide +kernel

end PyRates.Inputs
