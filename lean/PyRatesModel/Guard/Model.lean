import PyRatesModel.Generated.Tables
/-
Decision logic behind "unsupported requests fail loudly" (C20), over the tables regenerated from the backend classes:
`BaseBackend._validate_solver` + the dispatch structure of every `_solve`, `_validate_backend_args`, the `SUPPORTS_*` flags.
-/
namespace PyRates.Guard
open PyRates.Tables

inductive Out
  | raise
  | runs (method : String)
deriving Repr, DecidableEq

def baseBackend : BackendT :=
  match backends.find? (·.name == "base") with
  | some b => b
  | none => { name := "base", supported := [], validatesFirst := false, branches := [], fallthrough := "?", hasOwnSolve := false,
              sparseJac := false, edgeDelayBuffer := false }

/-- the `_solve` method text that runs for backend `b` (its own or the inherited one), and the dispatch it performs -/
def dispatch (impl : BackendT) (s : String) : Option String :=
  match impl.branches.find? (fun br => br.1 == s) with
  | some br => some br.2
  | none => if impl.fallthrough == "super" then none else some impl.fallthrough

/-- what `backend._solve(solver=s, ...)` does for an instance of backend class `b` -/
def solveOutcome (b : BackendT) (s : String) : Out :=
  let own := b.hasOwnSolve
  -- own method first (if any): it validates against the class attribute of the *instance*
  let validates := if own then b.validatesFirst else baseBackend.validatesFirst
  if validates && !(b.supported.contains s) then .raise
  else
    let first := if own then dispatch b s else none
    match first with
    | some m => .runs m
    | none =>
      -- inherited / delegated `BaseBackend._solve`, which validates (again) against the instance's SUPPORTED_SOLVERS
      if baseBackend.validatesFirst && !(b.supported.contains s) then .raise
      else match dispatch baseBackend s with
        | some m => .runs m
        | none => .raise

/-- backends whose `_solve` consists of plain `if solver == '<name>'` tests (julia dispatches on a substring test and cannot run here) -/
def modelled : List BackendT := backends.filter (fun b => ["base", "torch", "jax", "fortran", "matlab"].contains b.name)

def solverUniverse : List String :=
  (backends.flatMap (·.supported)).eraseDups ++ ["bogus", "Euler", "rk4", ""]

inductive DelayKind | none | discrete | spread | discreteThenSpread | spreadThenDiscrete
deriving Repr, DecidableEq

structure Config where
  backend : String
  solver : String
  vectorize : Bool
  delay : DelayKind
  sparseJacobian : Bool
deriving Repr, DecidableEq

def fixedStep (s : String) : Bool := s == "euler" || s == "heun"

def usesRingBuffer (d : DelayKind) : Bool :=
  match d with
  | .discrete | .discreteThenSpread | .spreadThenDiscrete => true
  | _ => false

/-- one connection as `_add_matrix_delay` / `_add_edge_buffer` see it -/
inductive ConnKind | undelayed | ring | cascade
deriving Repr, DecidableEq

/-- `NetworkGraph._uses_edge_delay_buffer` after the connections have been processed in the given order, starting from `f`.
`sticky = true`: the source only ever executes `if use_ring_buffer: flag = True` (what `Tables.ringFlagSticky` reports for the current
source); `sticky = false`: every delayed connection executes `flag = use_ring_buffer`, so the last one wins. -/
def ringFlag (sticky : Bool) : Bool → List ConnKind → Bool
  | f, [] => f
  | f, c :: cs =>
    ringFlag sticky (if sticky then f || (c == .ring) else (if c == .undelayed then f else (c == .ring))) cs

/-- the ring-buffer clause of `mustRaise` for a network given by the list of its connections -/
def mustRaiseConns (b : BackendT) (solver : String) (conns : List ConnKind) : Bool :=
  ringFlag ringFlagSticky false conns && fixedStep solver && !b.edgeDelayBuffer

/-- must this request raise before returning a function or a result? -/
def mustRaise (c : Config) : Bool :=
  match backends.find? (·.name == c.backend) with
  | none => true
  | some b =>
    (solveOutcome b c.solver == .raise)
    || (c.vectorize && vectorizeForbiddenBackends.contains c.backend)
    || (usesRingBuffer c.delay && fixedStep c.solver && !b.edgeDelayBuffer)
    || (c.sparseJacobian && !b.sparseJac)

end PyRates.Guard
