import PyRatesModel.Hist.DDEHistory
/-! Helper lemmas for C19 (DDEHistory). -/
namespace PyRates.Hist

def StrictSorted : List Rat → Prop
  | [] => True
  | [_] => True
  | a :: b :: rest => a < b ∧ StrictSorted (b :: rest)

theorem sorted_head_lt (a : Rat) (ts : List Rat) (h : StrictSorted (a :: ts)) : ∀ x ∈ ts, a < x := by
  induction ts generalizing a with
  | nil => simp
  | cons b rest ih =>
    intro x hx
    simp only [StrictSorted] at h
    rcases List.mem_cons.mp hx with rfl | hx
    · exact h.1
    · have := ih b h.2 x hx; grind

theorem sorted_tail {a : Rat} {ts : List Rat} (h : StrictSorted (a :: ts)) : StrictSorted ts := by
  cases ts with
  | nil => trivial
  | cons b rest => exact h.2

/-- if ts[i] ≤ t < ts[i+1] in a strictly sorted list then bisect_right returns i+1 -/
theorem bisect_spec (ts : List Rat) (t : Rat) (i : Nat) (hs : StrictSorted ts)
    (hi : i + 1 < ts.length) (h1 : ts[i]'(by omega) ≤ t) (h2 : t < ts[i+1]) :
    bisectRight ts t = i + 1 := by
  induction ts generalizing i with
  | nil => simp at hi
  | cons a rest ih =>
    cases i with
    | zero =>
      cases rest with
      | nil => simp at hi
      | cons b rest2 =>
        simp at h1 h2
        simp [bisectRight, List.takeWhile, h1]
        have : ¬ (b ≤ t) := by grind
        simp [this]
    | succ j =>
      cases rest with
      | nil => simp at hi
      | cons b rest2 =>
        simp only [StrictSorted] at hs
        have hlt : a < (b :: rest2)[j]'(by simp at hi ⊢; omega) := by
          apply sorted_head_lt a (b :: rest2) (by simp [StrictSorted]; exact hs)
          exact List.getElem_mem _
        have hat : a ≤ t := by
          have : (a :: b :: rest2)[j+1] = (b :: rest2)[j]'(by simp at hi ⊢; omega) := by simp
          grind
        have := ih j hs.2 (by simp at hi ⊢; omega) (by simpa using h1) (by simpa using h2)
        simp [bisectRight, List.takeWhile, hat] at this ⊢
        exact this

theorem sorted_get_lt (ts : List Rat) (hs : StrictSorted ts) (i j : Nat) (hij : i < j) (hj : j < ts.length) :
    ts[i]'(by omega) < ts[j] := by
  induction ts generalizing i j with
  | nil => simp at hj
  | cons a rest ih =>
    cases j with
    | zero => omega
    | succ j' =>
      cases i with
      | zero =>
        simp only [List.getElem_cons_zero, List.getElem_cons_succ]
        exact sorted_head_lt a rest hs _ (List.getElem_mem _)
      | succ i' =>
        simp only [List.getElem_cons_succ]
        exact ih (sorted_tail hs) i' j' (by omega) (by simpa using hj)

theorem sorted_append (ts : List Rat) (t : Rat) (hs : StrictSorted ts)
    (hl : ∀ x ∈ ts.getLast?, x < t) : StrictSorted (ts ++ [t]) := by
  induction ts with
  | nil => trivial
  | cons a rest ih =>
    cases rest with
    | nil => simp [StrictSorted] at hl ⊢; exact hl
    | cons b rest2 =>
      simp only [List.cons_append, StrictSorted] at hs ⊢
      refine ⟨hs.1, ?_⟩
      apply ih hs.2
      intro x hx
      apply hl
      simpa [List.getLast?_cons_cons] using hx

end PyRates.Hist
