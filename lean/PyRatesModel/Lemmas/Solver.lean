import PyRatesModel.Solver.Fixed
/-! Helper lemmas for C03. -/
namespace PyRates.Solver

theorem iter_succ_left (step : Nat → Vec → Vec) (i k : Nat) (y : Vec) :
    iter step i (k+1) y = iter step (i+1) k (step i y) := rfl

theorem mod_zero_iff (i s idx : Nat) (hs : 0 < s) (h1 : i ≤ idx * s) (h2 : idx * s < i + s) :
    i % s = 0 ↔ idx * s = i := by
  constructor
  · intro hm
    have hd : s * (i / s) = i := by
      have := Nat.div_add_mod i s; omega
    generalize i / s = q at hd
    subst hd
    have a : q ≤ idx := by
      apply Nat.le_of_mul_le_mul_left (c := s) _ hs
      rw [Nat.mul_comm s idx]; exact h1
    have b : idx < q + 1 := by
      apply Nat.lt_of_mul_lt_mul_left (a := s)
      rw [Nat.mul_comm s idx, Nat.mul_add]; omega
    have : idx = q := by omega
    subst this; exact Nat.mul_comm _ _
  · intro h; rw [← h]; exact Nat.mul_mod_left _ _

theorem set_take_succ {α} (l : List α) (n : Nat) (x : α) (hn : n < l.length) :
    (l.set n x).take (n+1) = l.take n ++ [x] := by
  induction l generalizing n with
  | nil => simp at hn
  | cons a rest ih =>
    cases n with
    | zero => simp
    | succ k => simp at hn; simp [ih k hn]

/-- The storage loop, generalised over the loop state.  `idx` is the number of rows written so far,
`idx * s` the counter value at which the next row is due. -/
theorem loop_spec (g : Bool) (step : Nat → Vec → Vec) (s m : Nat) (hs : 0 < s) :
    ∀ (n i : Nat) (y : Vec) (idx : Nat) (rec : List (Option Vec)),
      i + n = m * s → rec.length = m → i ≤ idx * s → idx * s < i + s →
      loop g step s n i y idx rec =
        .ok (rec.take idx ++ (List.range (m - idx)).map (fun j => some (iter step i ((idx + j) * s - i) y))) := by
  intro n
  induction n with
  | zero =>
    intro i y idx rec hin hlen h1 h2
    have him : i = m * s := by omega
    have : idx = m := by
      subst him
      have a : m ≤ idx := Nat.le_of_mul_le_mul_right h1 hs
      have b : idx < m + 1 := by
        apply Nat.lt_of_mul_lt_mul_right (a := s)
        rw [Nat.add_mul]; omega
      omega
    subst this
    simp [loop, ← hlen]
  | succ n ih =>
    intro i y idx rec hin hlen h1 h2
    have hs0 : s ≠ 0 := by omega
    unfold loop
    simp only [hs0, if_false]
    by_cases hmod : i % s = 0
    · have heq := (mod_zero_iff i s idx hs h1 h2).mp hmod
      have hidx : idx < m := by
        apply Nat.lt_of_mul_lt_mul_right (a := s)
        omega
      simp only [hmod, if_true, hlen, hidx]
      rw [ih (i+1) (step i y) (idx+1) (rec.set idx (some y)) (by omega) (by simp [hlen])
            (by rw [Nat.add_mul]; omega) (by rw [Nat.add_mul]; omega)]
      congr 1
      rw [set_take_succ _ _ _ (by omega)]
      have hm : m - idx = (m - (idx + 1)) + 1 := by omega
      rw [hm, List.range_succ_eq_map, List.map_cons, List.append_assoc]
      congr 1
      simp only [List.singleton_append, List.map_map]
      congr 1
      · simp [heq, iter]
      · apply List.map_congr_left
        intro j _
        simp only [Function.comp]
        have e : (idx + (j + 1)) * s - i = ((idx + 1 + j) * s - (i + 1)) + 1 := by
          have : (idx + (j+1)) * s = idx * s + (j+1) * s := Nat.add_mul _ _ _
          have h3 : (idx + 1 + j) * s = idx * s + (j+1) * s := by
            rw [show idx + 1 + j = idx + (j+1) by omega]; exact Nat.add_mul _ _ _
          have : s ≤ (j+1) * s := Nat.le_mul_of_pos_left s (by omega)
          omega
        rw [e, iter_succ_left]
    · have hne : idx * s ≠ i := fun h => hmod ((mod_zero_iff i s idx hs h1 h2).mpr h)
      simp only [hmod, if_false]
      rw [ih (i+1) (step i y) idx rec (by omega) hlen (by omega) (by omega)]
      congr 2
      apply List.map_congr_left
      intro j _
      have hge : i + 1 ≤ (idx + j) * s := by
        have : (idx + j) * s = idx * s + j * s := Nat.add_mul _ _ _
        omega
      have e : (idx + j) * s - i = ((idx + j) * s - (i + 1)) + 1 := by omega
      rw [e, iter_succ_left]

theorem iter_add (step : Nat → Vec → Vec) (i a b : Nat) (y : Vec) :
    iter step i (a + b) y = iter step (i + a) b (iter step i a y) := by
  induction a generalizing i y with
  | zero => simp [iter]
  | succ a ih =>
    rw [show a + 1 + b = (a + b) + 1 by omega, iter_succ_left, ih, iter_succ_left]
    congr 1; omega

theorem scanOuter_spec (step : Nat → Vec → Vec) (s : Nat) (y0 : Vec) :
    ∀ (n j : Nat), scanOuter step s n (j * s) (iter step 0 (j * s) y0)
      = (List.range n).map (fun k => iter step 0 ((j + k) * s) y0) := by
  intro n
  induction n with
  | zero => intro j; simp [scanOuter]
  | succ n ih =>
    intro j
    rw [scanOuter, List.range_succ_eq_map, List.map_cons, List.map_map]
    congr 1
    have h0 : True := trivial
    · have h1 : j * s + s = (j + 1) * s := by rw [Nat.add_mul]; simp
      have h2 : iter step (j * s) s (iter step 0 (j * s) y0) = iter step 0 ((j + 1) * s) y0 := by
        rw [← h1, iter_add]; simp
      rw [h1, h2, ih (j + 1)]
      apply List.map_congr_left
      intro k _
      simp only [Function.comp]
      congr 2; omega

theorem pyRound_int (n : Int) : pyRound (n : Rat) = n := by
  unfold pyRound
  simp only [Rat.floor_intCast]
  have : ((n : Rat) - (n : Rat)) < 1/2 := by grind
  simp [this]

theorem pyRound_nat (n : Nat) : (pyRound (n : Rat)).toNat = n := by
  have := pyRound_int (n : Int)
  simp only [Rat.intCast_natCast] at this
  rw [this]; simp

/-- once every allocated row has been written, the guarded loop only integrates: the record is returned as it is -/
theorem loop_full (step : Nat → Vec → Vec) (s : Nat) (hs : 0 < s) :
    ∀ (n i : Nat) (y : Vec) (idx : Nat) (rec : List (Option Vec)), rec.length ≤ idx →
      loop true step s n i y idx rec = .ok rec := by
  intro n
  induction n with
  | zero => intro i y idx rec _; rfl
  | succ n ih =>
    intro i y idx rec h
    have hs0 : s ≠ 0 := by omega
    have hlt : ¬ idx < rec.length := by omega
    unfold loop
    by_cases hmod : i % s = 0
    · simp only [hs0, if_false, hmod, if_true, hlt]
      exact ih (i+1) (step i y) idx rec h
    · simp only [hs0, if_false, hmod]
      exact ih (i+1) (step i y) idx rec h

/-- what row `k` of the record holds after the guarded loop has run `steps` steps in total: the state after `k·s` steps if the loop
got that far, never-written memory otherwise -/
def rowAt (step : Nat → Vec → Vec) (s steps : Nat) (i : Nat) (y : Vec) (k : Nat) : Option Vec :=
  if k * s < steps then some (iter step i (k * s - i) y) else none

/-- The guarded storage loop for **every** number of steps, generalised over the loop state: rows below `idx` are kept, rows from
`idx` on are the states at their sampling instants as far as the integration reaches. -/
theorem loop_guarded_spec (step : Nat → Vec → Vec) (s m steps : Nat) (hs : 0 < s) :
    ∀ (n i : Nat) (y : Vec) (idx : Nat) (rec : List (Option Vec)),
      i + n = steps → rec.length = m → idx ≤ m → i ≤ idx * s → idx * s < i + s →
      rec.drop idx = List.replicate (m - idx) none →
      loop true step s n i y idx rec =
        .ok (rec.take idx ++ (List.range (m - idx)).map (fun j => rowAt step s steps i y (idx + j))) := by
  intro n
  induction n with
  | zero =>
    intro i y idx rec hin hlen hle h1 h2 hrest
    have hi : i = steps := by omega
    simp only [loop]
    congr 1
    have : (List.range (m - idx)).map (fun j => rowAt step s steps i y (idx + j)) = List.replicate (m - idx) none := by
      rw [List.eq_replicate_iff]
      refine ⟨by simp, ?_⟩
      intro b hb
      simp only [List.mem_map, List.mem_range] at hb
      obtain ⟨j, _, rfl⟩ := hb
      unfold rowAt
      have : ¬ (idx + j) * s < steps := by
        have : (idx + j) * s = idx * s + j * s := Nat.add_mul _ _ _
        omega
      simp [this]
    rw [this, ← hrest, List.take_append_drop]
  | succ n ih =>
    intro i y idx rec hin hlen hle h1 h2 hrest
    have hs0 : s ≠ 0 := by omega
    by_cases hfull : idx = m
    · subst hfull
      rw [loop_full step s hs (n+1) i y idx rec (by omega)]
      simp [← hlen]
    · have hidx : idx < m := by omega
      unfold loop
      simp only [hs0, if_false]
      by_cases hmod : i % s = 0
      · have heq := (mod_zero_iff i s idx hs h1 h2).mp hmod
        simp only [hmod, if_true, hlen, hidx]
        rw [ih (i+1) (step i y) (idx+1) (rec.set idx (some y)) (by omega) (by simp [hlen]) (by omega)
              (by rw [Nat.add_mul]; omega) (by rw [Nat.add_mul]; omega)
              (by
                rw [List.drop_set_of_lt (by omega)]
                have := congrArg (List.drop 1) hrest
                rw [List.drop_drop] at this
                rw [this, List.drop_replicate, Nat.sub_sub])]
        congr 1
        rw [set_take_succ _ _ _ (by omega)]
        have hm : m - idx = (m - (idx + 1)) + 1 := by omega
        rw [hm, List.range_succ_eq_map, List.map_cons, List.append_assoc]
        congr 1
        simp only [List.singleton_append, List.map_map]
        congr 1
        · unfold rowAt
          have : i < steps := by omega
          simp [heq, this, iter]
        · apply List.map_congr_left
          intro j _
          simp only [Function.comp]
          unfold rowAt
          have e1 : idx + (j + 1) = idx + 1 + j := by omega
          rw [e1]
          by_cases hlt : (idx + 1 + j) * s < steps
          · simp only [hlt, if_true]
            congr 1
            have h3 : (idx + 1 + j) * s = idx * s + (j+1) * s := by
              rw [show idx + 1 + j = idx + (j+1) by omega]; exact Nat.add_mul _ _ _
            have : s ≤ (j+1) * s := Nat.le_mul_of_pos_left s (by omega)
            have e : (idx + 1 + j) * s - i = ((idx + 1 + j) * s - (i + 1)) + 1 := by omega
            rw [e, iter_succ_left]
          · simp [hlt]
      · have hne : idx * s ≠ i := fun h => hmod ((mod_zero_iff i s idx hs h1 h2).mpr h)
        simp only [hmod, if_false]
        rw [ih (i+1) (step i y) idx rec (by omega) hlen hle (by omega) (by omega) hrest]
        congr 2
        apply List.map_congr_left
        intro j _
        unfold rowAt
        by_cases hlt : (idx + j) * s < steps
        · simp only [hlt, if_true]
          congr 1
          have hge : i + 1 ≤ (idx + j) * s := by
            have : (idx + j) * s = idx * s + j * s := Nat.add_mul _ _ _
            omega
          have e : (idx + j) * s - i = ((idx + j) * s - (i + 1)) + 1 := by omega
          rw [e, iter_succ_left]
        · simp [hlt]


end PyRates.Solver
