import PyRatesModel.Str.Replace
/-! Helper lemmas for the `replace` refinement (C15 / C05). -/
namespace PyRates.Str

theorem pre_nil (s : S) : pre [] s = true := by cases s <;> rfl

theorem pre_append (t r : S) : pre t (t ++ r) = true := by
  induction t with
  | nil => exact pre_nil _
  | cons a t ih => simp [pre, ih]

/-- a prefix match splits the string -/
theorem pre_split (t s : S) (h : pre t s = true) : s = t ++ s.drop t.length := by
  induction t generalizing s with
  | nil => simp
  | cons a t ih =>
    cases s with
    | nil => simp [pre] at h
    | cons b s =>
      simp only [pre, Bool.and_eq_true, beq_iff_eq] at h
      obtain ⟨hab, hp⟩ := h
      subst hab
      simp only [List.length_cons, List.drop_succ_cons, List.cons_append, List.cons.injEq, true_and]
      exact ih s hp

/-- what `find` returns -/
theorem find_some (t s : S) (i : Nat) (h : find t s = some i) :
    pre t (s.drop i) = true ∧ (∀ j, j < i → pre t (s.drop j) = false) ∧ i ≤ s.length := by
  induction s generalizing i with
  | nil =>
    simp only [find] at h
    split at h
    · injection h with h; subst h; simpa
    · cases h
  | cons c r ih =>
    simp only [find] at h
    split at h
    · injection h with h; subst h
      rename_i hp
      exact ⟨by simpa using hp, by intro j hj; omega, by omega⟩
    · rename_i hp
      cases hf : find t r with
      | none => simp [hf] at h
      | some k =>
        simp only [hf, Option.map_some, Option.some.injEq] at h
        subst h
        obtain ⟨h1, h2, h3⟩ := ih k hf
        refine ⟨by simpa using h1, ?_, by simp; omega⟩
        intro j hj
        cases j with
        | zero => simpa using hp
        | succ j' => simpa using h2 j' (by omega)

theorem find_none (t s : S) (h : find t s = none) : ∀ j, pre t (s.drop j) = false := by
  induction s with
  | nil =>
    simp only [find] at h
    split at h
    · cases h
    · rename_i hp; intro j; simpa using hp
  | cons c r ih =>
    simp only [find] at h
    split at h
    · cases h
    · rename_i hp
      cases hf : find t r with
      | some k => simp [hf] at h
      | none =>
        intro j
        cases j with
        | zero => simpa using hp
        | succ j' => simpa using ih hf j'

variable (A term repl : S)

/-- skipping `k` characters of a replaced occurrence -/
theorem spec_skip (k : Nat) (b : Bool) (s : S) (hk : k ≤ s.length) (hk0 : 0 < k) :
    spec A term repl k b s = spec A term repl 0 false (s.drop k) := by
  induction k generalizing b s with
  | zero => omega
  | succ k ih =>
    cases s with
    | nil => simp at hk
    | cons c rest =>
      simp only [spec, List.drop_succ_cons]
      by_cases hk1 : k = 0
      · subst hk1; simp
      · exact ih false rest (by simpa using hk) (by omega)

/-- with a non-separator before it, a run of non-separator characters is copied -/
theorem spec_copy_run (t rest : S) (ht : ∀ c ∈ t, A.contains c = false) :
    spec A term repl 0 false (t ++ rest) = t ++ spec A term repl 0 false rest := by
  induction t with
  | nil => rfl
  | cons c t ih =>
    have hc : A.contains c = false := ht c (by simp)
    simp only [List.cons_append, spec, Bool.false_and, Bool.false_eq_true, if_false, hc, List.cons.injEq, true_and]
    exact ih (fun d hd => ht d (by simp [hd]))

/-- separator flag in front of position `i` of `s` when the flag at the start is `b` -/
def flagAt (b : Bool) (s : S) (i : Nat) : Bool :=
  if i = 0 then b else sepOk A s[i - 1]?

/-- if no occurrence of `term` starts before position `i`, the first `i` characters are copied -/
theorem spec_copy_prefix (hterm : term ≠ []) (i : Nat) (b : Bool) (s : S) (hi : i ≤ s.length)
    (hno : ∀ j, j < i → pre term (s.drop j) = false) :
    spec A term repl 0 b s = s.take i ++ spec A term repl 0 (flagAt A b s i) (s.drop i) := by
  induction i generalizing b s with
  | zero => simp [flagAt]
  | succ i ih =>
    cases s with
    | nil => simp at hi
    | cons c rest =>
      have h0 : pre term (c :: rest) = false := by simpa using hno 0 (by omega)
      simp only [spec, h0, Bool.and_false, Bool.false_and, Bool.false_eq_true, if_false, List.take_succ_cons,
        List.drop_succ_cons, List.cons_append, List.cons.injEq, true_and]
      rw [ih (A.contains c) rest (by simpa using hi) (fun j hj => by simpa using hno (j+1) (by omega))]
      congr 2
      unfold flagAt
      by_cases hi0 : i = 0
      · subst hi0; simp [sepOk]
      · simp only [hi0, if_false, Nat.add_eq_zero_iff, Nat.succ_ne_self, and_false, Nat.add_sub_cancel]
        congr 1
        cases i with
        | zero => omega
        | succ i' => simp

end PyRates.Str
