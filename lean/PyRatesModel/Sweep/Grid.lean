import PyRatesModel.Solver.Fixed
/-
Model of `pyrates/utility.py`:
  linearize_grid (105-135): `pd.DataFrame(grid)` for equally long columns, otherwise / with `permute`
      `np.stack(np.meshgrid(*vals), -1).reshape(-1, k)` - numpy's default 'xy' indexing swaps the first two axes, so the second
      parameter varies slowest, then the first, then the third ... the last one fastest;
  adapt_circuit (138-186): every key of the grid addresses the cross product `nodes × vars` (or edges × vars);
  grid_search (189-275): one copy of the circuit per table row, all copies in one unconnected network that is integrated as a single
      state vector; the copy of row `idx` is labelled `<name>_<idx>` and the table's index is replaced by these labels.
-/
namespace PyRates.Sweep
open PyRates.Solver

abbrev Row := List Rat

/-- all combinations, the first list varying slowest -/
def cart : List (List Rat) → List Row
  | [] => [[]]
  | v :: vs => v.flatMap (fun x => (cart vs).map (x :: ·))

def swap01 {α} : List α → List α
  | a :: b :: r => b :: a :: r
  | l => l

/-- `np.stack(np.meshgrid(*vals), -1).reshape(-1, k)` -/
def meshRows (vals : List (List Rat)) : List Row := (cart (swap01 vals)).map swap01

/-- `pd.DataFrame(grid)` for columns of length `n`: row `i` holds the i-th entry of every column -/
def zipRows (vals : List (List Rat)) (n : Nat) : List Row := (List.range n).map (fun i => vals.map (fun v => v.getD i 0))

/-- `linearize_grid` on the columns in key order; `none` = ValueError -/
def linearize (vals : List (List Rat)) (permute : Bool) : Option (List Row) :=
  match vals with
  | [] => some []
  | v :: vs =>
    if vs.all (fun w => w.length == v.length) && !permute then some (zipRows vals v.length)
    else if permute then some (meshRows vals)
    else none

/-- targets of one grid key in `adapt_circuit`: the cross product of the listed nodes (or edges) and variables -/
def targets (nodes vars : List String) : List (String × String) := nodes.flatMap (fun n => vars.map (fun v => (n, v)))

/-! ### the combined network: no edge joins two copies, the state vector is the concatenation of the copies' states -/

def flat (ys : List Vec) : Vec := ys.flatten

/-- cut a flat vector into blocks of the given sizes -/
def unflat : List Nat → Vec → List Vec
  | [], _ => []
  | d :: ds, y => y.take d :: unflat ds (y.drop d)

/-- vector field of the combined network: copy `j` is driven by its own block only -/
def flatField (fs : List Field) (dims : List Nat) : Field := fun t y =>
  flat (List.zipWith (fun f b => f t b) fs (unflat dims y))

end PyRates.Sweep
