/-
Model of `pyrates/backend/parser.py: replace` (lines 684-745), default flags (`rhs_only = lhs_only = False`; no caller in
the code base passes them).  Strings are `List Char`.

```
eq_new = ""; prev_sign = None; idx = eq.find(term)
while idx != -1 and term:
    idx_follow_op = idx+len(term)
    sign_before = eq[idx-1] if idx > 0 else prev_sign
    left_ok  = sign_before is None or sign_before in allowed_follow_ops
    right_ok = idx_follow_op == len(eq) or eq[idx_follow_op] in allowed_follow_ops
    if left_ok and right_ok:  eq_new += eq[:idx] + replacement
    else:                     eq_new += eq[:idx_follow_op]
    prev_sign = eq[idx_follow_op-1]; eq = eq[idx_follow_op:]; idx = eq.find(term)
eq_new += eq
```
-/
namespace PyRates.Str

abbrev S := List Char

/-- `t` is a prefix of `s` -/
def pre : S → S → Bool
  | [], _ => true
  | _ :: _, [] => false
  | a :: t, b :: s => a == b && pre t s

/-- `str.find`: index of the first occurrence of `t` in `s` -/
def find (t : S) : S → Option Nat
  | [] => if pre t [] then some 0 else none
  | c :: r => if pre t (c :: r) then some 0 else (find t r).map (· + 1)

def sepOk (A : S) : Option Char → Bool
  | none => true
  | some c => A.contains c

/-- the `while` loop; `fuel` bounds the number of iterations (each consumes at least one character) -/
def replaceLoop (A term repl : S) : (fuel : Nat) → (prev : Option Char) → (eq : S) → (acc : S) → S
  | 0, _, eq, acc => acc ++ eq
  | fuel + 1, prev, eq, acc =>
    match find term eq with
    | none => acc ++ eq
    | some idx =>
      let follow := idx + term.length
      let before := if idx > 0 then eq[idx - 1]? else prev
      let leftOk := sepOk A before
      let rightOk := sepOk A eq[follow]?
      let acc' := if leftOk && rightOk then acc ++ eq.take idx ++ repl else acc ++ eq.take follow
      replaceLoop A term repl fuel eq[follow - 1]? (eq.drop follow) acc'

/-- `replace(eq, term, replacement)` with the allowed follow-up signs `A` -/
def replace (A eq term repl : S) : S :=
  if term = [] then eq else replaceLoop A term repl (eq.length + 1) none eq []

/-! ### Specification: replace exactly the occurrences delimited on both sides by a separator or a border of the string.
`skip` counts characters of an occurrence that has just been replaced; `b` says whether the previous character is a
separator (or the start of the string). -/
def spec (A term repl : S) : (skip : Nat) → (b : Bool) → S → S
  | _, _, [] => []
  | skip + 1, _, _ :: rest => spec A term repl skip false rest
  | 0, b, c :: rest =>
    if b && pre term (c :: rest) && sepOk A (c :: rest)[term.length]? then
      repl ++ spec A term repl (term.length - 1) false rest
    else c :: spec A term repl 0 (A.contains c) rest

end PyRates.Str
