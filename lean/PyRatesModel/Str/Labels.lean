/-
Model of `ComputeGraph._generate_unique_label` (backend/computegraph.py), as it is after the label-collision fix:

```
if label == "t": return label
if label in self._node_names:
    n = self._node_names[label] + 1
    label_new = f"{label}_v{n}"
    while label_new in self._node_names:
        n += 1; label_new = f"{label}_v{n}"
    self._node_names[label] = n
    self._node_names[label_new] = 0
else:
    label_new = label; self._node_names[label] = 0
return label_new
```
`_node_names` is modelled as an association list; the `while` loop takes a fuel argument.
-/
namespace PyRates.Labels

abbrev Names := List (String × Nat)

def keys (st : Names) : List String := st.map (·.1)

def get? (st : Names) (k : String) : Option Nat := (st.find? (·.1 == k)).map (·.2)

def set (st : Names) (k : String) (v : Nat) : Names :=
  if (keys st).contains k then st.map (fun kv => if kv.1 == k then (k, v) else kv) else st ++ [(k, v)]

def cand (label : String) (n : Nat) : String := label ++ "_v" ++ toString n

/-- the `while label_new in self._node_names` search -/
def search (st : Names) (label : String) : (fuel n : Nat) → Option Nat
  | 0, _ => none
  | fuel + 1, n => if (keys st).contains (cand label n) then search st label fuel (n + 1) else some n

def genLabel (fuel : Nat) (st : Names) (label : String) : Option (String × Names) :=
  if label == "t" then some (label, st)
  else match get? st label with
    | none => some (label, set st label 0)
    | some c =>
      match search st label fuel (c + 1) with
      | none => none
      | some n => some (cand label n, set (set st label n) (cand label n) 0)

/-- labels handed out for a sequence of requests -/
def labelsOf (fuel : Nat) : Names → List String → Option (List String)
  | _, [] => some []
  | st, l :: rest => do
    let (out, st') ← genLabel fuel st l
    let outs ← labelsOf fuel st' rest
    pure (out :: outs)

end PyRates.Labels
