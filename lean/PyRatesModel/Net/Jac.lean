import PyRatesModel.Net.Eval
/-
Symbolic Jacobian of the reference semantics (C12): the right-hand side of every state variable is *inlined* into a closed expression
over the global state symbols `node/op/var` (algebraic variables replaced by their definitions, input variables by the sum of their
sources, constants by their values), then differentiated symbolically.
Mirrors `ComputeGraph._get_symbolic_rhs` (expansion of algebraic variables) + `sympy.diff` per (row, column).
-/
namespace PyRates.Net

def pathName (p : Path) : String := p.node ++ "/" ++ p.op ++ "/" ++ p.var

/-- formal derivative with respect to the symbol `x`; the derivative of a named function `f` is the named function `f'` -/
def D (x : String) : Expr → Expr
  | .num _ => .num 0
  | .var y => if y == x then .num 1 else .num 0
  | .add a b => .add (D x a) (D x b)
  | .sub a b => .sub (D x a) (D x b)
  | .mul a b => .add (.mul (D x a) b) (.mul a (D x b))
  | .neg a => .neg (D x a)
  | .pow a k => if k == 0 then .num 0 else .mul (.mul (.num (k : Rat)) (.pow a (k - 1))) (D x a)
  | .call1 f a => .mul (.call1 (f ++ "'") a) (D x a)
  | .call2 f a b => .add (.mul (.call2 (f ++ "'1") a b) (D x a)) (.mul (.call2 (f ++ "'2") a b) (D x b))

def sumExprs : List Expr → Expr
  | [] => .num 0
  | [e] => e
  | e :: rest => .add e (sumExprs rest)

/-- substitute every variable of an operator-local expression by a closed expression -/
def substAll (σ : String → Expr) : Expr → Expr
  | .num q => .num q
  | .var x => σ x
  | .add a b => .add (substAll σ a) (substAll σ b)
  | .sub a b => .sub (substAll σ a) (substAll σ b)
  | .mul a b => .mul (substAll σ a) (substAll σ b)
  | .neg a => .neg (substAll σ a)
  | .pow a k => .pow (substAll σ a) k
  | .call1 f a => .call1 f (substAll σ a)
  | .call2 f a b => .call2 f (substAll σ a) (substAll σ b)

/-- closed expression (over state symbols) for the value of variable `p` -/
def closedOf (c : Circuit) : Nat → Path → Option Expr
  | 0, _ => none
  | fuel + 1, p => do
    let n ← c.findNode p.node
    let o ← n.findOp p.op
    let d ← o.findVar p.var
    match o.kindOf d with
    | .state => some (.var (pathName p))
    | .const => some (.num d.value)
    | .alg => do
      let e ← o.defEq d.name
      let names := (fv e.rhs).eraseDups
      let subs ← names.mapM (fun x => (closedOf c fuel ⟨p.node, p.op, x⟩).map (fun ex => (x, ex)))
      some (substAll (fun x => match subs.find? (·.1 == x) with | some kv => kv.2 | none => .var x) e.rhs)
    | .input =>
      let fs := n.feeders d.name
      let es := c.edgesInto ⟨n.path, o.name, d.name⟩
      if fs.isEmpty && es.isEmpty then some (.num d.value)
      else do
        let a ← fs.mapM (fun o' => closedOf c fuel ⟨n.path, o'.name, d.name⟩)
        let b ← es.mapM (fun e => (closedOf c fuel e.src).map (fun ex => Expr.mul (.num e.weight) ex))
        some (sumExprs (a ++ b))

/-- closed right-hand side of a state variable's differential equation -/
def closedRhs (c : Circuit) (fuel : Nat) (p : Path) (e : Eqn) : Option Expr := do
  let names := (fv e.rhs).eraseDups
  let subs ← names.mapM (fun x => (closedOf c fuel ⟨p.node, p.op, x⟩).map (fun ex => (x, ex)))
  some (substAll (fun x => match subs.find? (·.1 == x) with | some kv => kv.2 | none => .var x) e.rhs)

/-- the Jacobian as a table: for every pair of state variables (row = equation of `pi`, column = `pj`) the value of ∂f_i/∂y_j at `σ` -/
def jacobian (I : Interp) (c : Circuit) (σ : Path → Rat) (fuel : Nat) : Option (List (Path × Path × Rat)) := do
  let sts := c.stateEqs
  let env : String → Rat := fun s => match sts.find? (fun q => pathName q.1 == s) with
    | some q => σ q.1
    | none => 0
  let rows ← sts.mapM (fun (pi, _, _, e) => do
    let f ← closedRhs c fuel pi e
    pure (sts.map (fun (pj, _, _, _) => (pi, pj, eval I env (D (pathName pj) f)))))
  pure rows.flatten

end PyRates.Net
