import PyRatesModel.Net.Syntax
/-
Executable reference evaluator (fuel-bounded resolution of algebraic / input dependencies) and the *checker* that decides
`IsSolution` for a concrete assignment.  The evaluator is untrusted: every answer the driver gives has been validated by
`checkSolution`, whose soundness and completeness w.r.t. the specification are proved in `Props/C01.lean`.
-/
namespace PyRates.Net

def Circuit.findNode (c : Circuit) (p : String) : Option Node := c.nodes.find? (·.path == p)
def Node.findOp (n : Node) (o : String) : Option Op := n.ops.find? (·.name == o)
def Op.findVar (o : Op) (x : String) : Option VarDecl := o.vars.find? (·.name == x)

def sumOpt (l : List (Option Rat)) : Option Rat :=
  l.foldl (fun acc x => match acc, x with | some a, some b => some (a + b) | _, _ => none) (some 0)

/-- partial environment evaluation: `none` if a referenced variable cannot be resolved -/
def evalOpt (I : Interp) (ρ : String → Option Rat) : Expr → Option Rat
  | .num q => some q
  | .var x => ρ x
  | .add a b => do pure ((← evalOpt I ρ a) + (← evalOpt I ρ b))
  | .sub a b => do pure ((← evalOpt I ρ a) - (← evalOpt I ρ b))
  | .mul a b => do pure ((← evalOpt I ρ a) * (← evalOpt I ρ b))
  | .neg a => do pure (- (← evalOpt I ρ a))
  | .pow a k => do pure ((← evalOpt I ρ a) ^ k)
  | .call1 f a => do pure (I f [← evalOpt I ρ a])
  | .call2 f a b => do pure (I f [← evalOpt I ρ a, ← evalOpt I ρ b])

/-- value of variable `p` under state `σ`, resolving dependencies to depth `fuel` -/
def valOf (I : Interp) (c : Circuit) (ext : Path → List Rat) (σ : Path → Rat) : Nat → Path → Option Rat
  | 0, _ => none
  | fuel + 1, p => do
    let n ← c.findNode p.node
    let o ← n.findOp p.op
    let d ← o.findVar p.var
    match o.kindOf d with
    | .state => some (σ p)
    | .const => some d.value
    | .alg => do
      let e ← o.defEq d.name
      evalOpt I (fun x => valOf I c ext σ fuel ⟨p.node, p.op, x⟩) e.rhs
    | .input =>
      let fs := n.feeders d.name
      let es := c.edgesInto ⟨n.path, o.name, d.name⟩
      let xs := ext ⟨n.path, o.name, d.name⟩
      if fs.isEmpty && es.isEmpty && xs.isEmpty then some d.value
      else do
        let a ← sumOpt (fs.map (fun o' => valOf I c ext σ fuel ⟨n.path, o'.name, d.name⟩))
        let b ← sumOpt (es.map (fun e => (valOf I c ext σ fuel e.src).map (e.weight * ·)))
        pure (a + b + xs.sum)

def Circuit.paths (c : Circuit) : List Path :=
  c.nodes.flatMap (fun n => n.ops.flatMap (fun o => o.vars.map (fun d => ⟨n.path, o.name, d.name⟩)))

/-- all state variables with their differential equation, in declaration order -/
def Circuit.stateEqs (c : Circuit) : List (Path × Node × Op × Eqn) :=
  c.nodes.flatMap (fun n => n.ops.flatMap (fun o => o.eqs.filterMap (fun e =>
    if e.de then some (⟨n.path, o.name, e.lhs⟩, n, o, e) else none)))

def tableLookup (m : List (Path × Rat)) (p : Path) : Rat :=
  match m.find? (fun kv => kv.1 == p) with
  | some kv => kv.2
  | none => 0

/-- decide `IsSolution` for a concrete assignment -/
def checkSolution (I : Interp) (c : Circuit) (ext : Path → List Rat) (σ ρ : Path → Rat) : Bool :=
  c.nodes.all fun n => n.ops.all fun o => o.vars.all fun d =>
    let p : Path := ⟨n.path, o.name, d.name⟩
    match o.kindOf d with
    | .state => ρ p == σ p
    | .const => ρ p == d.value
    | .input => ρ p == inputValue c ext ρ n o d
    | .alg => match o.defEq d.name with
      | some e => ρ p == eval I (fun x => ρ ⟨n.path, o.name, x⟩) e.rhs
      | none => true

/-- evaluate the whole network: the table of all variable values and the derivative of every state variable; `none` when
something cannot be resolved (undeclared name, cyclic dependency, fuel) or the result fails the checker. -/
def solve (I : Interp) (c : Circuit) (ext : Path → List Rat) (σ : Path → Rat) (fuel : Nat) : Option (List (Path × Rat) × List (Path × Rat)) := do
  let tbl ← c.paths.mapM (fun p => (valOf I c ext σ fuel p).map (fun v => (p, v)))
  let ρ := tableLookup tbl
  if checkSolution I c ext σ ρ then
    let ds := c.stateEqs.map (fun (p, n, o, e) => (p, deriv I ρ n o e))
    some (tbl, ds)
  else none

end PyRates.Net

namespace PyRates.Net

/-- one fixed-step integration step of the whole network (Euler, or Heun with both evaluations at the same step index, as
`_solve_heun` does); the state is the table of state-variable values -/
def stepNet (I : Interp) (c : Circuit) (ext : Path → List Rat) (fuel : Nat) (heun : Bool) (dt : Rat)
    (σ : List (Path × Rat)) : Option (List (Path × Rat)) := do
  let (_, k1) ← solve I c ext (tableLookup σ) fuel
  let σ1 := σ.map (fun (p, v) => (p, v + dt * tableLookup k1 p))
  if heun then
    let (_, k2) ← solve I c ext (tableLookup σ1) fuel
    pure (σ.map (fun (p, v) => (p, v + dt / 2 * (tableLookup k1 p + tableLookup k2 p))))
  else pure σ1

/-- trajectory: the list of states before each of `steps` steps; `extAt k` are the extrinsic inputs during step `k` -/
def trajectory (I : Interp) (c : Circuit) (extAt : Nat → Path → List Rat) (fuel : Nat) (heun : Bool) (dt : Rat) :
    (steps k : Nat) → (σ : List (Path × Rat)) → Option (List (List (Path × Rat)))
  | 0, _, _ => some []
  | n + 1, k, σ => do
    let σ' ← stepNet I c (extAt k) fuel heun dt σ
    let rest ← trajectory I c extAt fuel heun dt n (k + 1) σ'
    pure (σ :: rest)

end PyRates.Net

namespace PyRates.Net

/-- an edge with a discrete delay of `delay ≥ 1` integration steps -/
structure DEdge where
  src : Path
  tgt : Path
  weight : Rat
  delay : Nat
deriving Repr

/-- trajectory of a network with discretely delayed edges (C09's specification): during step `k` a delayed edge delivers
`weight × (value of its source variable at step k − delay)`, and `0` before the simulation started; undelayed edges are ordinary
edges of `c`.  `hist` holds the value tables of the previous steps, newest first. -/
def trajectoryD (I : Interp) (c : Circuit) (des : List DEdge) (extAt : Nat → Path → List Rat) (fuel : Nat) (heun : Bool) (dt : Rat) :
    (steps k : Nat) → (σ : List (Path × Rat)) → (hist : List (List (Path × Rat))) → Option (List (List (Path × Rat)))
  | 0, _, _, _ => some []
  | n + 1, k, σ, hist => do
    let ext : Path → List Rat := fun p =>
      extAt k p ++ (des.filter (fun e => e.tgt == p)).map (fun e =>
        match hist[e.delay - 1]? with
        | some tbl => e.weight * tableLookup tbl e.src
        | none => 0)
    let (tbl, k1) ← solve I c ext (tableLookup σ) fuel
    let σ1 := σ.map (fun (p, v) => (p, v + dt * tableLookup k1 p))
    let σ' ← if heun then do
        let (_, k2) ← solve I c ext (tableLookup σ1) fuel
        pure (σ.map (fun (p, v) => (p, v + dt / 2 * (tableLookup k1 p + tableLookup k2 p))))
      else pure σ1
    let rest ← trajectoryD I c des extAt fuel heun dt n (k + 1) σ' (tbl :: hist)
    pure (σ :: rest)

end PyRates.Net
