/-
Reference semantics of a PyRates network at the level the user writes it (operators, nodes, weighted edges) — the
specification side of C01 / C04 / C06 / C07 / C08 / C16 / C17.  Hierarchy is already flattened: a node path is the
slash-joined label path; per-node overrides are already applied to `VarDecl.value` (C07 checks that step separately).

Mirrors, at the level of *meaning*, `OperatorGraph.__init__` (an operator input is fed by every operator of the same node
whose output variable has the same name), `CircuitTemplate.apply` / `NetworkGraph` (edges add `weight * source` to the
target input variable) and `OperatorTemplate.apply` (defaults).
-/
namespace PyRates.Net

inductive Expr
  | num (q : Rat)
  | var (x : String)
  | add (a b : Expr)
  | sub (a b : Expr)
  | mul (a b : Expr)
  | neg (a : Expr)
  | pow (a : Expr) (k : Nat)
  | call1 (f : String) (a : Expr)
  | call2 (f : String) (a b : Expr)
deriving Repr, Inhabited

/-- interpretation of the named functions: a parameter of every statement (uninterpreted) -/
abbrev Interp := String → List Rat → Rat

def eval (I : Interp) (ρ : String → Rat) : Expr → Rat
  | .num q => q
  | .var x => ρ x
  | .add a b => eval I ρ a + eval I ρ b
  | .sub a b => eval I ρ a - eval I ρ b
  | .mul a b => eval I ρ a * eval I ρ b
  | .neg a => - eval I ρ a
  | .pow a k => (eval I ρ a) ^ k
  | .call1 f a => I f [eval I ρ a]
  | .call2 f a b => I f [eval I ρ a, eval I ρ b]

def fv : Expr → List String
  | .num _ => []
  | .var x => [x]
  | .add a b | .sub a b | .mul a b | .call2 _ a b => fv a ++ fv b
  | .neg a | .pow a _ | .call1 _ a => fv a

/-- how a variable is declared in the operator template -/
inductive Decl | input | other
deriving Repr, DecidableEq

structure VarDecl where
  name : String
  decl : Decl
  value : Rat          -- declared (or overridden) default / initial value
deriving Repr

structure Eqn where
  lhs : String
  de : Bool             -- differential equation (`x' = …` / `d/dt * x = …`)
  rhs : Expr
deriving Repr

structure Op where
  name : String
  vars : List VarDecl
  eqs : List Eqn
  output : Option String
deriving Repr

structure Node where
  path : String
  ops : List Op
deriving Repr

structure Path where
  node : String
  op : String
  var : String
deriving Repr, DecidableEq, BEq, Hashable

structure Edge where
  src : Path
  tgt : Path
  weight : Rat
deriving Repr

structure Circuit where
  nodes : List Node
  edges : List Edge
deriving Repr

/-- role of a declared variable inside its operator -/
inductive Kind | state | alg | input | const
deriving Repr, DecidableEq

def Op.kindOf (o : Op) (d : VarDecl) : Kind :=
  if o.eqs.any (fun e => e.lhs == d.name && e.de) then .state
  else if o.eqs.any (fun e => e.lhs == d.name && !e.de) then .alg
  else if d.decl == .input then .input
  else .const

/-- the defining equation of an algebraic variable: the first non-differential equation with that left-hand side -/
def Op.defEq (o : Op) (x : String) : Option Eqn := o.eqs.find? (fun e => e.lhs == x && !e.de)
def Op.deEq (o : Op) (x : String) : Option Eqn := o.eqs.find? (fun e => e.lhs == x && e.de)

/-- operators of the node that feed input variable `x` of operator `o`: every *other-or-same-named* operator whose output
variable is called `x` -/
def Node.feeders (n : Node) (x : String) : List Op := n.ops.filter (fun o' => o'.output == some x)

def Circuit.edgesInto (c : Circuit) (p : Path) : List Edge := c.edges.filter (fun e => e.tgt == p)

/-- value an input variable must have: its declared default if nothing connects to it, otherwise the sum over all same-node
feeders, over **all** incoming edges (a multiset: parallel edges count separately) of weight × source, and over all
extrinsic inputs `ext p` addressed to it at the current time (C08) -/
def inputValue (c : Circuit) (ext : Path → List Rat) (ρ : Path → Rat) (n : Node) (o : Op) (d : VarDecl) : Rat :=
  let fs := n.feeders d.name
  let es := c.edgesInto ⟨n.path, o.name, d.name⟩
  let xs := ext ⟨n.path, o.name, d.name⟩
  if fs.isEmpty && es.isEmpty && xs.isEmpty then d.value
  else (fs.map (fun o' => ρ ⟨n.path, o'.name, d.name⟩)).sum + (es.map (fun e => e.weight * ρ e.src)).sum + xs.sum

/-- **The specification** (C01's wording): `ρ` assigns to every declared variable the value the user's equations define,
given the state `σ`. -/
def IsSolution (I : Interp) (c : Circuit) (ext : Path → List Rat) (σ : Path → Rat) (ρ : Path → Rat) : Prop :=
  ∀ n ∈ c.nodes, ∀ o ∈ n.ops, ∀ d ∈ o.vars,
    let p : Path := ⟨n.path, o.name, d.name⟩
    match o.kindOf d with
    | .state => ρ p = σ p
    | .const => ρ p = d.value
    | .input => ρ p = inputValue c ext ρ n o d
    | .alg => ∀ e, o.defEq d.name = some e → ρ p = eval I (fun x => ρ ⟨n.path, o.name, x⟩) e.rhs

/-- derivative of a state variable under the solution `ρ`: its own equation -/
def deriv (I : Interp) (ρ : Path → Rat) (n : Node) (o : Op) (e : Eqn) : Rat :=
  eval I (fun x => ρ ⟨n.path, o.name, x⟩) e.rhs

end PyRates.Net
