/-
Model of the fixed-step integrators and the time axis:
  pyrates/backend/base/base_backend.py: BaseBackend.run (596-611), _solve_euler (713-740), _solve_heun (743-769)
  pyrates/frontend/template/circuit.py: run(): DataFrame(index=times) and `.loc[cutoff:]` (539-550)

The vector field is modelled as what the generated code is: a procedure that (for `inPlace = true`) writes into a buffer `dy`
owned by the caller and *returns that same buffer*.  The only aliasing question this raises inside the solvers is what the
name `rhs` denotes in `_solve_heun` after the second call; it is answered by `heunStepCode` below.
Floats are modelled as exact rationals.
-/
namespace PyRates.Solver

abbrev Vec := List Rat

def vadd (a b : Vec) : Vec := List.zipWith (· + ·) a b
def vscale (c : Rat) (a : Vec) : Vec := a.map (c * ·)

/-- A vector field: step counter (the `t` the solver passes: `i + t0`) and state ↦ derivative. -/
abbrev Field := Nat → Vec → Vec

inductive Err | indexError | zeroDivision | lengthMismatch
deriving Repr, DecidableEq

instance {α} [DecidableEq α] : DecidableEq (Except Err α) := fun a b =>
  match a, b with
  | .ok x, .ok y => if h : x = y then isTrue (by rw [h]) else isFalse (by intro e; injection e; contradiction)
  | .error x, .error y => if h : x = y then isTrue (by rw [h]) else isFalse (by intro e; injection e; contradiction)
  | .ok _, .error _ => isFalse (by intro e; cases e)
  | .error _, .ok _ => isFalse (by intro e; cases e)

/-- one Euler step as coded: `rhs = func(step, y, *args); y += dt * rhs` -/
def eulerStepCode (f : Field) (dt : Rat) (t0 : Nat) (i : Nat) (y : Vec) : Vec :=
  vadd y (vscale dt (f (i + t0) y))

/-- one Heun step as coded.
```
rhs = func(step, y, *args)          -- `copyRhs`: the source wraps this in a copy (np.array(..) / .copy())
y_0 = y + dt * rhs
y += dt/2 * (rhs + func(step, y_0, *args))
```
If the generated function returns its shared buffer (`inPlace`) and the solver keeps only a reference (`¬copyRhs`), then at the
time the sum is evaluated `rhs` *is* the buffer that the second call has just overwritten. -/
def heunStepCode (f : Field) (inPlace copyRhs : Bool) (dt : Rat) (t0 : Nat) (i : Nat) (y : Vec) : Vec :=
  let k1 := f (i + t0) y
  let y0 := vadd y (vscale dt k1)
  let k2 := f (i + t0) y0
  let rhsSeen := if inPlace && !copyRhs then k2 else k1
  vadd y (vscale (dt / 2) (vadd rhsSeen k2))

/-- the textbook Heun step: y + dt/2 (k1 + k2), k2 evaluated at the same step index -/
def heunStep (f : Field) (dt : Rat) (t0 : Nat) (i : Nat) (y : Vec) : Vec :=
  let k1 := f (i + t0) y
  let k2 := f (i + t0) (vadd y (vscale dt k1))
  vadd y (vscale (dt / 2) (vadd k1 k2))

/-- the storage loop shared by `_solve_euler` / `_solve_heun`:
`for i in range(steps): if i % store_step == 0 [and idx < store_steps]: state_rec[idx] = y; idx += 1; y = step(i, y)`.
`rec` is the `np.empty((store_steps, n))` buffer: `none` = never written.  `guarded` says whether the storage condition also
requires `idx < store_steps` (read from the source: `Tables.storeGuarded`); without the guard a write past the record raises. -/
def loop (guarded : Bool) (step : Nat → Vec → Vec) (storeStep : Nat) :
    (n i : Nat) → (y : Vec) → (idx : Nat) → (rec : List (Option Vec)) → Except Err (List (Option Vec))
  | 0, _, _, _, rec => .ok rec
  | n+1, i, y, idx, rec =>
    if storeStep = 0 then .error .zeroDivision
    else if i % storeStep = 0 then
      if idx < rec.length then loop guarded step storeStep n (i+1) (step i y) (idx+1) (rec.set idx (some y))
      else if guarded then loop guarded step storeStep n (i+1) (step i y) idx rec
      else .error .indexError
    else loop guarded step storeStep n (i+1) (step i y) idx rec

def solve (guarded : Bool) (step : Nat → Vec → Vec) (steps storeSteps storeStep : Nat) (y0 : Vec) : Except Err (List (Option Vec)) :=
  loop guarded step storeStep steps 0 y0 0 (List.replicate storeSteps none)

/-- `k` applications of the step function, the j-th one called with counter `i + j` -/
def iter (step : Nat → Vec → Vec) : (i k : Nat) → Vec → Vec
  | _, 0, y => y
  | i, k+1, y => iter step (i+1) k (step i y)

/-! ### the jax backend's fixed-step scheme (`JaxBackend._solve_euler/_solve_heun`): an outer `lax.scan` of `store_steps`
iterations, each emitting the state it starts from and then running an inner scan of `store_step` steps -/

def scanOuter (step : Nat → Vec → Vec) (storeStep : Nat) : (n : Nat) → (t : Nat) → (y : Vec) → List Vec
  | 0, _, _ => []
  | n + 1, t, y => y :: scanOuter step storeStep n (t + storeStep) (iter step t storeStep y)

def scanSolve (step : Nat → Vec → Vec) (storeSteps storeStep : Nat) (y0 : Vec) : List Vec :=
  scanOuter step storeStep storeSteps 0 y0

/-! ### time axis -/

/-- Python's `round` / `np.round`: half to even -/
def pyRound (q : Rat) : Int :=
  let f := q.floor
  let d := q - (f : Rat)
  if d < 1/2 then f else if 1/2 < d then f + 1 else if f % 2 = 0 then f else f + 1

/-- `np.linspace(0.0, T, num=n, endpoint=False)` -/
def linspaceOpen (T : Rat) (n : Nat) : List Rat := (List.range n).map (fun (k : Nat) => (k : Rat) * (T / (n : Rat)))

/-- `np.arange(n) * step` -/
def arangeTimes (step : Rat) (n : Nat) : List Rat := (List.range n).map (fun (k : Nat) => (k : Rat) * step)

/-- how `BaseBackend.run` builds the time points; which of the two forms the source uses is read from the source
(`Tables.timeAxisKind`) -/
inductive AxisKind | linspaceOpen | arangeStep
deriving Repr, DecidableEq

/-- `BaseBackend.run`: `n_time_points = round(T/step); times = ...` -/
def timeAxis (kind : AxisKind) (T step : Rat) : List Rat :=
  let n := (pyRound (T / step)).toNat
  match kind with
  | .linspaceOpen => linspaceOpen T n
  | .arangeStep => arangeTimes step n

structure RunCfg where
  T : Rat
  dt : Rat
  dts : Rat
  cutoff : Rat

/-- the same pipeline with the jax scheme (never raises: the scan lengths are fixed up front) -/
def runScan (kind : AxisKind) (step : Rat → Nat → Vec → Vec) (c : RunCfg) (y0 : Vec) : Except Err (List (Rat × Option Vec)) := do
  if c.dt = 0 ∨ c.dts = 0 then throw .zeroDivision
  let storeSteps := (pyRound (c.T / c.dts)).toNat
  let storeStep := (pyRound (c.dts / c.dt)).toNat
  let rows := (scanSolve (step c.dt) storeSteps storeStep y0).map some
  let times := timeAxis kind c.T c.dts
  if times.length ≠ rows.length then throw .lengthMismatch
  pure ((times.zip rows).filter (fun r => c.cutoff ≤ r.1))

/-- fixed-step part of `CircuitTemplate.run` for all state variables: integrate, attach the time index, apply the cutoff.
A stored row that was never written (`none`) is garbage memory. -/
def runFixed (guarded : Bool) (kind : AxisKind) (step : Rat → Nat → Vec → Vec) (c : RunCfg) (y0 : Vec) : Except Err (List (Rat × Option Vec)) := do
  if c.dt = 0 ∨ c.dts = 0 then throw .zeroDivision
  let steps := (pyRound (c.T / c.dt)).toNat
  let storeSteps := (pyRound (c.T / c.dts)).toNat
  let storeStep := (pyRound (c.dts / c.dt)).toNat
  let rows ← solve guarded (step c.dt) steps storeSteps storeStep y0
  let times := timeAxis kind c.T c.dts
  if times.length ≠ rows.length then throw .lengthMismatch     -- pandas: index length must match
  pure ((times.zip rows).filter (fun r => c.cutoff ≤ r.1))       -- `.loc[cutoff:]` on a sorted float index

end PyRates.Solver
