/-
Model of `pyrates/backend/base/base_backend.py: class DDEHistory` (lines 88-177).

Python state                         model
  self._t   : list of float            `ts   : List Rat`
  self._y   : ndarray (capacity, …)    `rows : List (Option Vec)`  (`none` = row of `np.empty` never written)
  self._n   : int                      `n    : Nat`
  self._growable                       `growable : Bool`

Floats are modelled as exact rationals (the correspondence harness only uses dyadic data for
which every intermediate is exactly representable).  A state of any shape is a flat `Vec`.
-/
namespace PyRates.Hist

abbrev Vec := List Rat

structure Hist where
  ts : List Rat
  rows : List (Option Vec)
  n : Nat
  growable : Bool
deriving Repr, DecidableEq

inductive Err | full | garbage | empty
deriving Repr, DecidableEq

def initialCapacity : Nat := 1024
def growFactor : Nat := 2

/-- `DDEHistory.__init__(y0, t0, max_steps)`; `cap = none` is `max_steps=None`. -/
def Hist.init (y0 : Vec) (t0 : Rat) (maxSteps : Option Nat) (initCap : Nat := initialCapacity) : Hist :=
  match maxSteps with
  | none => { ts := [t0], rows := some y0 :: List.replicate (initCap - 1) none, n := 1, growable := true }
  | some m => { ts := [t0], rows := some y0 :: List.replicate (max m 1 - 1) none, n := 1, growable := false }

/-- `_grow`: new buffer of `growFactor` times the capacity, first `n` rows copied. -/
def Hist.grow (h : Hist) (gf : Nat := growFactor) : Hist :=
  { h with rows := h.rows.take h.n ++ List.replicate (h.rows.length * gf - h.n) none }

/-- the three statements at the end of `update`: append `t`, write row `n`, increment `n` -/
def Hist.writeRow (h : Hist) (t : Rat) (y : Vec) : Hist :=
  { h with ts := h.ts ++ [t], rows := h.rows.set h.n (some y), n := h.n + 1 }

/-- `update(t, y)`. -/
def Hist.update (h : Hist) (t : Rat) (y : Vec) (gf : Nat := growFactor) : Except Err Hist :=
  if h.n ≥ h.rows.length then
    if h.growable then .ok ((h.grow gf).writeRow t y)
    else .error .full
  else .ok (h.writeRow t y)

/-- `bisect.bisect_right` on a list. -/
def bisectRight (ts : List Rat) (t : Rat) : Nat := (ts.takeWhile (· ≤ t)).length

def vadd (a b : Vec) : Vec := List.zipWith (· + ·) a b
def vsub (a b : Vec) : Vec := List.zipWith (· - ·) a b
def vscale (c : Rat) (a : Vec) : Vec := a.map (c * ·)

def Hist.row (h : Hist) (i : Nat) : Except Err Vec :=
  match h.rows[i]? with
  | some (some v) => .ok v
  | _ => .error .garbage

/-- `__call__(t)`. -/
def Hist.query (h : Hist) (t : Rat) : Except Err Vec :=
  match h.ts.head?, h.ts.getLast? with
  | some tfirst, some tlast =>
    if t ≤ tfirst then h.row 0
    else if t ≥ tlast then h.row (h.n - 1)
    else
      let idx := bisectRight h.ts t - 1
      match h.ts[idx]?, h.ts[idx+1]? with
      | some t0, some t1 => do
        let y0 ← h.row idx
        let y1 ← h.row (idx + 1)
        let alpha := (t - t0) / (t1 - t0)
        pure (vadd y0 (vscale alpha (vsub y1 y0)))
      | _, _ => .error .empty
  | _, _ => .error .empty

/-- abstraction: the list of records written so far -/
def Hist.abs (h : Hist) : List (Rat × Option Vec) := h.ts.zip (h.rows.take h.n)

/-- representation invariant -/
def Hist.WF (h : Hist) : Prop :=
  h.ts.length = h.n ∧ 1 ≤ h.n ∧ h.n ≤ h.rows.length ∧ ∀ i, i < h.n → ∃ v, h.rows[i]? = some (some v)

end PyRates.Hist
