import PyRatesModel.Auto.Slots
import Driver.Proto
namespace PyRates.Driver
open Lean PyRates.Auto

/-- {"lo":10,"hi":15,"n":12} → {"slots":[..]} -/
def autoCmd (j : Json) : Except String Json := do
  let lo ← getNat (← field j "lo")
  let hi ← getNat (← field j "hi")
  let n ← getNat (← field j "n")
  return Json.mkObj [("slots", Json.arr ((slots lo hi n).map (fun (k : Nat) => Json.num (k : JsonNumber))).toArray)]

end PyRates.Driver
