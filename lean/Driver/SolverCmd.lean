import PyRatesModel.Solver.Fixed
import Driver.Proto
namespace PyRates.Driver
open Lean PyRates.Solver

/-- polynomial term `c * t^tp * Π y_j^e_j * (U_u[t] if u given)` -/
structure Term where
  c : Rat
  tp : Nat
  e : List Nat
  u : Option Nat

def parseTerm (j : Json) : Except String Term := do
  let c ← getRat (← field j "c")
  let tp ← getNat (← field j "tp")
  let e ← (← (← field j "e").getArr?).toList.mapM getNat
  let u := match fieldOpt j "u" with
    | some (.num n) => some n.mantissa.toNat
    | _ => none
  pure { c, tp, e, u }

def evalTerm (U : List (List Rat)) (t : Nat) (y : Vec) (tm : Term) : Rat :=
  let m := (List.zipWith (fun (yi : Rat) (k : Nat) => yi ^ k) y tm.e).foldl (· * ·) 1
  let uv : Rat := match tm.u with
    | none => 1
    | some k => ((U.getD k []).getD t 0)
  tm.c * ((t : Rat) ^ tm.tp) * m * uv

def mkField (fs : List (List Term)) (U : List (List Rat)) : Field :=
  fun t y => fs.map (fun terms => (terms.map (evalTerm U t y)).foldl (· + ·) 0)

def errS : Err → String
  | .indexError => "IndexError" | .zeroDivision => "ZeroDivisionError" | .lengthMismatch => "LengthMismatch"

def jRow : Option Vec → Json
  | some v => jVec v
  | none => Json.str "garbage"

/-- {"method":"euler|heun","inplace":b,"copy_rhs":b,"field":[[term..]..],"U":[[..]],"t0":n,"T":q,"dt":q,"dts":q,
     "cutoff":q|null,"axis":"arange|linspace","y0":[..],"rows_only":b,"guarded":b} -/
def solverCmd (j : Json) : Except String Json := do
  let meth ← getStr (← field j "method")
  let inplace ← (← field j "inplace").getBool?
  let copyRhs ← (← field j "copy_rhs").getBool?
  let fs ← (← (← field j "field").getArr?).toList.mapM (fun r => do (← r.getArr?).toList.mapM parseTerm)
  let U ← (← (← field j "U").getArr?).toList.mapM getVec
  let t0 ← getNat (← field j "t0")
  let T ← getRat (← field j "T")
  let dt ← getRat (← field j "dt")
  let dts ← getRat (← field j "dts")
  let y0 ← getVec (← field j "y0")
  let rowsOnly ← (← field j "rows_only").getBool?
  let guarded := match fieldOpt j "guarded" with | some (.bool b) => b | _ => false
  let f := mkField fs U
  let step : Rat → Nat → Vec → Vec := fun dt =>
    if meth == "euler" then eulerStepCode f dt t0 else heunStepCode f inplace copyRhs dt t0
  if rowsOnly then
    if dt = 0 ∨ dts = 0 then return Json.mkObj [("error", "ZeroDivisionError")]
    let steps := (pyRound (T / dt)).toNat
    let storeSteps := (pyRound (T / dts)).toNat
    let storeStep := (pyRound (dts / dt)).toNat
    match solve guarded (step dt) steps storeSteps storeStep y0 with
    | .ok rows => return Json.mkObj [("rows", Json.arr (rows.map jRow).toArray)]
    | .error e => return Json.mkObj [("error", errS e)]
  else
    let cutoff ← getRat (← field j "cutoff")
    let axis ← getStr (← field j "axis")
    let kind := if axis == "arange" then AxisKind.arangeStep else AxisKind.linspaceOpen
    let scheme := match fieldOpt j "scheme" with | some (.str s) => s | _ => "loop"
    match (if scheme == "scan" then runScan kind step { T, dt, dts, cutoff } y0 else runFixed guarded kind step { T, dt, dts, cutoff } y0) with
    | .ok rows => return Json.mkObj [("rows", Json.arr (rows.map (fun r => Json.arr #[jRat r.1, jRow r.2])).toArray)]
    | .error e => return Json.mkObj [("error", errS e)]

end PyRates.Driver
