import PyRatesModel.Net.Eval
import PyRatesModel.Net.Jac
import Driver.Proto
namespace PyRates.Driver
open Lean PyRates.Net

partial def parseExpr (j : Json) : Except String Expr := do
  let a ← j.getArr?
  let tag ← getStr a[0]!
  match tag with
  | "num" => return .num (← getRat a[1]!)
  | "var" => return .var (← getStr a[1]!)
  | "add" => return .add (← parseExpr a[1]!) (← parseExpr a[2]!)
  | "sub" => return .sub (← parseExpr a[1]!) (← parseExpr a[2]!)
  | "mul" => return .mul (← parseExpr a[1]!) (← parseExpr a[2]!)
  | "neg" => return .neg (← parseExpr a[1]!)
  | "pow" => return .pow (← parseExpr a[1]!) (← getNat a[2]!)
  | "call" =>
    let f ← getStr a[1]!
    let args ← a[2]!.getArr?
    if args.size == 1 then return .call1 f (← parseExpr args[0]!)
    else if args.size == 2 then return .call2 f (← parseExpr args[0]!) (← parseExpr args[1]!)
    else throw "call arity"
  | t => throw s!"bad expr tag {t}"

def parsePath (j : Json) : Except String Path := do
  let a ← j.getArr?
  return ⟨← getStr a[0]!, ← getStr a[1]!, ← getStr a[2]!⟩

def parseOp (j : Json) : Except String Op := do
  let name ← getStr (← field j "name")
  let output := match fieldOpt j "output" with
    | some (.str s) => some s
    | _ => none
  let vars ← (← (← field j "vars").getArr?).toList.mapM (fun v => do
    let dn ← getStr (← field v "name")
    let dd ← getStr (← field v "decl")
    let dv ← getRat (← field v "value")
    pure ({ name := dn, decl := if dd == "input" then .input else .other, value := dv } : VarDecl))
  let eqs ← (← (← field j "eqs").getArr?).toList.mapM (fun e => do
    pure ({ lhs := ← getStr (← field e "lhs"), de := ← (← field e "de").getBool?, rhs := ← parseExpr (← field e "rhs") } : Eqn))
  return { name, vars, eqs, output }

def parseCircuit (j : Json) : Except String Circuit := do
  let nodes ← (← (← field j "nodes").getArr?).toList.mapM (fun n => do
    pure ({ path := ← getStr (← field n "path"), ops := ← (← (← field n "ops").getArr?).toList.mapM parseOp } : Node))
  let edges ← (← (← field j "edges").getArr?).toList.mapM (fun e => do
    pure ({ src := ← parsePath (← field e "src"), tgt := ← parsePath (← field e "tgt"), weight := ← getRat (← field e "w") } : Edge))
  return { nodes, edges }

/-- stand-in interpretation: arity 1: c0 + c1 a + c2 a²; arity 2: c0 + c1 a + c2 b + c3 a b -/
def mkInterp (tbl : List (String × List Rat)) : Interp := fun f args =>
  -- derivative of an arity-1 stand-in `f'`: c1 + 2 c2 a
  if f.endsWith "'" then
    match tbl.find? (·.1 == (f.dropRight 1)), args with
    | some (_, [_, c1, c2]), [a] => c1 + 2 * c2 * a
    | _, _ => 0
  else
  match tbl.find? (·.1 == f), args with
  | some (_, [c0, c1, c2]), [a] => c0 + c1 * a + c2 * a * a
  | some (_, [c0, c1, c2, c3]), [a, b] => c0 + c1 * a + c2 * b + c3 * a * b
  | _, _ => 0

def pathStr (p : Path) : String := s!"{p.node}/{p.op}/{p.var}"

def parseInterp (j : Json) : Except String Interp := do
  match fieldOpt j "interp" with
  | some (.obj kv) =>
    let l ← kv.toList.mapM (fun (k, v) => do pure (k, ← getVec v))
    pure (mkInterp l)
  | _ => pure (mkInterp [])

def parsePoint (pt : Json) : Except String (Path → Rat) := do
  let kv ← pt.getObj?
  let l ← kv.toList.mapM (fun (k, v) => do pure (k, ← getRat v))
  pure (fun p => match l.find? (·.1 == pathStr p) with | some x => x.2 | none => 0)

/-- {"nodes":..,"edges":..,"points":[{"n/o/v":"q",..}],"fuel":n,"interp":{..}} →
    {"results":[{"vals":{path:q},"dy":{path:q}} | {"error":..}]} -/
def netCmd (j : Json) : Except String Json := do
  let c ← parseCircuit j
  let I ← parseInterp j
  let fuel ← getNat (← field j "fuel")
  let pts ← (← field j "points").getArr?
  let mut out : Array Json := #[]
  for pt in pts do
    let σ ← parsePoint pt
    match solve I c (fun _ => []) σ fuel with
    | some (tbl, ds) =>
      out := out.push (Json.mkObj [
        ("vals", Json.mkObj (tbl.map (fun (p, v) => (pathStr p, jRat v)))),
        ("dy", Json.mkObj (ds.map (fun (p, v) => (pathStr p, jRat v))))])
    | none => out := out.push (Json.mkObj [("error", "unresolved")])
  return Json.mkObj [("results", Json.arr out)]

/-- {"nodes":..,"edges":..,"init":{path:q},"dt":q,"steps":n,"heun":b,"fuel":n,"interp":{..},
     "inputs":[{"tgt":[n,o,v],"samples":[q..]}]} → {"rows":[{path:q}]} (state before each step) -/
def netTrajCmd (j : Json) : Except String Json := do
  let c ← parseCircuit j
  let I ← parseInterp j
  let fuel ← getNat (← field j "fuel")
  let dt ← getRat (← field j "dt")
  let steps ← getNat (← field j "steps")
  let heun ← (← field j "heun").getBool?
  let initKV ← (← field j "init").getObj?
  let initL ← initKV.toList.mapM (fun (k, v) => do pure (k, ← getRat v))
  let σ0 : List (Path × Rat) := c.stateEqs.map (fun (p, _, _, _) =>
    (p, match initL.find? (·.1 == pathStr p) with | some x => x.2 | none => 0))
  let inputs ← match fieldOpt j "inputs" with
    | some (.arr a) => a.toList.mapM (fun x => do pure (← parsePath (← field x "tgt"), ← getVec (← field x "samples")))
    | _ => pure []
  let extAt : Nat → Path → List Rat := fun k p =>
    (inputs.filter (fun i => i.1 == p)).map (fun i => i.2.getD k 0)
  let des ← match fieldOpt j "delayed" with
    | some (.arr a) => a.toList.mapM (fun x => do
        pure ({ src := ← parsePath (← field x "src"), tgt := ← parsePath (← field x "tgt"), weight := ← getRat (← field x "w"),
                delay := ← getNat (← field x "steps") } : DEdge))
    | _ => pure []
  match (if des.isEmpty then trajectory I c extAt fuel heun dt steps 0 σ0 else trajectoryD I c des extAt fuel heun dt steps 0 σ0 []) with
  | some rows => return Json.mkObj [("rows", Json.arr (rows.map (fun r => Json.mkObj (r.map (fun (p, v) => (pathStr p, jRat v))))).toArray)]
  | none => return Json.mkObj [("error", "unresolved")]

/-- {"nodes":..,"edges":..,"points":[..],"fuel":n,"interp":{..}} → {"results":[{"jac":{"row|col": q}}]} -/
def netJacCmd (j : Json) : Except String Json := do
  let c ← parseCircuit j
  let I ← parseInterp j
  let fuel ← getNat (← field j "fuel")
  let pts ← (← field j "points").getArr?
  let mut out : Array Json := #[]
  for pt in pts do
    let σ ← parsePoint pt
    match jacobian I c σ fuel with
    | some tbl => out := out.push (Json.mkObj [("jac", Json.mkObj (tbl.map (fun (pi, pj, v) => (pathStr pi ++ "|" ++ pathStr pj, jRat v))))])
    | none => out := out.push (Json.mkObj [("error", "unresolved")])
  return Json.mkObj [("results", Json.arr out)]

end PyRates.Driver
