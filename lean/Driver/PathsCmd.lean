import PyRatesModel.Front.Paths
import Driver.Proto
namespace PyRates.Driver
open Lean PyRates.Paths

/-- {"leaves":[["c1","p1"],..],"pat":["c1","all"]} → {"nodes":[[..]..],"spec":[[..]..]} -/
def pathsCmd (j : Json) : Except String Json := do
  let leaves ← (← (← field j "leaves").getArr?).toList.mapM (fun l => do (← l.getArr?).toList.mapM getStr)
  let pat ← (← (← field j "pat").getArr?).toList.mapM getStr
  let enc := fun (ls : List NodePath) => Json.arr (ls.map (fun p => Json.arr (p.map Json.str).toArray)).toArray
  return Json.mkObj [("nodes", enc (getNodes 16 leaves pat)), ("spec", enc (globSpec leaves pat))]

end PyRates.Driver
