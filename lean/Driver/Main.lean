import Driver.HistCmd
import Driver.SolverCmd
import Driver.StrCmd
import Driver.NetCmd
import Driver.PathsCmd
import Driver.GuardCmd
import Driver.AutoCmd
import Driver.DdeCmd
import Driver.GridCmd
import Driver.GammaCmd
import Driver.InterpCmd
open Lean PyRates.Driver

def dispatch (comp : String) (j : Json) : Except String Json :=
  match comp with
  | "hist" => histCmd j
  | "solver" => solverCmd j
  | "str" => strCmd j
  | "net" => netCmd j
  | "nettraj" => netTrajCmd j
  | "netjac" => netJacCmd j
  | "paths" => pathsCmd j
  | "guard" => guardCmd j
  | "auto" => autoCmd j
  | "dde" => ddeCmd j
  | "grid" => gridCmd j
  | "gamma" => gammaCmd j
  | "interp" => interpCmd j
  | _ => .error s!"unknown component {comp}"

partial def loop (h : IO.FS.Stream) (out : IO.FS.Stream) : IO Unit := do
  let line ← h.getLine
  if line.isEmpty then return ()
  let l := line.trim
  if l.isEmpty then loop h out else
  let ans : Json := match Json.parse l with
    | .error e => Json.mkObj [("error", Json.str s!"parse: {e}")]
    | .ok j => match j.getObjVal? "comp" >>= Json.getStr? with
      | .error e => Json.mkObj [("error", Json.str e)]
      | .ok c => match dispatch c j with
        | .ok r => r
        | .error e => Json.mkObj [("error", Json.str e)]
  out.putStrLn ans.compress
  out.flush
  loop h out

def main : IO Unit := do
  let i ← IO.getStdin
  let o ← IO.getStdout
  loop i o
  o.flush
