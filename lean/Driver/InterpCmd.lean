import PyRatesModel.Backends.Funcs
import PyRatesModel.Generated.Tables
import Driver.Proto
namespace PyRates.Driver
open Lean PyRates.Backends

/-- {"comp":"interp","xs":[q..],"ys":[q..],"ts":[q..]} → {"spec":[q..],"fortran":[q..]} (the Fortran model with the base point of the current source) -/
def interpCmd (j : Json) : Except String Json := do
  let xs ← getVec (← field j "xs")
  let ys ← getVec (← field j "ys")
  let ts ← getVec (← field j "ts")
  return Json.mkObj [("spec", jVec (ts.map (interpSpec xs ys))), ("fortran", jVec (ts.map (finterp Tables.finterpBaseIsPrev xs ys)))]

end PyRates.Driver
