import PyRatesModel.Guard.Model
import Driver.Proto
namespace PyRates.Driver
open Lean PyRates.Guard

/-- {"configs":[{"backend","solver","vectorize","delay","sparse"}]} → {"must_raise":[bool]} -/
def guardCmd (j : Json) : Except String Json := do
  let cfgs ← (← field j "configs").getArr?
  let res ← cfgs.toList.mapM (fun c => do
    let d ← getStr (← field c "delay")
    let dk := match d with
      | "discrete" => DelayKind.discrete | "spread" => .spread | "discrete+spread" => .discreteThenSpread
      | "spread+discrete" => .spreadThenDiscrete | _ => .none
    pure (mustRaise { backend := ← getStr (← field c "backend"), solver := ← getStr (← field c "solver"),
                      vectorize := ← (← field c "vectorize").getBool?, delay := dk, sparseJacobian := ← (← field c "sparse").getBool? }))
  return Json.mkObj [("must_raise", Json.arr (res.map Json.bool).toArray)]

end PyRates.Driver
