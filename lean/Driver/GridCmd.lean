import PyRatesModel.Sweep.Grid
import Driver.Proto
namespace PyRates.Driver
open Lean PyRates.Sweep

/-- {"comp":"grid","vals":[[q..]..],"permute":b} → {"rows":[[q..]..]} | {"error":"ValueError"};
    {"comp":"grid","op":"targets","nodes":[..],"vars":[..]} → {"targets":[[n,v]..]} -/
def gridCmd (j : Json) : Except String Json := do
  match fieldOpt j "op" with
  | some (.str "targets") =>
    let ns ← (← (← field j "nodes").getArr?).toList.mapM getStr
    let vs ← (← (← field j "vars").getArr?).toList.mapM getStr
    return Json.mkObj [("targets", Json.arr ((targets ns vs).map (fun p => Json.arr #[Json.str p.1, Json.str p.2])).toArray)]
  | _ =>
    let vals ← (← (← field j "vals").getArr?).toList.mapM getVec
    let permute ← (← field j "permute").getBool?
    match linearize vals permute with
    | some rows => return Json.mkObj [("rows", Json.arr (rows.map jVec).toArray)]
    | none => return Json.mkObj [("error", "ValueError")]

end PyRates.Driver
