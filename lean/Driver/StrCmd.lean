import PyRatesModel.Str.Replace
import PyRatesModel.Str.Labels
import Driver.Proto
namespace PyRates.Driver
open Lean PyRates.Str

/-- {"op":"replace","A":"...","eq":"..","term":"..","repl":".."} → {"out":"..","spec":".."} -/
def strCmd (j : Json) : Except String Json := do
  let op ← getStr (← field j "op")
  if op == "replace" then
    let A ← getStr (← field j "A")
    let eq ← getStr (← field j "eq")
    let term ← getStr (← field j "term")
    let repl ← getStr (← field j "repl")
    let out := replace A.toList eq.toList term.toList repl.toList
    let sp := if term.isEmpty then eq.toList else spec A.toList term.toList repl.toList 0 true eq.toList
    return Json.mkObj [("out", Json.str (String.ofList out)), ("spec", Json.str (String.ofList sp))]
  else if op == "labels" then
    let reqs ← (← (← field j "reqs").getArr?).toList.mapM getStr
    match PyRates.Labels.labelsOf (reqs.length + 5) [] reqs with
    | some ls => return Json.mkObj [("labels", Json.arr (ls.map Json.str).toArray)]
    | none => return Json.mkObj [("error", "fuel")]
  else throw s!"bad str op {op}"

end PyRates.Driver
