import PyRatesModel.Delay.DDE
import PyRatesModel.Generated.Tables
import Driver.NetCmd
import Driver.HistCmd
namespace PyRates.Driver
open Lean PyRates.Net PyRates.Hist PyRates.Delay

/-- one delayed read feeding a target variable: `tgt` receives `w * hist(t - delay)[src]` -/
structure Read where
  tgt : Path
  src : Path
  delay : Rat
  w : Rat

/-- body of the generated function of a network: the delayed reads enter as extrinsic inputs of their targets -/
def netBody (I : Interp) (c : Circuit) (fuel : Nat) (reads : List Read) (order : List Path) : Body := fun _ y rs =>
  let σ := order.zip y
  let ext : Path → List Rat := fun p => ((reads.zip rs).filter (fun x => x.1.tgt == p)).map (fun x => x.1.w * x.2)
  match solve I c ext (tableLookup σ) fuel with
  | some (_, k1) => order.map (tableLookup k1)
  | none => []

def idxOf (order : List Path) (p : Path) : Nat := (order.takeWhile (fun q => !(q == p))).length

/-- {"comp":"dde","op":"run"|"func", circuit.., "reads":[{"tgt","src","delay","w"}], "dt","steps","heun", "init":{path:q}}
    run  → {"rows":[[q..]..], "final":[q..], "order":[path..]}
    func → needs "records":[[t,[q..]]..] (first = initial record), "t", "y":{path:q}; the time is used as it is (adaptive solvers) → {"dy":[q..]} -/
def ddeCmd (j : Json) : Except String Json := do
  let c ← parseCircuit j
  let I ← parseInterp j
  let fuel ← getNat (← field j "fuel")
  let order := c.stateEqs.map (fun (p, _, _, _) => p)
  let reads ← (← (← field j "reads").getArr?).toList.mapM (fun x => do
    pure ({ tgt := ← parsePath (← field x "tgt"), src := ← parsePath (← field x "src"), delay := ← getRat (← field x "delay"),
            w := ← getRat (← field x "w") } : Read))
  let terms : List PastTerm := reads.map (fun r => ⟨idxOf order r.src, r.delay⟩)
  let body := netBody I c fuel reads order
  let op ← getStr (← field j "op")
  let gf := Tables.histGrowFactor
  let cap := Tables.histInitialCapacity
  if op == "run" then
    let dt ← getRat (← field j "dt")
    let steps ← getNat (← field j "steps")
    let heun ← (← field j "heun").getBool?
    let σ0 ← parsePoint (← field j "init")
    let y0 := order.map σ0
    let scaled := Tables.histFixedStepScalesT
    let step := if heun then heunStep body terms scaled dt gf else eulerStep body terms scaled dt gf
    let h0 ← match fieldOpt j "pre" with
      | some pj => do let σp ← parsePoint pj; pure (Hist.init (order.map σp) 0 none cap)
      | none => pure (Hist.init y0 0 none cap)
    match run step steps 0 y0 h0 with
    | .ok (ys, yf, _) =>
      return Json.mkObj [("rows", Json.arr (ys.map jVec).toArray), ("final", jVec yf), ("order", Json.arr (order.map (fun p => Json.str (pathStr p))).toArray)]
    | .error e => return Json.mkObj [("error", Json.str (errStr e))]
  else
    let recs ← (← (← field j "records").getArr?).toList.mapM (fun r => do
      let a ← r.getArr?
      pure (← getRat a[0]!, ← getVec a[1]!))
    match recs with
    | [] => throw "no records"
    | (t0, y0) :: rest =>
      let rec go (h : Hist) : List (Rat × Vec) → Except Err Hist
        | [] => .ok h
        | (t, y) :: us => match h.update t y gf with
          | .ok h' => go h' us
          | .error e => .error e
      match go (Hist.init y0 t0 none cap) rest with
      | .error e => return Json.mkObj [("error", Json.str (errStr e))]
      | .ok h =>
        let t ← getRat (← field j "t")
        let σ ← parsePoint (← field j "y")
        let y := order.map σ
        let tt := if Tables.histAdaptiveUsesT then t else 0
        match compiled body terms tt y h with
        | .ok dy => return Json.mkObj [("dy", jVec dy), ("order", Json.arr (order.map (fun p => Json.str (pathStr p))).toArray)]
        | .error e => return Json.mkObj [("error", Json.str (errStr e))]

end PyRates.Driver
