import PyRatesModel.Gamma.Chain
import Driver.Proto
namespace PyRates.Driver
open Lean PyRates.Gamma

/-- {"comp":"gamma","slots":[[d,s]..],"dde":k,"path":"scalar"|"matrix"} → {"orders":[n..],"rates":[a..],"groups":[{"order":n,"rate":a,"slots":[i..]}..]} -/
def gammaCmd (j : Json) : Except String Json := do
  let slots ← (← (← field j "slots").getArr?).toList.mapM (fun x => do
    let a ← x.getArr?
    pure (← getRat a[0]!, ← getRat a[1]!))
  let k ← getNat (← field j "dde")
  let path ← getStr (← field j "path")
  let orders := slots.map (fun (d, s) => if path == "matrix" then orderMatrix d s k else orderScalar d s k)
  let rates := (slots.zip orders).map (fun ((d, _), n) => rate n d)
  let keyed := (List.range slots.length).zip (orders.zip rates)
  -- `groupSlots` inserts from the back: feed the reversed list so that groups come out in first-occurrence order, slots ascending
  let groups := groupSlots keyed.reverse
  return Json.mkObj [("orders", Json.arr (orders.map (fun (n : Nat) => Json.num (n : JsonNumber))).toArray), ("rates", Json.arr (rates.map jRat).toArray),
    ("groups", Json.arr (groups.map (fun g => Json.mkObj [("order", Json.num (g.1.1 : JsonNumber)), ("rate", jRat g.1.2), ("slots", Json.arr (g.2.map (fun (i : Nat) => Json.num (i : JsonNumber))).toArray)])).toArray)]

end PyRates.Driver
