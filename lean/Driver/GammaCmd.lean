import PyRatesModel.Gamma.Chain
import Driver.Proto
namespace PyRates.Driver
open Lean PyRates.Gamma

/-- {"comp":"gamma","slots":[[d,s]..],"dde":k,"path":"scalar"|"matrix"} (,"dt":q,"adaptive":b) → {"kinds":[{"kind":"through|chain|ring|history",..}..], "orders":[n..],"rates":[a..],"groups":[{"order":n,"rate":a,"slots":[i..]}..]} -/
def gammaCmd (j : Json) : Except String Json := do
  let slots ← (← (← field j "slots").getArr?).toList.mapM (fun x => do
    let a ← x.getArr?
    pure (← getRat a[0]!, ← getRat a[1]!))
  let k ← getNat (← field j "dde")
  let path ← getStr (← field j "path")
  let orders := slots.map (fun (d, s) => if path == "matrix" then orderMatrix d s k else orderScalar d s k)
  let rates := (slots.zip orders).map (fun ((d, _), n) => rate n d)
  let keyed := (List.range slots.length).zip (orders.zip rates)
  -- `groupSlots` inserts from the back: feed the reversed list so that groups come out in first-occurrence order, slots ascending
  let groups := groupSlots keyed.reverse
  -- how each slot is realised by the scalar-edge code path (only when the step size is given)
  let jKind : SlotKind → Json
    | .through => Json.mkObj [("kind", "through")]
    | .chain n a => Json.mkObj [("kind", "chain"), ("order", Json.num (n : JsonNumber)), ("rate", jRat a)]
    | .ring m => Json.mkObj [("kind", "ring"), ("steps", Json.num (m : JsonNumber))]
    | .history d => Json.mkObj [("kind", "history"), ("delay", jRat d)]
  let kinds ← match fieldOpt j "dt" with
    | some dtj => do
        let dt ← getRat dtj
        let adaptive := match fieldOpt j "adaptive" with | some (.bool b) => b | _ => false
        pure (slots.map (fun (d, s) => jKind (slotKind adaptive dt d s k)))
    | none => pure []
  return Json.mkObj [("kinds", Json.arr kinds.toArray), ("orders", Json.arr (orders.map (fun (n : Nat) => Json.num (n : JsonNumber))).toArray), ("rates", Json.arr (rates.map jRat).toArray),
    ("groups", Json.arr (groups.map (fun g => Json.mkObj [("order", Json.num (g.1.1 : JsonNumber)), ("rate", jRat g.1.2), ("slots", Json.arr (g.2.map (fun (i : Nat) => Json.num (i : JsonNumber))).toArray)])).toArray)]

end PyRates.Driver
