import Lean.Data.Json
/-! Wire helpers for the line protocol: rationals travel as "n/d" strings. -/
namespace PyRates.Driver
open Lean

def parseInt? (s : String) : Option Int :=
  if s.startsWith "-" then (s.drop 1).toNat?.map (fun n => - (n : Int))
  else if s.startsWith "+" then (s.drop 1).toNat?.map (fun n => (n : Int))
  else s.toNat?.map (fun n => (n : Int))

def parseRat? (s : String) : Option Rat :=
  match s.splitOn "/" with
  | [n] => (parseInt? n.trim).map (fun i => (i : Rat))
  | [n, d] => do
    let i ← parseInt? n.trim
    let k ← d.trim.toNat?
    if k = 0 then none else some ((i : Rat) / (k : Rat))
  | _ => none

def ratStr (q : Rat) : String :=
  if q.den = 1 then toString q.num else s!"{q.num}/{q.den}"

def jRat (q : Rat) : Json := Json.str (ratStr q)
def jVec (v : List Rat) : Json := Json.arr (v.map jRat).toArray

def getRat (j : Json) : Except String Rat :=
  match j with
  | .str s => match parseRat? s with
    | some q => .ok q
    | none => .error s!"bad rational {s}"
  | .num n => if n.exponent = 0 then .ok (n.mantissa : Rat) else .error "non-integer json number"
  | _ => .error "rational expected"

def getVec (j : Json) : Except String (List Rat) := do
  let a ← j.getArr?
  a.toList.mapM getRat

def getNat (j : Json) : Except String Nat := j.getNat?
def getStr (j : Json) : Except String String := j.getStr?
def field (j : Json) (k : String) : Except String Json := j.getObjVal? k
def fieldOpt (j : Json) (k : String) : Option Json := (j.getObjVal? k).toOption

end PyRates.Driver
