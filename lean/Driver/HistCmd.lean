import PyRatesModel.Hist.DDEHistory
import Driver.Proto
namespace PyRates.Driver
open Lean PyRates.Hist

def errStr : Err → String
  | .full => "full" | .garbage => "garbage" | .empty => "empty"

/-- request: {"y0":[..],"t0":"0","max_steps":null|n,"init_cap":n,"gf":n,"ops":[["u",t,[y..]],["q",t],["abs"]]}
    answer : {"out":[...]} one entry per op -/
def histCmd (j : Json) : Except String Json := do
  let y0 ← getVec (← field j "y0")
  let t0 ← getRat (← field j "t0")
  let ms : Option Nat := match fieldOpt j "max_steps" with
    | some (.num n) => some n.mantissa.toNat
    | _ => none
  let ic ← getNat (← field j "init_cap")
  let gf ← getNat (← field j "gf")
  let ops ← (← field j "ops").getArr?
  let mut h := Hist.init y0 t0 ms ic
  let mut out : Array Json := #[]
  for op in ops do
    let a ← op.getArr?
    let tag ← getStr a[0]!
    if tag == "u" then
      let t ← getRat a[1]!
      let y ← getVec a[2]!
      match h.update t y gf with
      | .ok h' => h := h'; out := out.push (Json.str "ok")
      | .error e => out := out.push (Json.str s!"err:{errStr e}")
    else if tag == "q" then
      let t ← getRat a[1]!
      match h.query t with
      | .ok v => out := out.push (jVec v)
      | .error e => out := out.push (Json.str s!"err:{errStr e}")
    else if tag == "abs" then
      out := out.push (Json.arr (h.abs.map (fun r => Json.arr #[jRat r.1, match r.2 with | some v => jVec v | none => Json.null])).toArray)
    else if tag == "cap" then
      out := out.push (Json.num h.rows.length)
    else throw s!"bad hist op {tag}"
  return Json.mkObj [("out", Json.arr out)]

end PyRates.Driver
