"""MDL — neutral model description (JSON-able dicts) + builders:
  * to PyRates objects through the public Python API (OperatorTemplate / NodeTemplate / CircuitTemplate),
  * to the flat circuit the Lean model and the Python oracle evaluate,
plus an independent exact oracle (`oracle_eval`, Fractions) of the specification and expression rendering in random styles."""
import os, json, random, tempfile, shutil, warnings
from fractions import Fraction

F = Fraction


# ------------------------------------------------------------------------------------------ expressions
def num(q): return ["num", str(F(q))]
def var(x): return ["var", x]
def add(a, b): return ["add", a, b]
def sub(a, b): return ["sub", a, b]
def mul(a, b): return ["mul", a, b]
def neg(a): return ["neg", a]
def pw(a, k): return ["pow", a, k]
def call(f, *args): return ["call", f, list(args)]


def fmt_q(q, style=None):
    q = F(q)
    if q.denominator == 1 and style and style.get("int_literals") and abs(q) < 1000:
        return str(q.numerator) if q >= 0 else f"({q.numerator})"
    s = repr(float(q))
    return s if q >= 0 else f"({s})"


def render(e, style=None, rng=None, prec=0):
    """expression -> equation-language string.  style: dict(space, pow, parens, int_literals)"""
    style = style or {}
    sp = " " if style.get("space", True) else ""
    t = e[0]
    if t == "num":
        return fmt_q(e[1], style)
    if t == "var":
        return e[1]
    if t in ("add", "sub"):
        a, b = render(e[1], style, rng, 1), render(e[2], style, rng, 2)
        s = f"{a}{sp}{'+' if t == 'add' else '-'}{sp}{b}"
        return f"({s})" if prec > 1 or style.get("parens") else s
    if t == "mul":
        a, b = render(e[1], style, rng, 3), render(e[2], style, rng, 4)
        s = f"{a}{sp if style.get('space_mul') else ''}*{sp if style.get('space_mul') else ''}{b}"
        return f"({s})" if prec > 3 or style.get("parens") else s
    if t == "neg":
        return f"(-{render(e[1], style, rng, 5)})"
    if t == "pow":
        op = style.get("pow", "^")
        return f"{render(e[1], style, rng, 6)}{op}{e[2]}"
    if t == "call":
        if e[1] == "past_t":       # the second documented notation of a delayed term: x(t-0.25)
            return f"{e[2][0][1]}(t-{float(F(e[2][1][1]))!r})"
        if e[1] == "past":
            return f"past({e[2][0][1]}, {float(F(e[2][1][1]))!r})"
        return f"{e[1]}({', '.join(render(a, style, rng, 0) for a in e[2])})"
    raise ValueError(t)


def ev(e, env, interp):
    t = e[0]
    if t == "num": return F(e[1])
    if t == "var": return env(e[1])
    if t == "add": return ev(e[1], env, interp) + ev(e[2], env, interp)
    if t == "sub": return ev(e[1], env, interp) - ev(e[2], env, interp)
    if t == "mul": return ev(e[1], env, interp) * ev(e[2], env, interp)
    if t == "neg": return -ev(e[1], env, interp)
    if t == "pow": return ev(e[1], env, interp) ** e[2]
    if t == "call":
        args = [ev(a, env, interp) for a in e[2]]
        c = [F(x) for x in interp[e[1]]]
        if len(args) == 1:
            return c[0] + c[1] * args[0] + c[2] * args[0] * args[0]
        return c[0] + c[1] * args[0] + c[2] * args[1] + c[3] * args[0] * args[1]
    raise ValueError(t)


def fvars(e):
    t = e[0]
    if t == "num": return set()
    if t == "var": return {e[1]}
    if t in ("add", "sub", "mul"): return fvars(e[1]) | fvars(e[2])
    if t in ("neg", "pow"): return fvars(e[1])
    if t == "call":
        s = set()
        for a in e[2]:
            s |= fvars(a)
        return s


# ------------------------------------------------------------------------------------------ flattening
def flatten(mdl):
    """-> {"nodes":[{"path","ops":[{"name","output","vars":[{"name","decl","value"}],"eqs":[...]}]}], "edges":[{"src":[n,o,v],"tgt":[..],"w"}]}"""
    nodes, edges = [], []

    def walk(circ, prefix):
        for label, ntid in circ.get("nodes", {}).items():
            nt = mdl["node_templates"][ntid]
            ops = []
            for opid in nt["ops"]:
                op = mdl["ops"][opid]
                ov = nt.get("overrides", {}).get(opid, {})
                vs = []
                output = None
                for name, d in op["vars"].items():
                    val = ov.get(name, d["value"])
                    vs.append({"name": name, "decl": "input" if d["decl"] == "input" else "other", "value": str(F(val))})
                    if d["decl"] == "output":
                        output = name
                ops.append({"name": op["name"], "output": output, "vars": vs, "eqs": op["eqs"]})
            nodes.append({"path": prefix + label, "ops": ops})
        for label, sub in circ.get("circuits", {}).items():
            walk(sub, prefix + label + "/")
        for e in circ.get("edges", []):
            s, t = (prefix + e["src"]).split("/"), (prefix + e["tgt"]).split("/")
            src, tgt = ["/".join(s[:-2]), s[-2], s[-1]], ["/".join(t[:-2]), t[-2], t[-1]]
            if e.get("template"):
                # an edge with an EdgeTemplate is its own little node: source -> edge operator input, edge operator output -> target (weight)
                et = mdl["edge_templates"][e["template"]]
                op = mdl["ops"][et["op"]]
                ov = e.get("values", {})
                vs, output, inp = [], None, None
                bind = e.get("bind") or {}       # further input variables of the edge operator bound to explicit variable paths
                for name, d in op["vars"].items():
                    vs.append({"name": name, "decl": "input" if d["decl"] == "input" else "other", "value": str(F(ov.get(name, d["value"])))})
                    if d["decl"] == "output":
                        output = name
                    if d["decl"] == "input" and name not in bind:
                        inp = name
                epath = f"__edge{len(nodes)}_{len(edges)}"
                nodes.append({"path": epath, "ops": [{"name": op["name"], "output": output, "vars": vs, "eqs": op["eqs"]}], "is_edge": True})
                edges.append({"src": src, "tgt": [epath, op["name"], inp], "w": "1"})
                for bname, bpath in bind.items():
                    bp = (prefix + bpath).split("/")
                    edges.append({"src": ["/".join(bp[:-2]), bp[-2], bp[-1]], "tgt": [epath, op["name"], bname], "w": "1"})
                edges.append({"src": [epath, op["name"], output], "tgt": tgt, "w": str(F(e["w"]))})
            else:
                ed = {"src": src, "tgt": tgt, "w": str(F(e["w"]))}
                if e.get("delay") is not None:
                    ed["delay"] = str(F(e["delay"]))
                if e.get("spread") is not None:
                    ed["spread"] = str(F(e["spread"]))
                edges.append(ed)
    walk(mdl["circuit"], "")
    # per-node value updates applied after template construction (update_var / node_values), keyed by full path
    for path, val in mdl.get("post_values", {}).items():
        *n, o, v = path.split("/")
        for node in nodes:
            if node["path"] == "/".join(n):
                for op in node["ops"]:
                    if op["name"] == o:
                        for d in op["vars"]:
                            if d["name"] == v:
                                d["value"] = str(F(val))
    return {"nodes": nodes, "edges": edges}


def kind_of(op, d):
    if any(e["lhs"] == d["name"] and e["de"] for e in op["eqs"]): return "state"
    if any(e["lhs"] == d["name"] and not e["de"] for e in op["eqs"]): return "alg"
    if d["decl"] == "input": return "input"
    return "const"


def state_paths(flat):
    out = []
    for n in flat["nodes"]:
        for o in n["ops"]:
            for e in o["eqs"]:
                if e["de"]:
                    out.append(f"{n['path']}/{o['name']}/{e['lhs']}")
    return out


def const_paths(flat):
    out = {}
    for n in flat["nodes"]:
        for o in n["ops"]:
            for d in o["vars"]:
                if kind_of(o, d) == "const":
                    out[f"{n['path']}/{o['name']}/{d['name']}"] = F(d["value"])
    return out


def oracle_eval(flat, sigma, interp=None, pi=None):
    """independent exact evaluation of the specification.  sigma: path -> Fraction for state variables; pi: optional overrides of constants.
    returns (vals: path->Fraction, dy: path->Fraction) or raises ValueError('unresolved')"""
    interp = interp or {}
    pi = pi or {}
    nodes = {n["path"]: n for n in flat["nodes"]}
    memo, busy = {}, set()

    def val(n, o, v):
        key = f"{n}/{o}/{v}"
        if key in memo:
            return memo[key]
        if key in busy:
            raise ValueError("cyclic")
        busy.add(key)
        node = nodes.get(n)
        if node is None:
            raise ValueError("unresolved " + key)
        op = next((x for x in node["ops"] if x["name"] == o), None)
        if op is None:
            raise ValueError("unresolved " + key)
        d = next((x for x in op["vars"] if x["name"] == v), None)
        if d is None:
            raise ValueError("unresolved " + key)
        k = kind_of(op, d)
        if k == "state":
            r = F(sigma[key])
        elif k == "const":
            r = F(pi.get(key, d["value"]))
        elif k == "alg":
            e = next(x for x in op["eqs"] if x["lhs"] == v and not x["de"])
            r = ev(e["rhs"], lambda x: val(n, o, x), interp)
        else:
            feeders = [x for x in node["ops"] if x["output"] == v]
            es = [e for e in flat["edges"] if e["tgt"] == [n, o, v]]
            if not feeders and not es:
                r = F(pi.get(key, d["value"]))
            else:
                r = sum((val(n, f["name"], v) for f in feeders), F(0)) + sum((F(e["w"]) * val(*e["src"]) for e in es), F(0))
        busy.discard(key)
        memo[key] = r
        return r

    vals, dy = {}, {}
    for n in flat["nodes"]:
        for o in n["ops"]:
            for d in o["vars"]:
                vals[f"{n['path']}/{o['name']}/{d['name']}"] = val(n["path"], o["name"], d["name"])
            for e in o["eqs"]:
                if e["de"]:
                    dy[f"{n['path']}/{o['name']}/{e['lhs']}"] = ev(e["rhs"], lambda x: val(n["path"], o["name"], x), interp)
    return vals, dy


# ------------------------------------------------------------------------------------------ PyRates builder (public API only)
def eq_string(e, style=None, rng=None):
    style = style or {}
    rhs = render(e["rhs"], style, rng)
    if e["de"]:
        lhs = f"d/dt * {e['lhs']}" if style.get("ddt") else f"{e['lhs']}'"
    else:
        lhs = e["lhs"]
    return f"{lhs} = {rhs}"


def var_spec(d):
    v = float(F(d["value"]))
    if d["decl"] == "input": return f"input({v!r})"
    if d["decl"] == "output": return f"output({v!r})"
    if d["decl"] == "var": return f"variable({v!r})"
    return v


def _edge_bindings(mdl, e):
    """edge-dictionary entries that bind the inputs of an edge template: the pre-synaptic input to 'source', further inputs to variable paths"""
    if not e.get("bind"):
        return {}
    et = mdl["edge_templates"][e["template"]]
    op = mdl["ops"][et["op"]]
    out = {}
    for name, d in op["vars"].items():
        if d["decl"] == "input":
            out[f"{et['name']}/{op['name']}/{name}"] = e["bind"].get(name, "source")
    return out


def build_pyrates(mdl, style=None, rng=None, share_templates=True):
    """Build CircuitTemplate via the Python classes.  Template objects are shared exactly as the MDL ids say."""
    from pyrates import OperatorTemplate, NodeTemplate, CircuitTemplate
    style = style or {}
    ops, nts = {}, {}
    for opid, op in mdl["ops"].items():
        eqs = [eq_string(e, style, rng) for e in op["eqs"]]
        ops[opid] = OperatorTemplate(name=op["name"], equations=eqs, variables={k: var_spec(d) for k, d in op["vars"].items()}, path=None)
    for ntid, nt in mdl["node_templates"].items():
        if nt.get("overrides"):
            operators = {ops[o]: {k: float(F(v)) for k, v in nt["overrides"].get(o, {}).items()} for o in nt["ops"]}
        else:
            operators = [ops[o] for o in nt["ops"]]
        nts[ntid] = NodeTemplate(name=nt["name"], operators=operators, path=None)

    from pyrates import EdgeTemplate
    ets = {}
    for etid, et in mdl.get("edge_templates", {}).items():
        ets[etid] = EdgeTemplate(name=et["name"], operators=[ops[et["op"]]], path=None)

    def mk(circ):
        edges = [(e["src"], e["tgt"], ets[e["template"]] if e.get("template") else None,
                  dict({"weight": float(F(e["w"]))}, **({"delay": (int(F(e["delay"])) if e.get("delay_as_int") else float(F(e["delay"])))} if e.get("delay") is not None else {}),
                       **({"spread": float(F(e["spread"]))} if e.get("spread") is not None else {}),
                       **{f"{mdl['ops'][mdl['edge_templates'][e['template']]['op']]['name']}/{k}": float(F(v)) for k, v in (e.get("values") or {}).items()},
                       **_edge_bindings(mdl, e)))
                 for e in circ.get("edges", [])]
        if circ.get("circuits"):
            subs = {label: mk(sub) for label, sub in circ["circuits"].items()}
            return CircuitTemplate(name=circ["name"], circuits=subs, edges=edges, path=None)
        return CircuitTemplate(name=circ["name"], nodes={label: nts[ntid] for label, ntid in circ["nodes"].items()}, edges=edges, path=None)
    return mk(mdl["circuit"]), ops, nts


class Scratch:
    """private working directory (PyRates writes generated files into the cwd)"""
    def __enter__(self):
        self.cwd = os.getcwd()
        self.d = tempfile.mkdtemp(prefix="pyr_")
        os.chdir(self.d)
        return self.d

    def __exit__(self, *a):
        os.chdir(self.cwd)
        shutil.rmtree(self.d, ignore_errors=True)
