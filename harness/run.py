import sys, os, argparse, importlib, traceback
from . import common as C


def main():
    ap = argparse.ArgumentParser()
    ap.add_argument("pid")
    ap.add_argument("--tier", default=os.environ.get("VERIF_TIER", "quick"), choices=["quick", "thorough"])
    ap.add_argument("--replay", default=None)
    a = ap.parse_args()
    seed = C.seed_from_env()
    # run against /repo's current working tree, whatever is installed
    sys.path.insert(0, C.REPO)
    try:
        mod = importlib.import_module(f"harness.props.{a.pid.lower()}")
    except ModuleNotFoundError as e:
        print(f"no check for {a.pid}: {e}", file=sys.stderr)
        sys.exit(2)
    try:
        rc = mod.check(a.tier, seed, a.replay)
    except C.HarnessError as e:
        print("HARNESS-ERROR: " + str(e), file=sys.stderr)
        sys.exit(2)
    except Exception:
        traceback.print_exc()
        sys.exit(2)
    sys.exit(rc)


if __name__ == "__main__":
    main()
