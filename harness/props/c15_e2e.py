"""C15 end-to-end streams: YAML-defined vs Python-defined, to_yaml -> from_yaml round trip, `base:` inheritance with edit dictionaries.
Observable: the compiled vector field (dy at exact points, arguments, layout) against the oracle / Lean model of the *intended* model."""
import json, copy, random
from fractions import Fraction as F
from .. import common as C
from .. import mdl as M, gen_net as G, netcheck as N
from . import c01


def yaml_num(q):
    return repr(float(F(q)))


def yaml_var(d):
    v = yaml_num(d["value"])
    return {"input": f"input({v})", "output": f"output({v})", "var": f"variable({v})"}.get(d["decl"], v)


def subst(e, name, by):
    t = e[0]
    if t == "num": return e
    if t == "var": return by if e[1] == name else e
    if t in ("add", "sub", "mul"): return [t, subst(e[1], name, by), subst(e[2], name, by)]
    if t == "neg": return [t, subst(e[1], name, by)]
    if t == "pow": return [t, subst(e[1], name, by), e[2]]
    if t == "call": return [t, e[1], [subst(a, name, by) for a in e[2]]]


def mdl_to_yaml(mdl, derived=None, style=None, node_refs=None):
    """YAML text defining the model.  derived: {opid: {"chain": [edit, ...]}} -> the operator is written as a chain of `base:` templates,
    the MDL's operator being the *result*; each edit = {"replace": {name: expr}, "add_vars": {name: decl}, "add_eqs": [eq]} applied to the previous link."""
    L = ["%YAML 1.2", "---", ""]
    style = style or {}

    def emit_op(key, op, base="OperatorTemplate", edit=None):
        L.append(f"{key}:")
        L.append(f"  base: {base}")
        if edit is None:
            L.append("  equations:")
            for e in op["eqs"]:
                L.append(f"    - \"{M.eq_string(e, style)}\"")
            L.append("  variables:")
            for k, d in op["vars"].items():
                L.append(f"    {k}: {yaml_var(d)}")
        else:
            L.append("  equations:")
            if edit.get("replace"):
                L.append("    replace:")
                for k, ex in edit["replace"].items():
                    L.append(f"      {k}: \"({M.render(ex, style)})\"")
            if edit.get("add_eqs"):
                L.append("    add:")
                for e in edit["add_eqs"]:
                    L.append(f"      - \"{M.eq_string(e, style)}\"")
            if edit.get("add_vars"):
                L.append("  variables:")
                for k, d in edit["add_vars"].items():
                    L.append(f"    {k}: {yaml_var(d)}")
        L.append("")
    for opid, op in mdl["ops"].items():
        if derived and opid in derived:
            links = derived[opid]["links"]          # list of (key, op_or_None, base_key, edit_or_None)
            for key, opdef, base, edit in links:
                emit_op(key, opdef, base=base, edit=edit)
        else:
            emit_op(op["name"], op)
    for ntid, nt in mdl["node_templates"].items():
        L.append(f"{ntid}_{nt['name']}:")
        L.append("  base: NodeTemplate")
        L.append("  operators:")
        if nt.get("overrides"):
            for o in nt["ops"]:
                ov = nt["overrides"].get(o, {})
                L.append(f"    {mdl['ops'][o]['name']}:" + (" {}" if not ov else ""))
                for k, v in ov.items():
                    L.append(f"      {k}: {yaml_num(v)}")
        else:
            for o in nt["ops"]:
                L.append(f"    - {mdl['ops'][o]['name']}")
        L.append("")

    def emit_circ(c):
        for sub in c.get("circuits", {}).values():
            emit_circ(sub)
        L.append(f"{c['name']}:")
        L.append("  base: CircuitTemplate")
        if c.get("circuits"):
            L.append("  circuits:")
            for l, sub in c["circuits"].items():
                L.append(f"    {l}: {sub['name']}")
        else:
            L.append("  nodes:")
            for l, ntid in c["nodes"].items():
                L.append(f"    {l}: {(node_refs or {}).get(l, '')}{ntid}_{mdl['node_templates'][ntid]['name']}")
        L.append("  edges:" + (" []" if not c.get("edges") else ""))
        for e in c.get("edges", []):
            L.append(f"    - [{e['src']}, {e['tgt']}, null, {{weight: {yaml_num(e['w'])}}}]")
        L.append("")
    emit_circ(mdl["circuit"])
    return "\n".join(L)


def make_derived(rng, mdl):
    """choose an operator; write it as base + 1-2 derived links.  The MDL (what the oracle evaluates) is the final operator."""
    opid = rng.choice(sorted(mdl["ops"]))
    final = mdl["ops"][opid]
    consts = [k for k, d in final["vars"].items() if d["decl"] == "const"]
    if not consts:
        return None
    depth = rng.choice([1, 2])
    # build backwards: final = edit_k(... edit_1(base))
    base = copy.deepcopy(final)
    edits = []
    used = set(final["vars"])
    for lvl in range(depth):
        a = rng.choice(consts)
        newc = next(n for n in ["b2", "rr", a + "2", a + "_in", "r_" + a, "kx"] if n not in used)
        used.add(newc)
        by = M.add(M.var(a), M.mul(M.num(F(rng.choice([1, 2, 3]))), M.var(newc)))
        newv = {"decl": "const", "value": str(F(rng.randint(-3, 3), rng.choice([1, 2])))}
        edit = {"replace": {a: by}, "add_vars": {newc: newv}}
        if rng.random() < 0.5:
            q = next(n for n in ["q", "q2", "w9"] if n not in used)
            used.add(q)
            edit["add_eqs"] = [{"lhs": q, "de": True, "rhs": M.sub(M.mul(M.num(F(-1)), M.var(q)), M.var(a))}]   # note: added equations are NOT edited
            edit["add_vars"][q] = {"decl": "var", "value": str(F(rng.randint(-2, 2)))}
        edits.append(edit)
    # expected final operator: apply the edits to the base in order (AST substitution = whole-identifier replacement)
    cur = copy.deepcopy(base)
    links = [(f"{final['name']}_base", copy.deepcopy(base), "OperatorTemplate", None)]
    for i, edit in enumerate(edits):
        for name, by in edit["replace"].items():
            for e in cur["eqs"]:
                e["rhs"] = subst(e["rhs"], name, by)
        cur["eqs"] = cur["eqs"] + copy.deepcopy(edit.get("add_eqs", []))
        cur["vars"].update(copy.deepcopy(edit["add_vars"]))
        key = final["name"] if i == len(edits) - 1 else f"{final['name']}_d{i}"
        links.append((key, None, links[-1][0], edit))
    mdl["ops"][opid] = dict(cur, name=final["name"])
    return {opid: {"links": links}}


def gen_case(rng, tier, via):
    for _ in range(60):
        mdl = G.gen_model(rng, max_nodes=4, hostile=rng.random() < 0.6)
        derived = None
        if via == "inherit":
            derived = make_derived(rng, mdl)
            if derived is None:
                continue
        flat = M.flatten(mdl)
        sp = M.state_paths(flat)
        if len(set(sp)) != len(sp):
            continue
        if via == "roundtrip" and rng.random() < 0.4:
            cand = sorted(M.const_paths(flat)) + sp
            mdl["post_values"] = {p: C.q2s(F(rng.randint(-5, 5), rng.choice([1, 2]))) for p in rng.sample(cand, min(len(cand), rng.randint(1, 2)))}
        pts = [{p: C.q2s(F(rng.randint(-3, 3), rng.choice([1, 1, 2]))) for p in sp} for _ in range(2)]
        style = {"space": rng.random() < 0.7, "pow": rng.choice(["^", "**"]), "ddt": rng.random() < 0.3}
        case = {"mdl": mdl, "points": pts, "pis": [{}, {}], "style": style, "in_place": True, "interp": {}, "via": "yaml" if via in ("yaml", "inherit") else via,
                "stream": via}
        if via in ("yaml", "inherit"):
            case["yaml_text"] = mdl_to_yaml(mdl, derived, style)
            case["yaml_root"] = mdl["circuit"]["name"]
        c = mdl["circuit"]
        if via == "yaml" and not c.get("circuits") and len(c["nodes"]) >= 2 and rng.random() < 0.6:
            # two template files: the first node is named by its full path into a second file that defines templates of the same names
            # (all other node templates carry different values there); the remaining nodes are named locally and must come from the circuit's own file
            first = next(iter(c["nodes"]))
            import copy
            decoy = copy.deepcopy(mdl)
            for ntid, nt in decoy["node_templates"].items():
                if ntid == c["nodes"][first]:
                    continue
                o = nt["ops"][0]
                names = [k for k, d in mdl["ops"][o]["vars"].items() if d["decl"] in ("const", "var", "output")]
                if names:
                    ov = nt.setdefault("overrides", {}).setdefault(o, {})
                    ov[names[0]] = C.q2s(F(ov.get(names[0], mdl["ops"][o]["vars"][names[0]]["value"])) + 3)
            case["yaml_files"] = {"other.yaml": mdl_to_yaml(decoy, None, style)}
            case["yaml_text"] = mdl_to_yaml(mdl, None, style, node_refs={first: "@@YDIR@@/other/"})
            case["stream"] = "yaml2"
        o = N.oracle_case(case)
        if "error" in o or o["bits"] > 46:
            continue
        return case
    raise C.HarnessError("c15_e2e generator could not produce an admissible case")


def gen_optemplate_edit(rng):
    """OperatorTemplate.update_template with an edit dictionary incl. `add` (string level)"""
    from . import c15
    eqs = [c15.gen_random(rng, 1)[0][0] + " = " + c15.gen_random(rng, 1)[0][0] for _ in range(rng.randint(1, 3))]
    ed = c15.gen_edit(rng)["edit"]
    if rng.random() < 0.7:
        ed["add"] = [rng.choice(c15.HOSTILE) + "' = -" + rng.choice(c15.HOSTILE) + " + " + rng.choice(list(ed.get("replace", {"r": 1}).keys())) for _ in range(rng.randint(1, 2))]
    return {"eqs": eqs, "edit": ed}


def impl_optemplate_edit(case):
    from pyrates import OperatorTemplate
    import warnings, copy as _c
    with warnings.catch_warnings():
        warnings.simplefilter("ignore")
        try:
            op = OperatorTemplate(name="e_op", equations=list(case["eqs"]), variables={}, path=None)
            new = op.update_template(equations=_c.deepcopy(case["edit"]))
            return {"eqs": list(new.equations), "base_eqs_after": list(op.equations)}
        except Exception as e:
            return {"error": type(e).__name__, "msg": str(e)[:200]}


def run(rep, rng, tier):
    from . import c15
    bad = []
    n = {"yaml": 25, "roundtrip": 35, "inherit": 30} if tier == "quick" else {"yaml": 300, "roundtrip": 500, "inherit": 400}
    cases = [gen_case(rng, tier, via) for via, k in n.items() for _ in range(k)]
    orcs = [N.oracle_case(c) for c in cases]
    impl = C.run_forked(N.impl_vector_field, cases, timeout=180)
    for case, im, orc in zip(cases, impl, orcs):
        if "crash" in im:
            raise C.HarnessError("harness child crashed: " + str(im)[:600])
        rep.count("E2-" + case["stream"], json.dumps(case, sort_keys=True, default=str), nontrivial=True)
        dev = c01.compare(case, im, orc)
        if dev:
            bad.append({"what": f"{case['stream']}: the loaded model's vector field / arguments differ from the defined model ({dev[0][0]})",
                        "case": case, "impl": im, "deviations": dev[:3]})
        else:
            rep.validated()
    # operator-level edit dictionaries with `add`
    A = None
    from .. import extract_tables
    A = extract_tables.extract(C.REPO)[0].get("replaceAllowedFollowOps") or ""
    ecases = [gen_optemplate_edit(rng) for _ in range(300 if tier == "quick" else 3000)]
    for ec in ecases:
        im = impl_optemplate_edit(ec)
        ed = {k: v for k, v in ec["edit"].items() if k != "add"}
        want = [c15.spec_edit({"eq": e, "edit": ed}, lambda eq, old, new: c15.token_spec(A, eq, old, new)) for e in ec["eqs"]] + list(ec["edit"].get("add", []))
        rep.count("E2-optemplate-edit", json.dumps(ec, sort_keys=True), nontrivial="add" in ec["edit"])
        if "error" in im or im["eqs"] != want or im["base_eqs_after"] != ec["eqs"]:
            bad.append({"what": "OperatorTemplate.update_template(equations=edit dict): derived equations are not [edit(e) for e in base] + add, or the base template changed",
                        "case": ec, "impl": im, "expected": want})
        else:
            rep.validated()
    if cases:
        rep.sample({"stream": cases[0]["stream"], "yaml_text_head": (cases[0].get("yaml_text") or "")[:400]})
    return bad
