"""C15 — YAML, Python and inherited definitions of a model are equivalent; equation edits touch whole identifiers only.

Proof (string mechanism): lean/PyRatesModel/Props/C15.lean — `parser.replace` refines whole-occurrence substitution for every
string (C15_replace_eq_spec), instantiated with the allowed-sign set regenerated from the source.
Correspondence: (U) `replace` exhaustively over a small alphabet + random hostile identifiers, impl vs compiled model vs an
independent token-based oracle; (E1) `_update_equation` / `OperatorTemplate.update_template` edit dictionaries;
(E2) YAML <-> Python <-> round-trip <-> inheritance equivalence of vector fields (see harness/props/c15_e2e.py)."""
import random, json, os, glob, itertools
from .. import common as C
from .. import extract_tables

PID = "C15"
HOSTILE = ["r", "rr", "r_in", "r_in0", "m_in", "m_in2", "x", "xx", "x_v1", "x_v1_v1", "weight", "weight_in0", "in", "_r", "r_", "a1", "a"]
SEPS = "+-*/^=<>()[],.: '"
ODD = "\t&|;\"#{}~`$?\\"      # characters that are neither identifier characters nor allowed signs


def token_spec(A, eq, term, repl):
    """independent oracle: split at allowed signs, substitute the pieces equal to term"""
    if term == "":
        return eq
    out, cur = [], ""
    for ch in eq:
        if ch in A:
            out.append(repl if cur == term else cur)
            cur = ""
            out.append(ch)
        else:
            cur += ch
    out.append(repl if cur == term else cur)
    return "".join(out)


def identifier_spec(eq, term, repl):
    """the property's own wording: whole-identifier occurrences (maximal runs of [A-Za-z0-9_]) - used where the equation
    only contains identifier characters and allowed signs"""
    import re
    return re.sub(r"[A-Za-z0-9_]+", lambda m: repl if m.group(0) == term else m.group(0), eq)


def gen_random(rng, n):
    cases = []
    for _ in range(n):
        k = rng.randint(1, 7)
        parts = []
        for i in range(k):
            parts.append(rng.choice(HOSTILE) if rng.random() < 0.75 else str(rng.randint(0, 12)))
            if i < k - 1:
                sep = rng.choice(["+", " + ", "*", " - ", "/", "^", "(", ")", ", ", " = ", "' = ", "[", "]", ".", ":", "", " "])
                if rng.random() < 0.04:
                    sep = rng.choice(ODD)
                parts.append(sep)
        eq = "".join(parts)
        term = rng.choice(HOSTILE)
        repl = rng.choice(["Q", "", "(a + b)", term + "_new", "r", "rr"])
        cases.append((eq, term, repl))
    return cases


def gen_exhaustive(alphabet, maxlen, terms):
    for L in range(0, maxlen + 1):
        for tup in itertools.product(alphabet, repeat=L):
            eq = "".join(tup)
            for t in terms:
                yield (eq, t, "Q")


def impl_replace_all(cases):
    from pyrates.backend.parser import replace
    out = []
    for eq, term, repl in cases:
        try:
            out.append(replace(eq, term, repl))
        except Exception as e:
            out.append(f"raise:{type(e).__name__}")
    return out


def gen_edit(rng):
    """an `_update_equation` edit dictionary over an equation built from hostile identifiers"""
    eq, _, _ = gen_random(rng, 1)[0]
    d = {}
    if rng.random() < 0.7:
        d["replace"] = {rng.choice(HOSTILE): rng.choice(["Q", "(u + v)", "k1"]) for _ in range(rng.randint(1, 2))}
    if rng.random() < 0.4:
        d["remove"] = [rng.choice(HOSTILE)] if rng.random() < 0.7 else rng.choice(HOSTILE)
    if rng.random() < 0.3:
        d["append"] = rng.choice(["+ s", "- 2*r_in"])
    if rng.random() < 0.3:
        d["prepend"] = rng.choice(["d/dt *", "2 *"])
    return {"eq": eq, "edit": d}


def impl_edit(case):
    from pyrates.frontend.template.operator import _update_equation
    import copy
    try:
        return _update_equation(case["eq"], **copy.deepcopy(case["edit"]))
    except Exception as e:
        return f"raise:{type(e).__name__}"


def spec_edit(case, rep_fn):
    """`_update_equation`'s documented order (replace items, remove items, append, prepend) on top of a replace function"""
    eq, d = case["eq"], case["edit"]
    for old, new in d.get("replace", {}).items():
        eq = rep_fn(eq, old, new)
    rem = d.get("remove")
    if rem:
        for old in ([rem] if isinstance(rem, str) else rem):
            eq = rep_fn(eq, old, "")
    if d.get("append"):
        eq = f"{eq} {d['append']}"
    if d.get("prepend"):
        eq = f"{d['prepend']} {eq}"
    return eq


def check(tier, seed, replay=None):
    rep = C.Report(PID, tier, seed)
    rng = random.Random(seed)
    proof_ok, detail = C.prepare_lean(rep)
    tables, _ = extract_tables.extract(C.REPO)
    A = tables.get("replaceAllowedFollowOps") or ""
    rep.cov["rule"] = ("U: parser.replace on (equation, term, replacement): exhaustive over alphabet {r,x,_,2,+,(,' ',',=} up to a length bound with terms r, rr, x, r_ "
                       "plus random equations built from hostile identifiers (r, rr, r_in, r_in0, m_in2, x_v1, weight_in0, ...) and all sign kinds incl. signs outside the allowed set; "
                       "E1: _update_equation edit dictionaries (replace/remove/append/prepend); E2: yaml/python/round-trip/inheritance vector-field equivalence. "
                       "distinct = distinct inputs; non-trivial = the term occurs as a substring of the equation")
    if replay:
        r = json.load(open(replay))
        cases = [tuple(r["case"])] if "case" in r else []
    else:
        cases = [tuple(json.load(open(f))["case"]) for f in sorted(glob.glob(os.path.join(C.VERIF, "corpus", PID, "u-*.json")))]
        maxlen = 5 if tier == "quick" else 7
        cases += list(gen_exhaustive("rx_2+( '=", maxlen, ["r", "rr", "x", "r_"]))
        cases += gen_random(rng, 6000 if tier == "quick" else 60000)
    impl = impl_replace_all(cases)
    drv = C.Driver()
    model = drv.ask_many([{"comp": "str", "op": "replace", "A": A, "eq": e, "term": t, "repl": r} for e, t, r in cases])
    corr_bad, spec_bad = [], []
    idset = set("abcdefghijklmnopqrstuvwxyzABCDEFGHIJKLMNOPQRSTUVWXYZ0123456789_")
    for (eq, term, repl), im, mo in zip(cases, impl, model):
        rep.count("U-replace", (eq, term, repl), nontrivial=(term in eq))
        if "error" in mo:
            raise C.HarnessError("model driver: " + str(mo))
        if im == mo["out"] == mo["spec"]:
            rep.validated()
        else:
            corr_bad.append(((eq, term, repl), im, mo))
        # property oracle: on equations made of identifier characters and the language's signs, whole identifiers only
        if all((ch in idset) or (ch in SEPS) for ch in eq):
            want = identifier_spec(eq, term, repl)
            if im != want:
                spec_bad.append(((eq, term, repl), im, want))
    rep.sample({"eq": cases[-1][0], "term": cases[-1][1], "repl": cases[-1][2], "impl": impl[-1]})
    # ---- E1: edit dictionaries
    edits = [] if replay else [gen_edit(rng) for _ in range(1500 if tier == "quick" else 15000)]
    from functools import lru_cache
    for case in edits:
        im = impl_edit(case)

        def model_rep(eq, old, new):
            return drv.ask({"comp": "str", "op": "replace", "A": A, "eq": eq, "term": old, "repl": new})["out"]
        mo = spec_edit(case, model_rep)
        rep.count("E1-update_equation", json.dumps(case, sort_keys=True), nontrivial=bool(case["edit"]))
        if im == mo:
            rep.validated()
        else:
            corr_bad.append((case, im, mo))
        if all((ch in idset) or (ch in SEPS) for ch in case["eq"]):
            want = spec_edit(case, identifier_spec)
            if im != want:
                spec_bad.append((case, im, want))
    if edits:
        rep.sample({"edit_case": edits[0], "impl": impl_edit(edits[0])})
    drv.close()
    # ---- E2 (vector-field equivalence of YAML / Python / round trip / inheritance)
    e2_bad = []
    try:
        from . import c15_e2e
    except ImportError:
        c15_e2e = None
    if c15_e2e and not replay:
        e2_bad = c15_e2e.run(rep, rng, tier)
    rep.cov["streams"].update({"impl_vs_model_disagreements": len(corr_bad), "impl_vs_spec_disagreements": len(spec_bad), "e2e_failures": len(e2_bad)})
    # ---- verdict
    for b in e2_bad[:3]:
        if b.get("known"):
            rep.known_finding(b["known"])
        else:
            rep.violation(b["what"], b)
    if spec_bad:
        case, im, want = min(spec_bad, key=lambda x: len(json.dumps(x[0])))
        rep.violation("an equation edit changed something other than the whole-identifier occurrences of the term",
                      {"case": case, "impl": im, "expected": want})
    elif corr_bad or not proof_ok:
        why = {"proof_ok": proof_ok, "build_log_tail": detail["build_log_tail"], "forbidden": detail["forbidden"],
               "audit_failures": (detail["audit"] or {}).get("failures"),
               "correspondence_first_disagreement": corr_bad[0] if corr_bad else None,
               "broken": ("theorems of PyRatesModel.Props.C15 (build/audit; a changed allowed-sign table breaks C15_idchars_not_separators / C15_separators_present) " if not proof_ok else "") +
                         ("correspondence replace impl-vs-model" if corr_bad else "")}
        # escalated search: longer exhaustive strings + many random, oracle on the implementation
        extra = list(gen_exhaustive("rx_2+( '=", 6, ["r", "rr", "x"])) + gen_random(rng, 40000)
        im2 = impl_replace_all(extra)
        found = [(c, i, identifier_spec(*c)) for c, i in zip(extra, im2)
                 if all((ch in idset) or (ch in SEPS) for ch in c[0]) and i != identifier_spec(*c)]
        if found:
            c, i, w = min(found, key=lambda x: len(x[0][0]))
            rep.violation("replace() changed something other than the whole-identifier occurrences (escalated search)",
                          {"case": c, "impl": i, "expected": w, "why_searched": why})
        else:
            rep.violation("C15 is no longer shown to hold: " + why["broken"], why, no_input=True, name="unproved")
    return rep.finish()
