"""C17 — a parameter sweep equals running each parameter set on its own.

Proof: lean/PyRatesModel/Props/C17.lean over lean/PyRatesModel/Sweep/Grid.lean - the concatenated state of copies that are not connected to one another
evolves block by block exactly as every copy alone (Euler, Heun, any number of steps/copies/block sizes); linear grids hold the i-th value of every key in
row i, permuted grids contain every combination exactly once in numpy's meshgrid order; a grid key addresses the cross product nodes x vars.
Correspondence (exact, dyadic data, float64): random base circuits x random grids (1-3 keys; node parameters with several nodes and several variables
per key, edge weights; linear / permuted; dict and DataFrame grids, the latter with a permuted integer index; up to 12 rows incl. weight sweeps whose
largest weight is 1.0; extrinsic inputs; euler / heun; vectorized or not).  For every row: the returned table row == the Lean model's grid row, and
every returned column of that row's label == the Lean trajectory (and an independent Fraction oracle) of the circuit with exactly these values."""
import random, json, os, glob, warnings, copy
from fractions import Fraction as F
import numpy as np
from .. import common as C
from .. import mdl as M, gen_net as G, netcheck as N

PID = "C17"
DT = F(1, 8)


def gen_case(rng, tier, force_big_edge=False):
    for _ in range(600):
        delays = rng.random() < 0.2 and not force_big_edge
        if delays:
            # a circuit with discrete and distributed edge delays (C09/C11): every row of the sweep keeps its own buffers and kernels
            from . import c09, c11
            mdl = c09.gen_simple(rng)
            pairs = {}
            for e in mdl["circuit"]["edges"]:
                pairs[(e["src"], e["tgt"])] = pairs.get((e["src"], e["tgt"]), 0) + 1
            for e in mdl["circuit"]["edges"]:
                r = rng.random()
                if pairs[(e["src"], e["tgt"])] > 1:
                    continue
                if r < 0.45:
                    d, sp_ = rng.choice(c11.DS)
                    e["delay"], e["spread"] = C.q2s(d), C.q2s(sp_)
                elif r < 0.75:
                    e["delay"] = C.q2s(DT * rng.choice([2, 3]))
            if not any(e.get("delay") for e in mdl["circuit"]["edges"]):
                continue
        else:
            mdl = G.gen_model(rng, max_nodes=3, depth=0, hostile=False, overrides=rng.random() < 0.3, linear=True)
        flat = M.flatten(mdl)
        sp = M.state_paths(flat)
        if not sp or len(set(sp)) != len(sp) or len(sp) > 6:
            continue
        # drop parallel edges: the edge index of param_map is ignored by update_var on the unchanged tree (known, loud-less) - swept edges are unique pairs
        seen, edges = set(), []
        for e in mdl["circuit"]["edges"]:
            k = (e["src"], e["tgt"])
            if k in seen:
                continue
            seen.add(k)
            edges.append(e)
        vectorize = rng.random() < 0.6 or force_big_edge
        if vectorize:
            # C04's known finding (an edge from an algebraic variable into its own merged group reads a stale value) would be hit by every sweep, where all copies
            # are merged: vectorized sweeps use edges that leave state variables only
            edges = [e for e in edges if e["src"] in sp]
        mdl["circuit"]["edges"] = edges
        edge_ops = bool(edges) and rng.random() < 0.3 and not force_big_edge and not delays
        if edge_ops:
            # some edges carry an edge operator (coupling function / dynamic synapse): the rows of a sweep share one vectorized edge operator
            from . import c04
            c04.add_edge_templates(rng, mdl)
        flat = M.flatten(mdl)
        consts = {}     # op name -> (const names, node labels having the op)
        for n in flat["nodes"]:
            if n["path"].startswith("__edge"):
                continue
            for o in n["ops"]:
                cs = [d["name"] for d in o["vars"] if M.kind_of(o, d) == "const"]
                if cs:
                    consts.setdefault(o["name"], [cs, []])[1].append(n["path"])
        nkeys = rng.randint(1, 3)
        keys, pmap = [], {}
        for k in range(nkeys):
            kn = f"K{k}"
            if edges and (rng.random() < 0.35 or (force_big_edge and k == 0)):
                es = rng.sample(edges, rng.randint(1, min(2, len(edges))))
                pmap[kn] = {"vars": ["weight"], "edges": [[e["src"], e["tgt"]] + ([0] if rng.random() < 0.3 else []) for e in es]}
                if len({len(x) for x in pmap[kn]["edges"]}) > 1:
                    pmap[kn]["edges"] = [x[:2] for x in pmap[kn]["edges"]]
            elif consts:
                on = rng.choice(sorted(consts))
                cs, nodes = consts[on]
                pmap[kn] = {"vars": [f"{on}/{c}" for c in rng.sample(cs, rng.randint(1, min(2, len(cs))))], "nodes": rng.sample(nodes, rng.randint(1, len(nodes)))}
            else:
                continue
            keys.append(kn)
        kd = None
        if delays and rng.random() < 0.6:
            # the mean delay of one gamma-kernel edge is itself swept, in blocks of equal values followed by another value
            # (rows with equal kernels share a chain in the combined network, the next block needs its own)
            gam = [e for e in edges if e.get("spread") is not None]
            if gam:
                e = rng.choice(gam)
                sp_, ds_ = rng.choice([(F(1, 2), [F(1, 2), F(1)]), (F(1, 4), [F(1, 2), F(1, 4)])])
                e["spread"], e["delay"] = C.q2s(sp_), C.q2s(ds_[0])
                kd = ("KD", [e["src"], e["tgt"]], ds_)
                pmap["KD"] = {"vars": ["delay"], "edges": [[e["src"], e["tgt"]]]}
                keys = [k for k in keys if not ("edges" in pmap[k] and [e["src"], e["tgt"]] in [x[:2] for x in pmap[k]["edges"]])] + ["KD"]
                pmap = {k: pmap[k] for k in keys}
        if not keys or (force_big_edge and "edges" not in pmap[keys[0]]):
            continue
        # two keys must not address the same target
        tg = []
        for kn in keys:
            pm = pmap[kn]
            tg += [(n, v) for n in pm.get("nodes", []) for v in pm["vars"]] + [(tuple(e[:2]), "w") for e in pm.get("edges", [])]
        if len(set(tg)) != len(tg):
            continue
        permute = rng.random() < 0.4 and not force_big_edge
        big = (rng.random() < 0.2 and not permute) or force_big_edge
        if permute:
            lens = [rng.randint(1, 3) for _ in keys]
        else:
            n = rng.choice([10, 11, 12]) if big else rng.randint(1, 5)
            lens = [n] * len(keys)
        grid = {}
        for kn, ln in zip(keys, lens):
            if kd and kn == "KD":
                ds_ = kd[2]
                if permute:
                    vals = ds_[:ln] if ln <= 2 else [ds_[0], ds_[1], ds_[0]][:ln]
                    vals = list(dict.fromkeys(vals))
                    lens[keys.index(kn)] = len(vals)
                else:
                    nb = rng.randint(1, ln)
                    vals = sorted([ds_[0]] * nb + [ds_[1]] * (ln - nb), key=lambda v: ds_.index(v))
                grid[kn] = [C.q2s(v) for v in vals]
                continue
            if "edges" in pmap[kn] and big:
                vals = [F(k, 16) for k in range(17 - ln, 17)]           # dyadic, largest weight exactly 1
            else:
                vals = rng.sample([F(a, b) for a in range(-6, 7) for b in (1, 2, 4)], 13)[:ln]
                vals = list(dict.fromkeys(vals))
                while len(vals) < ln:
                    vals.append(F(rng.randint(7, 40), 8))
            grid[kn] = [C.q2s(v) for v in vals]
        nrows = int(np.prod(lens)) if permute else lens[0]
        as_frame = (not permute) and rng.random() < 0.35
        frame_index = None
        if as_frame:
            frame_index = list(range(nrows))
            if rng.random() < 0.6:
                rng.shuffle(frame_index)
        solver = rng.choice(["euler", "euler", "heun"]) if not delays else "euler"      # (Heun advances ring buffers twice per step: C09's known finding)
        steps = rng.choice([4, 6])
        ext = []
        if nrows < 10 and rng.random() < 0.3 and not delays:      # (the augmented-system oracle of the delay stratum takes no extrinsic inputs)
            ins = [f"{n['path']}/{o['name']}/{d['name']}" for n in flat["nodes"] for o in n["ops"] for d in o["vars"] if M.kind_of(o, d) == "input"
                   and not any(e["tgt"] == [n["path"], o["name"], d["name"]] for e in flat["edges"]) and not any(x["output"] == d["name"] for x in n["ops"])]
            if ins:
                ext = [{"tgt": rng.choice(ins), "samples": [C.q2s(F(rng.randint(-4, 4), 2)) for _ in range(steps)]}]
        case = {"mdl": mdl, "grid": grid, "param_map": pmap, "permute": permute, "as_frame": as_frame, "frame_index": frame_index, "solver": solver, "steps": steps,
                "vectorize": vectorize, "ext_inputs": ext, "as_path": rng.random() < 0.3 and not edge_ops and not delays, "edge_ops": edge_ops, "delays": delays}
        # admissible: every row's exact trajectory stays within float64
        try:
            ok = True
            for row in expected_rows(case):
                if delays:
                    _, mb = row_traj(row_case(case, row))
                    if mb > 48:
                        ok = False
                        break
                    continue
                o = N.oracle_traj(row_case(case, row))
                if "error" in o or o["bits"] > 48:
                    ok = False
                    break
            if not ok:
                continue
        except (ValueError, RecursionError, ZeroDivisionError):
            continue
        return case
    raise C.HarnessError("C17 generator could not produce an admissible case")


def expected_rows(case):
    """independent of Lean: the grid rows as documented (linear: i-th entries; permuted: numpy meshgrid 'xy' order)"""
    keys = list(case["grid"])
    vals = [[F(v) for v in case["grid"][k]] for k in keys]
    if not case["permute"]:
        return [dict(zip(keys, r)) for r in zip(*vals)]
    mesh = np.stack(np.meshgrid(*[np.arange(len(v)) for v in vals]), -1).reshape(-1, len(keys))
    return [{k: vals[j][int(ix[j])] for j, k in enumerate(keys)} for ix in mesh]


def row_case(case, row):
    """the circuit with the values of one grid row applied, as a run case for the oracle / Lean model"""
    mdl = copy.deepcopy(case["mdl"])
    pv = dict(mdl.get("post_values", {}))
    for k, val in row.items():
        pm = case["param_map"][k]
        if "nodes" in pm:
            for n in pm["nodes"]:
                for v in pm["vars"]:
                    pv[f"{n}/{v}"] = str(val)
        else:
            for e in pm["edges"]:
                for ed in mdl["circuit"]["edges"]:
                    if ed["src"] == e[0] and ed["tgt"] == e[1]:
                        ed["delay" if pm["vars"] == ["delay"] else "w"] = str(val)
    mdl["post_values"] = pv
    return {"mdl": mdl, "run": {"T": str(DT * case["steps"]), "dt": str(DT), "solver": case["solver"]}, "ext_inputs": case["ext_inputs"], "interp": {}}


def row_traj(rc, drv=None):
    """exact trajectory of one row's circuit when it has delayed edges: the explicitly augmented system of C11 (chains) with C09's discrete shifts"""
    from . import c11
    flat = M.flatten(rc["mdl"])
    aug, _ = c11.expand(flat, 0, drv, dt=rc["run"]["dt"])
    rows, mb = c11.oracle_traj_flat(aug, rc["run"])
    if drv is not None:
        tr = drv.ask(N.model_traj_request({"mdl": None, "run": rc["run"], "ext_inputs": [], "interp": {}}, aug))
        if tr.get("rows") != rows:
            raise C.HarnessError("Lean trajectory of the augmented row circuit and the Fraction oracle disagree")
    return rows, mb


def impl_sweep(case):
    import pandas as pd
    from pyrates.utility import grid_search
    mdl = case["mdl"]
    flat = M.flatten(mdl)
    sp = [p_ for p_ in M.state_paths(flat) if not p_.startswith("__edge")]      # variables of edge operators are not addressable outputs
    with M.Scratch():
        with warnings.catch_warnings():
            warnings.simplefilter("ignore")
            try:
                c, _, _ = M.build_pyrates(mdl)
                if case.get("as_path"):
                    # the circuit is given to grid_search as a YAML path (every row is adapted from the template loaded from that path)
                    from .c15_e2e import mdl_to_yaml
                    os.makedirs("ymod", exist_ok=True)
                    open("ymod/model.yaml", "w").write(mdl_to_yaml(mdl))
                    cname = c.name
                    c = os.path.join(os.getcwd(), "ymod", "model", mdl["circuit"]["name"])
                grid = {k: [float(F(v)) for v in vs] for k, vs in case["grid"].items()}
                if case["as_frame"]:
                    grid = pd.DataFrame(grid, index=case["frame_index"])
                pmap = {}
                for k, pm in case["param_map"].items():
                    pmap[k] = {"vars": list(pm["vars"])}
                    if "nodes" in pm:
                        pmap[k]["nodes"] = list(pm["nodes"])
                    else:
                        pmap[k]["edges"] = [tuple(e) for e in pm["edges"]]
                outputs = {f"o{i}": p for i, p in enumerate(sp)}
                kw = dict(step_size=float(DT), simulation_time=float(DT * case["steps"]), outputs=outputs, permute_grid=case["permute"], solver=case["solver"],
                          vectorize=case["vectorize"], verbose=False, float_precision="float64", clear=True)
                if case["ext_inputs"]:
                    kw["inputs"] = {x["tgt"]: np.array([float(F(s)) for s in x["samples"]]) for x in case["ext_inputs"]}
                res, tab = grid_search(c, grid, pmap, **kw)
                cols = []
                for j, col in enumerate(res.columns):
                    cols.append([[str(x) for x in col] if isinstance(col, tuple) else [str(col)], [C.f2s(x) for x in res.values[:, j]]])
                table = {str(idx): {k: C.f2s(tab[k][idx]) for k in tab.columns} for idx in tab.index}
                return {"cols": cols, "table": table, "table_order": [str(i) for i in tab.index], "outputs": outputs, "index": [C.f2s(t) for t in res.index.values], "name": (cname if case.get("as_path") else c.name)}
            except Exception as e:
                return {"error": type(e).__name__, "msg": str(e)[:300]}


def check(tier, seed, replay=None):
    rep = C.Report(PID, tier, seed)
    rng = random.Random(seed)
    proof_ok, detail = C.prepare_lean(rep)
    rep.cov["rule"] = __doc__.split("Correspondence")[1][:1200]
    if replay:
        cases = [json.load(open(replay))["case"]]
    else:
        cases = [json.load(open(f))["case"] for f in sorted(glob.glob(os.path.join(C.VERIF, "corpus", PID, "*.json")))]
        cases += [gen_case(rng, tier) for _ in range(60 if tier == "quick" else 900)]
        # sweeps of an edge weight over >= 10 rows whose largest value is exactly 1 (the sparse index path of merged edges)
        cases += [gen_case(rng, tier, force_big_edge=True) for _ in range(8 if tier == "quick" else 80)]
    impl = C.run_forked(impl_sweep, cases, timeout=600)
    drv = C.Driver()
    bad = []
    active_kf = {f["id"] for f in C.load_known_findings() if f.get("property") == PID and f.get("status") == "known"}
    for case, im in zip(cases, impl):
        if "crash" in im:
            raise C.HarnessError("harness child crashed: " + str(im)[:800])
        keys = list(case["grid"])
        kinds = "+".join(sorted({"edge" if "edges" in case["param_map"][k] else "node" for k in keys}))
        multi = any(len(pm.get("nodes", [])) * len(pm["vars"]) > 1 or len(pm.get("edges", [])) > 1 for pm in case["param_map"].values())
        rep.count(("permuted" if case["permute"] else "linear") + ("-frame" if case["as_frame"] else "") + "-" + kinds + ("-input" if case["ext_inputs"] else "") + ("-yamlpath" if case.get("as_path") else "") + ("-edgeops" if case.get("edge_ops") else "") + ("-delays" if case.get("delays") else ""),
                  json.dumps(case, sort_keys=True), nontrivial=multi and len(keys) >= 2)
        if "error" in im:
            bad.append((case, [("raises", im)]))
            continue
        dev = []
        # (1) the table: Lean grid rows, in order
        mo = drv.ask({"comp": "grid", "vals": [case["grid"][k] for k in keys], "permute": case["permute"]})
        rows = expected_rows(case)
        if "rows" not in mo or [[C.q2s(r[k]) for k in keys] for r in rows] != mo["rows"]:
            raise C.HarnessError("Lean grid model and the numpy-based oracle disagree: " + json.dumps(case["grid"])[:300])
        labels_in_order = im["table_order"]
        idx_labels = case["frame_index"] if case["as_frame"] else list(range(len(rows)))
        exp_labels = [f"{im['name']}_{i}" for i in idx_labels]
        if labels_in_order != exp_labels:
            dev.append(("table-labels", {"got": labels_in_order[:6], "expected": exp_labels[:6]}))
        for lb, r in zip(exp_labels, rows):
            got = im["table"].get(lb)
            if got != {k: C.q2s(r[k]) for k in keys}:
                dev.append(("table-row", {"label": lb, "got": got, "expected": {k: C.q2s(r[k]) for k in keys}}))
                break
        # (2) every column of a label is the trajectory of the circuit with the values the table lists for that label
        if not dev:
            bycol = {}
            for col, vals in im["cols"]:
                # a sweep with a single row (and one variable per output) comes back with plain columns: the only label there is
                bycol.setdefault((col[0], col[1] if len(col) > 1 else exp_labels[0]), []).append(vals)
            for lb, r in zip(exp_labels, rows):
                rc = row_case(case, r)
                if case.get("delays"):
                    tr = {"rows": row_traj(rc, drv)[0]}
                else:
                    flat = M.flatten(rc["mdl"])
                    tr = drv.ask(N.model_traj_request(rc, flat))
                    if "rows" not in tr:
                        raise C.HarnessError("Lean model failed on a sweep row: " + json.dumps(tr)[:200])
                    orc = N.oracle_traj(rc)
                    if orc["rows"] != tr["rows"]:
                        raise C.HarnessError("Lean trajectory and Fraction oracle disagree: " + json.dumps(case)[:300])
                for ok_, path in im["outputs"].items():
                    exp = [row[path] for row in tr["rows"]]
                    got = bycol.get((ok_, lb))
                    if got is None or len(got) != 1:
                        dev.append(("missing-or-duplicated-column", {"output": path, "label": lb, "n_columns": 0 if got is None else len(got)}))
                        break
                    if got[0] != exp:
                        k0 = next((k for k in range(min(len(exp), len(got[0]))) if got[0][k] != exp[k]), None)
                        dev.append(("time-series-is-not-the-separate-run", {"label": lb, "table_row": {k: C.q2s(r[k]) for k in keys}, "variable": path, "first_wrong_sample": k0,
                                                                          "got": got[0][k0] if k0 is not None else got[0], "expected": exp[k0] if k0 is not None else exp}))
                        break
                if dev:
                    break
        if dev:
            bad.append((case, dev))
        else:
            rep.validated()
    drv.close()
    rep.cov["streams"]["sweeps_with_deviations"] = len(bad)
    if cases and "table" in impl[-1]:
        rep.sample({"grid": cases[-1]["grid"], "param_map": cases[-1]["param_map"], "table": dict(list(impl[-1]["table"].items())[:3])})
    if bad:
        case, dev = min(bad, key=lambda x: len(json.dumps(x[0])))
        rep.violation(f"grid_search does not return what separate runs return ({dev[0][0]})", {"case": case, "deviations": dev[:4]})
    elif not proof_ok:
        why = {"proof_ok": proof_ok, "build_log_tail": detail["build_log_tail"], "forbidden": detail["forbidden"],
               "audit_failures": (detail["audit"] or {}).get("failures"), "broken": "theorems of PyRatesModel.Props.C17 (build/audit)"}
        rep.violation("C17 is no longer shown to hold: " + why["broken"], why, no_input=True, name="unproved")
    return rep.finish()
