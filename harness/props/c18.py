"""C18 — auto-07p export addresses every parameter and state consistently.

Proof: lean/PyRatesModel/Props/C18.lean — `_auto_param_indices` modelled as a loop and proved, for every number of parameters, to produce
strictly increasing (hence pairwise distinct) slots in declaration order that avoid PAR(11..14), with NPAR = the last slot (closed form
slots_closed); the blocked range and the time slot are regenerated from the source.
Correspondence: scalar models with 1..25 parameters, shuffled declaration order vs order of first use, 1-3 state variables, are exported with
get_run_func(backend='fortran', auto=True); the generated .f90 and c.* texts are parsed: parnames, STPNT initialisation, the call forwarding PAR
slots, the vector-field signature, DFDP columns (auto_jac), unames, NDIM, NPAR; slots are compared with the Lean model; the compiled vector field
is called through f2py and compared exactly with the oracle."""
import copy, random, json, os, glob, re, warnings
from fractions import Fraction as F
import numpy as np
from .. import common as C
from .. import mdl as M, netcheck as N, extract_tables

PID = "C18"


def gen_case(rng, tier, n_params=None, chain=False, inexact=False):
    n = n_params or rng.randint(1, 25)
    names = [f"q{i}" for i in range(n)]
    if rng.random() < 0.5:
        pool = ["tau", "eta", "Delta", "k", "alpha", "g", "a1", "b_", "w", "cc", "J", "v_th", "d0", "s1", "mu", "nu", "rho", "kap", "lam", "om", "zz", "p1", "p2", "p3", "p4"]
        names = rng.sample(pool, n)
    nstate = rng.randint(1, 3)
    states = ["x1", "x2", "x3"][:nstate]
    decl_order = list(names)
    rng.shuffle(decl_order)
    use_order = list(names)
    rng.shuffle(use_order)
    # equations: every parameter is used; order of first use differs from declaration order
    eqs = []
    chunks = [use_order[i::nstate] for i in range(nstate)]
    for s, ch in zip(states, chunks):
        rhs = M.mul(M.num(F(-1, 2)), M.var(s))
        for p in ch:
            other = rng.choice(states)
            rhs = M.add(rhs, M.mul(M.var(p), M.var(other)) if rng.random() < 0.6 else M.var(p))
        eqs.append({"lhs": s, "de": True, "rhs": rhs})
    vars_ = {}
    items = [(s, {"decl": "output" if i == 0 else "var", "value": str(F(rng.randint(-3, 3), rng.choice([1, 2, 4])))}) for i, s in enumerate(states)]
    pitems = [(p, {"decl": "const", "value": str(F(rng.randint(-6, 6), rng.choice([1, 2, 4])))}) for p in decl_order]
    # states and parameters interleaved in the declaration
    allitems = items + pitems
    if rng.random() < 0.5:
        allitems = pitems[:len(pitems) // 2] + items + pitems[len(pitems) // 2:]
    for k, d in allitems:
        vars_[k] = d
    mdl = {"ops": {"O": {"name": "aop", "eqs": eqs, "vars": vars_}}, "node_templates": {"N": {"name": "n", "ops": ["O"]}},
           "circuit": {"name": "net", "nodes": {"p": "N"}, "edges": []}}
    pts = [{f"p/aop/{s}": C.q2s(F(rng.randint(-3, 3), rng.choice([1, 2]))) for s in states} for _ in range(2)]
    case = {"mdl": mdl, "decl_params": decl_order, "states": states, "points": pts, "pis": [{}, {}], "jac": rng.random() < 0.6, "scenario": rng.choice(["ivp", "eq", "lc"])}
    if chain:
        # a second operator on the same node reads the first operator's output; its parameters are declared in an order that differs from their first use
        m = rng.randint(2, 5)
        names2 = [f"k{i}" for i in range(m)]
        decl2 = list(names2); rng.shuffle(decl2)
        use2 = list(reversed(decl2)) if rng.random() < 0.7 else rng.sample(names2, m)
        rhs = M.mul(M.num(F(-1, 2)), M.var("u2"))
        for q in use2:
            rhs = M.add(rhs, M.mul(M.var(q), M.var(states[0]) if rng.random() < 0.6 else M.var("u2")))
        v2 = {"u2": {"decl": "output", "value": str(F(rng.randint(-3, 3), 2))}, states[0]: {"decl": "input", "value": "0"}}
        items2 = [(q, {"decl": "const", "value": str(F(rng.randint(1, 6), rng.choice([1, 2, 4])))}) for q in decl2]
        v2 = dict(list(v2.items()) + items2) if rng.random() < 0.5 else dict(items2[:1] + list(v2.items()) + items2[1:])
        mdl["ops"]["O2"] = {"name": "bop", "eqs": [{"lhs": "u2", "de": True, "rhs": rhs}], "vars": v2}
        mdl["node_templates"]["N"]["ops"] = ["O", "O2"]
        case["decl_params"] = decl_order + decl2
        case["states2"] = ["u2"]
        for pt in pts:
            pt["p/bop/u2"] = C.q2s(F(rng.randint(-3, 3), rng.choice([1, 2])))
    if rng.random() < 0.5:
        # parameter values overridden on the template (update_var) before the export: slots still follow the declaration, STPNT carries the new values
        cand = [f"p/{o['name']}/{k}" for o in mdl["ops"].values() for k, d in o["vars"].items() if d["decl"] == "const"]
        case["update_var"] = {pth: str(F(rng.randint(-6, 6), rng.choice([1, 2, 4]))) for pth in rng.sample(cand, rng.randint(1, min(3, len(cand))))}
        mdl["post_values"] = dict(case["update_var"])      # the exact oracle applies them too
    if n >= 3 and rng.random() < 0.15 and not chain:
        case["auto_parnames"] = {"3": "gain"}
    if not chain and n <= 12 and rng.random() < 0.2:
        # two nodes built from the same node template: the second instance of every variable is renamed `<name>_v1`; its slots follow the first node's, in declaration order
        def ren(e):
            t = e[0]
            if t == "var": return ["var", e[1] + "_v1"]
            if t in ("add", "sub", "mul"): return [t, ren(e[1]), ren(e[2])]
            if t == "neg": return [t, ren(e[1])]
            if t == "pow": return [t, ren(e[1]), e[2]]
            if t == "call": return [t, e[1], [ren(a) for a in e[2]]]
            return e
        mdl["circuit"]["nodes"] = {"p": "N", "q": "N"}
        o = mdl["ops"]["O"]
        case["check_ops"] = {"O": o, "O_v1": {"name": o["name"], "eqs": [{"lhs": q["lhs"] + "_v1", "de": q["de"], "rhs": ren(q["rhs"])} for q in o["eqs"]],
                                               "vars": {k + "_v1": d for k, d in o["vars"].items()}}}
        case["decl_params"] = decl_order + [nm + "_v1" for nm in decl_order]
        case["states2"] = [s_ + "_v1" for s_ in states]
        for pt in case["points"]:
            for s_ in states:
                pt[f"q/aop/{s_}"] = C.q2s(F(rng.randint(-3, 3), rng.choice([1, 2])))
        case.pop("auto_parnames", None)
    if rng.random() < 0.4:
        # another export in the same process first: the same equations with the parameters declared in reverse order (another slot layout)
        case["pre_export_reversed"] = True
    if inexact:
        # values that have no short decimal representation: STPNT has to carry them to full double precision
        pool_v = [F(1, 3), F(2, 7), F(1, 2 ** 40), F(3, 10 ** 14), F(10 ** 15 + 1, 2), F(-1, 3), F(123456789, 1000000007), F(1, 2 ** 60)]
        for opid in mdl["ops"]:
            for k, d in mdl["ops"][opid]["vars"].items():
                if d["decl"] in ("const", "output", "var") and rng.random() < 0.6:
                    d["value"] = str(rng.choice(pool_v))
        case["inexact"] = True
    return case


def reversed_decl(mdl):
    """the same model with the constants of every operator declared in reverse order (other variables keep their places)"""
    m2 = copy.deepcopy(mdl)
    for o in m2["ops"].values():
        keys = list(o["vars"])
        consts = [k for k in keys if o["vars"][k]["decl"] == "const"]
        it = iter(reversed(consts))
        o["vars"] = {k2: o["vars"][k2] for k2 in [(next(it) if o["vars"][k]["decl"] == "const" else k) for k in keys]}
    return m2


def impl_export(case):
    mdl = case["mdl"]
    with M.Scratch() as wd:
        with warnings.catch_warnings():
            warnings.simplefilter("ignore")
            if case.get("pre_export_reversed"):
                try:
                    c0, _, _ = M.build_pyrates(reversed_decl(mdl))
                    kw0 = dict(step_size=1e-3, file_name="amod0", backend="fortran", float_precision="float64", auto=True, vectorize=False, solver="scipy", verbose=False)
                    if case["jac"]:
                        kw0["auto_jac"] = True
                    c0.get_run_func("vfx", **kw0)
                    from pyrates import clear_frontend_caches
                    clear_frontend_caches()
                except Exception as e:
                    return {"error": type(e).__name__, "msg": "pre-export: " + str(e)[:300]}
            try:
                c, _, _ = M.build_pyrates(mdl)
                if case.get("update_var"):
                    c.update_var(node_vars={k: float(F(v)) for k, v in case["update_var"].items()})
                kw = dict(step_size=1e-3, file_name="amod", backend="fortran", float_precision="float64", auto=True, vectorize=False, solver="scipy", verbose=False)
                if case["jac"]:
                    kw["auto_jac"] = True
                if case["scenario"] != "ivp":
                    kw["auto_constants"] = (case["scenario"],)
                if case.get("auto_parnames"):
                    kw["auto_parnames"] = {int(k_): v_ for k_, v_ in case["auto_parnames"].items()}       # a partial, user-supplied naming
                func, args, names, smap = c.get_run_func("vfx", **kw)
            except Exception as e:
                return {"error": type(e).__name__, "msg": str(e)[:300]}
            src = open("amod.f90").read()
            cfile = open(f"c.{case['scenario']}").read()
            out = {"f90": src, "c": cfile, "arg_names": list(names), "layout": {k: (v if isinstance(v, int) else str(v)) for k, v in smap.items()}}
            # exported vector field = the model's
            try:
                n = len(np.asarray(args[1]))
                res = []
                for pt in case["points"]:
                    y = np.zeros(n)
                    for p, idx in smap.items():
                        y[idx] = float(F(pt[p]))
                    dy = np.zeros(n)
                    r = func(0.0, y, dy, *args[3:])
                    dyv = np.asarray(r if r is not None else dy, dtype=float)
                    res.append({p: C.f2s(dyv[idx]) for p, idx in smap.items()})
                out["dy"] = res
                out["args"] = {nm: [C.f2s(x) for x in np.asarray(args[i]).reshape(-1)] for i, nm in enumerate(names) if i >= 3}
            except Exception as e:
                out["call_error"] = {"error": type(e).__name__, "msg": str(e)[:200]}
            return out


def parse_export(res):
    src, cf = res["f90"], res["c"]
    P = {}
    m = re.search(r"parnames\s*=\s*\{([^}]*)\}", cf)
    P["parnames"] = {int(i): n for i, n in re.findall(r"(\d+)\s*:\s*'([^']+)'", m.group(1))} if m else {}
    m = re.search(r"unames\s*=\s*\{([^}]*)\}", cf)
    P["unames"] = {int(i): n for i, n in re.findall(r"(\d+)\s*:\s*'([^']+)'", m.group(1))} if m else {}
    P["NDIM"] = int(re.search(r"^NDIM\s*=\s*(\d+)", cf, re.M).group(1))
    P["NPAR"] = int(re.search(r"^NPAR\s*=\s*(\d+)", cf, re.M).group(1))
    flat = re.sub(r"&\s*\n\s*&?", "", src)
    m = re.search(r"subroutine vfx\s*\(([^)]*)\)", flat)
    P["signature"] = [a.strip() for a in m.group(1).split(",")] if m else []
    m = re.search(r"call vfx\s*\(([^\n]*)\)", flat)
    callargs = [a.strip() for a in re.findall(r"args\(\d+\)|y|dy", m.group(1))] if m else []
    P["call"] = callargs
    st = flat[flat.index("subroutine stpnt"):]
    st = st[:st.index("end subroutine stpnt")]
    P["stpnt_args"] = {int(i): (v.strip(), n.strip()) for i, v, n in re.findall(r"args\((\d+)\)\s*=\s*([^!\n]+)!\s*(\S+)", st)}
    P["stpnt_y"] = {int(i): (v.strip(), n.strip()) for i, v, n in re.findall(r"y\((\d+)\)\s*=\s*([^!\n]+)!\s*(\S+)", st)}
    fn = flat[flat.index("subroutine func"):]
    fn = fn[:fn.index("end subroutine func")]
    P["dfdp_cols"] = sorted({int(j) for j in re.findall(r"dfdp\(\d+,\s*(\d+)\)", fn)})
    P["dfdp_entries"] = re.findall(r"dfdp\((\d+),\s*(\d+)\)\s*=\s*([^\n]+)", fn)
    P["dfdu_entries"] = re.findall(r"dfdu\((\d+),\s*(\d+)\)\s*=\s*([^\n]+)", fn)
    return P


def fval(txt):
    t = txt.strip().lower().replace("d", "e").replace("_8", "")
    return float(t)


def deviations(case, res, slots, tables):
    if "error" in res:
        return [("raises", res)]
    try:
        P = parse_export(res)
    except Exception as e:
        return [("unparsable-export", {"error": f"{type(e).__name__}: {e}"})]
    bad = []
    decl = case["decl_params"]
    n = len(decl)
    opsd = case.get("check_ops") or case["mdl"]["ops"]
    op = {"eqs": [e for o in opsd.values() for e in o["eqs"]]}
    # the values PyRates was given are the float64 nearest to the declared rationals
    val = {k: F(float(F(d["value"]))) for o in opsd.values() for k, d in o["vars"].items() if d["decl"] != "input"}
    for pth, v in (case.get("update_var") or {}).items():
        val[pth.rsplit("/", 1)[1]] = F(float(F(v)))
    exp_par = {s: nm for s, nm in zip(slots, decl)}
    if case.get("auto_parnames"):
        # the user's names replace the derived ones in the c.* file; slots, STPNT, the call and NPAR still cover every model parameter
        if P["parnames"] != {int(k_): v_ for k_, v_ in case["auto_parnames"].items()}:
            bad.append(("user-parnames-not-written", {"got": P["parnames"], "expected": case["auto_parnames"]}))
        if P["NPAR"] != max(slots):
            bad.append(("NPAR-does-not-cover-the-model-slots", {"NPAR": P["NPAR"], "highest_model_slot": max(slots)}))
        P = dict(P, parnames=exp_par)          # the remaining comparisons use the derived slot -> name map
        if P["NPAR"] != max(slots):
            return bad
    if P["parnames"] != exp_par:
        bad.append(("parnames-not-declaration-order-on-model-slots", {"got": P["parnames"], "expected": exp_par}))
    got_slots = sorted(P["parnames"])
    lo, hi = tables["autoBlocked"]
    if len(set(P["parnames"])) != n or any(lo < s < hi for s in got_slots) or any(s == tables["autoTimeSlot"] for s in got_slots):
        bad.append(("slots-not-distinct-or-reserved", got_slots))
    # STPNT: same slot, model's value
    for s, nm in P["parnames"].items():
        if s not in P["stpnt_args"] or P["stpnt_args"][s][1] != nm:
            bad.append(("stpnt-slot-mismatch", {"slot": s, "parnames": nm, "stpnt": P["stpnt_args"].get(s)}))
        elif nm in val and F(fval(P["stpnt_args"][s][0])) != val[nm]:
            bad.append(("stpnt-value", {"name": nm, "got": P["stpnt_args"][s][0], "declared": str(val[nm])}))
    # call: the i-th forwarded slot must be the slot of the i-th parameter of the vector-field signature
    sig_params = P["signature"][3:]
    fwd = [int(re.search(r"\d+", a).group(0)) for a in P["call"] if a.startswith("args(")]
    if not fwd or fwd[0] != tables["autoTimeSlot"]:
        bad.append(("time-slot", fwd[:1]))
    fwd_params = fwd[1:]
    if len(fwd_params) != len(sig_params):
        bad.append(("call-arity", {"call": fwd_params, "signature": sig_params}))
    else:
        for s, nm in zip(fwd_params, sig_params):
            if P["parnames"].get(s) != nm:
                bad.append(("call-forwards-wrong-slot", {"signature_param": nm, "forwarded_slot": s, "slot_holds": P["parnames"].get(s)}))
    # states
    all_states = case["states"] + case.get("states2", [])
    if set(P["unames"].values()) != set(all_states) or P["NDIM"] != len(all_states):
        bad.append(("unames/NDIM", {"unames": P["unames"], "NDIM": P["NDIM"]}))
    for i, nm in P["unames"].items():
        if i not in P["stpnt_y"] or P["stpnt_y"][i][1] != nm or F(fval(P["stpnt_y"][i][0])) != val.get(nm):
            bad.append(("stpnt-state", {"i": i, "uname": nm, "stpnt": P["stpnt_y"].get(i), "declared": str(val.get(nm))}))
    if P["NPAR"] != (max(P["parnames"]) if P["parnames"] else 1):
        bad.append(("NPAR", {"NPAR": P["NPAR"], "max_slot": max(P["parnames"]) if P["parnames"] else None}))
    # DFDP columns are parameter slots, and d f_i / d p for a term `p` or `p*x` is checked by name
    if case["jac"]:
        if any(c not in P["parnames"] for c in P["dfdp_cols"]):
            bad.append(("dfdp-column-not-a-parameter-slot", {"cols": P["dfdp_cols"], "slots": sorted(P["parnames"])}))
        # which parameters does equation i mention?
        for row, col, expr in P["dfdp_entries"]:
            nm = P["parnames"].get(int(col))
            eq = op["eqs"][[e["lhs"] for e in op["eqs"]].index(P["unames"].get(int(row)))] if P["unames"].get(int(row)) in [e["lhs"] for e in op["eqs"]] else None
            if eq is not None and nm is not None and nm not in M.fvars(eq["rhs"]):
                bad.append(("dfdp-entry-for-parameter-not-in-equation", {"row": row, "col": col, "param": nm, "expr": expr}))
        # every DFDU / DFDP entry, evaluated at a generic point through the slots of THIS export, is the derivative of the model's equation
        # (the right-hand sides are multilinear in states and parameters, so a forward difference is the exact derivative)
        if not bad and not case.get("inexact"):
            names = sorted(val)
            env = {nm: F(2 * k + 3, 2) for k, nm in enumerate(names)}
            eqs = {e["lhs"]: e["rhs"] for e in op["eqs"]}

            def f(lhs, e_):
                return M.ev(eqs[lhs], e_.__getitem__, {})

            def fort(expr):
                t = re.sub(r"args\((\d+)\)", lambda m: f"A[{m.group(1)}]", expr.strip())
                t = re.sub(r"\by\((\d+)\)", lambda m: f"Y[{m.group(1)}]", t)
                t = re.sub(r"(?<![\w\[])(\d+\.?\d*(?:[dDeE][+-]?\d+)?)(?![\w\]])", lambda m: "F('" + m.group(1).lower().replace("d", "e") + "')", t)
                return eval(t, {"F": F, "A": {s_: env[nm] for s_, nm in P["parnames"].items()}, "Y": {i: env[nm] for i, nm in P["unames"].items()}})
            for kind, entries, cols in (("dfdu", P["dfdu_entries"], P["unames"]), ("dfdp", P["dfdp_entries"], P["parnames"])):
                got = {}
                try:
                    for r_, c_, ex in entries:
                        got[(int(r_), int(c_))] = fort(ex)
                except Exception as e:
                    bad.append((kind + "-entry-unreadable", {"error": f"{type(e).__name__}: {e}", "entries": entries[:4]}))
                    continue
                for i, lhs in P["unames"].items():
                    for cidx, nm in cols.items():
                        e2 = dict(env); e2[nm] = env[nm] + 1
                        want = f(lhs, e2) - f(lhs, env)
                        if got.get((i, cidx), F(0)) != want:
                            bad.append((kind + "-entry-is-not-the-derivative", {"row": i, "col": cidx, "equation_of": lhs, "with_respect_to": nm, "got": str(got.get((i, cidx), 0)), "expected": str(want)}))
                            break
    return bad


def check(tier, seed, replay=None):
    rep = C.Report(PID, tier, seed)
    rng = random.Random(seed)
    proof_ok, detail = C.prepare_lean(rep)
    tables, _ = extract_tables.extract(C.REPO)
    rep.cov["rule"] = ("scalar one-node models with n = 1..25 parameters (n = 9, 10, 11, 14, 15 always included), random parameter names, declaration order != order of first use, 1-3 state "
                       "variables, states interleaved with parameters in the declaration, scenarios ivp/eq/lc, with and without auto_jac; two-operator nodes (the second operator reads the first one's output, declares its parameters in another order than it uses them); parameter/initial values without a short decimal form (1/3, 2^-40, 3e-14, ...); exported with the fortran backend (f2py + "
                       "gfortran) and parsed.  distinct = distinct cases; non-trivial = more than 9 parameters (crosses the reserved range)")
    if replay:
        cases = [json.load(open(replay))["case"]]
    else:
        cases = [json.load(open(f))["case"] for f in sorted(glob.glob(os.path.join(C.VERIF, "corpus", PID, "*.json")))]
        fixed = [9, 10, 11, 14, 15, 1]
        forced = gen_case(rng, tier, 12)
        forced["auto_parnames"] = {"3": "gain"}
        cases += [gen_case(rng, tier, n) for n in fixed] + [forced] + [gen_case(rng, tier) for _ in range(10 if tier == "quick" else 80)]
        cases += [gen_case(rng, tier, rng.choice([3, 8, 10]), chain=True) for _ in range(4 if tier == "quick" else 30)]
        cases += [gen_case(rng, tier, rng.choice([2, 5, 11]), chain=rng.random() < 0.3, inexact=True) for _ in range(4 if tier == "quick" else 30)]
    impl = C.run_forked(impl_export, cases, timeout=600, workers=8)
    drv = C.Driver()
    bad, corr_bad = [], []
    lo, hi = tables["autoBlocked"]
    for case, im in zip(cases, impl):
        if "crash" in im:
            raise C.HarnessError("harness child crashed: " + str(im)[:800])
        n = len(case["decl_params"])
        rep.count(f"export-{case['scenario']}" + ("-jac" if case["jac"] else "") + ("-chain" if case.get("states2") else "") + ("-inexact" if case.get("inexact") else "") + ("-twin" if case.get("check_ops") else ""), json.dumps(case, sort_keys=True), nontrivial=n > 9)
        slots = drv.ask({"comp": "auto", "lo": lo, "hi": hi, "n": n})["slots"]
        dev = deviations(case, im, slots, tables)
        # vector field
        if "dy" in im and case.get("inexact"):
            pass      # values without an exact product/sum in float64: only the texts and STPNT are compared for these cases
        elif "dy" in im:
            orc = N.oracle_case(case)
            if im["dy"] != orc["dy"]:
                dev.append(("exported-vector-field-differs", {"got": im["dy"], "expected": orc["dy"]}))
        elif "call_error" in im:
            dev.append(("calling-the-compiled-function-failed", im["call_error"]))
        if dev:
            bad.append((case, {k: v for k, v in im.items() if k not in ("f90",)}, dev))
        else:
            rep.validated()
    drv.close()
    if "f90" in impl[0]:
        P = parse_export(impl[0])
        rep.sample({"n_params": len(cases[0]["decl_params"]), "parnames": P["parnames"], "call": P["call"], "NPAR": P["NPAR"]})
    rep.cov["streams"]["exports_with_inconsistencies"] = len(bad)
    if bad:
        case, im, dev = min(bad, key=lambda x: len(x[0]["decl_params"]))
        rep.violation(f"the auto-07p export is inconsistent ({dev[0][0]})", {"case": case, "deviations": dev[:5], "c_file": im.get("c")})
    elif not proof_ok:
        why = {"proof_ok": proof_ok, "build_log_tail": detail["build_log_tail"], "forbidden": detail["forbidden"],
               "audit_failures": (detail["audit"] or {}).get("failures"), "broken": "theorems of PyRatesModel.Props.C18 (build/audit; C18_tables fails when the blocked range or the time slot changes)"}
        rep.violation("C18 is no longer shown to hold: " + why["broken"], why, no_input=True, name="unproved")
    return rep.finish()
