"""C20 — unsupported requests fail loudly instead of returning numbers.

Proof: lean/PyRatesModel/Props/C20.lean — kernel-decided theorems over the tables regenerated from the backend classes on every run: every solver
outside a backend's SUPPORTED_SOLVERS raises, every supported solver name reaches a method implementing that very solver (no silent fall-through),
ring-buffer delays / sparse Jacobians / vectorization raise where the class flags say so.
Correspondence: (X) the real matrix backend x solver x vectorize x delay kind x sparse on all installed backends, executed in random order inside ONE
process (so that validation state cannot leak between backends): raise-or-not compared with the Lean decision `mustRaise`; (M) malformed variants of
valid models (undeclared name in an equation, misspelt edge/output/input/update paths at every component, value for a non-existent operator incl.
wildcard, two outputs, cyclic operator graph, reserved names from the source's own list): each must raise, or at least warn where the property says so."""
import random, json, os, glob, copy, warnings
from fractions import Fraction as F
import numpy as np
from .. import common as C
from .. import mdl as M, extract_tables

PID = "C20"
DELAYS = ["none", "discrete", "spread", "discrete+spread", "spread+discrete"]
# the same kinds realised as matrix connections (PopulationTemplate + Connectivity objects, declaration order as named)
MDELAYS = ["m:discrete", "m:spread", "m:discrete+spread", "m:spread+discrete"]


def build_delay_model(kind):
    from pyrates import OperatorTemplate, NodeTemplate, CircuitTemplate
    op = OperatorTemplate(name="li", equations=["x' = -x + r_in"], variables={"x": "output(1.0)", "r_in": "input(0.0)"}, path=None)
    nt = NodeTemplate(name="n", operators=[op], path=None)
    if kind.startswith("m:"):
        from pyrates.frontend.template.population import PopulationTemplate, Connectivity
        pop = PopulationTemplate(name="b", node=nt, n=2, params={"li/x": [1.0, 2.0]})
        cd = Connectivity(source="b/li/x", target="b/li/r_in", weights=np.array([[0., 0.5], [0.5, 0.]]), delays=0.02)
        cs = Connectivity(source="b/li/x", target="b/li/r_in", weights=np.array([[0., 0.25], [0.5, 0.]]), delays=0.02, spread=0.01)
        conns = {"discrete": [cd], "spread": [cs], "discrete+spread": [cd, cs], "spread+discrete": [cs, cd]}[kind[2:]]
        return CircuitTemplate(name="net", populations={"b": pop}, connections=conns, path=None)
    d = {"weight": 1.0, "delay": 0.02}
    s = {"weight": 1.0, "delay": 0.02, "spread": 0.01}
    edges = {"none": [("a/li/x", "b/li/r_in", None, {"weight": 1.0})],
             "discrete": [("a/li/x", "b/li/r_in", None, d)],
             "spread": [("a/li/x", "b/li/r_in", None, s)],
             "discrete+spread": [("a/li/x", "c/li/r_in", None, d), ("b/li/x", "c/li/r_in", None, s)],
             "spread+discrete": [("a/li/x", "c/li/r_in", None, s), ("b/li/x", "c/li/r_in", None, d)]}[kind]
    return CircuitTemplate(name="net", nodes={"a": nt, "b": nt, "c": nt}, edges=edges, path=None)


def run_matrix(configs):
    """all configurations in one process, in the given order"""
    out = []
    with M.Scratch():
        with warnings.catch_warnings():
            warnings.simplefilter("ignore")
            for cfg in configs:
                try:
                    c = build_delay_model(cfg["delay"])
                    kw = dict(step_size=0.01, vectorize=cfg["vectorize"], verbose=False, in_place=False, clear=True, float_precision="float64")
                    if cfg["backend"] != "default":
                        kw["backend"] = cfg["backend"]
                    if cfg["sparse"]:
                        r = c.get_jacobian_func("jf", sparse=True, **kw)
                        out.append({"raised": False})
                    else:
                        r = c.run(simulation_time=0.1, solver=cfg["solver"], outputs={"x": "b/li/x"}, **kw)
                        ok = hasattr(r, "values") and np.all(np.isfinite(np.asarray(r.values, dtype=float)))
                        out.append({"raised": False, "finite": bool(ok)})
                except Exception as e:
                    out.append({"raised": True, "error": type(e).__name__, "msg": str(e)[:160]})
                    try:
                        from pyrates import clear_frontend_caches
                        clear_frontend_caches()
                    except Exception:
                        pass
    return out


# ----------------------------------------------------------------------------------------------- malformed variants
def base_parts():
    eqs = ["x' = -a*x + r_in", "m = 2.0*x"]
    variables = {"x": "variable(1.0)", "m": "output(0.0)", "a": 2.0, "r_in": "input(0.0)"}
    return eqs, variables


def malformed_variant(v):
    """returns (callable performing the request, expectation in {'raise', 'warn-or-raise'})"""
    from pyrates import OperatorTemplate, NodeTemplate, CircuitTemplate
    eqs, variables = base_parts()
    kind = v["kind"]
    edges = [("p1/op/m", "p2/op/r_in", None, {"weight": 1.0})]
    outputs = {"o": "p2/op/x"}
    inputs, node_vars, node_values = None, None, None
    ops2 = None
    if kind == "undeclared-name":
        eqs = ["x' = -a*x + r_in + " + v["name"], "m = 2.0*x"]
    elif kind == "deleted-declaration":
        variables = {k: d for k, d in variables.items() if k != v["name"]}
    elif kind == "edge-path":
        parts = ["p1", "op", "m"] if v["end"] == "src" else ["p2", "op", "r_in"]
        parts[v["component"]] = parts[v["component"]] + "X"
        e = list(edges[0])
        e[0 if v["end"] == "src" else 1] = "/".join(parts)
        edges = [tuple(e)]
    elif kind == "output-path":
        parts = ["p2", "op", "x"]
        parts[v["component"]] += "X"
        outputs = {"o": "/".join(parts)}
        if v.get("with_valid"):
            outputs["ok"] = "p1/op/x"
    elif kind == "input-path":
        parts = ["p1", "op", "r_in"]
        parts[v["component"]] += "X"
        inputs = {"/".join(parts): np.zeros(10)}
    elif kind == "update-path":
        parts = ["p1", "op", "a"]
        parts[v["component"]] += "X"
        node_vars = {"/".join(parts): 3.0}
    elif kind == "node-values-missing-op":
        node_values = {("all" if v.get("wildcard") else "p1") + "/opX/a": 3.0}
    elif kind == "two-outputs":
        variables = dict(variables, x="output(1.0)")
    elif kind == "cyclic-operator-graph":
        ops2 = OperatorTemplate(name="op2", equations=["r_in = 3.0*m"], variables={"r_in": "output(0.0)", "m": "input(0.0)"}, path=None)
    elif kind == "reserved-name":
        nm = v["name"]
        eqs = [f"x' = -a*x + r_in + {nm}", "m = 2.0*x"]
        variables = dict(variables, **{nm: 1.0})
    op = OperatorTemplate(name="op", equations=eqs, variables=variables, path=None)
    nt = NodeTemplate(name="n", operators=[op] + ([ops2] if ops2 is not None else []), path=None)
    c = CircuitTemplate(name="net", nodes={"p1": nt, "p2": nt}, edges=edges, path=None)
    if node_vars:
        c.update_var(node_vars=node_vars)
    kw = dict(simulation_time=0.1, step_size=0.01, solver="euler", outputs=outputs, vectorize=v.get("vectorize", False), verbose=False, in_place=False, clear=True)
    if inputs:
        kw["inputs"] = inputs
    if node_values:
        kw["node_values"] = node_values
    return c.run(**kw)


def run_malformed(v):
    with M.Scratch():
        with warnings.catch_warnings(record=True) as wl:
            warnings.simplefilter("always")
            # the same malformed request twice in one process (a retry, a sweep over settings): it must be refused both times
            res = None
            for attempt in (1, 2):
                n_before = len(wl)
                try:
                    r = malformed_variant(v)
                    cur = {"raised": False, "columns": [str(x) for x in getattr(r, "columns", [])], "attempt": attempt}
                except Exception as e:
                    cur = {"raised": True, "error": type(e).__name__, "msg": str(e)[:160], "attempt": attempt}
                cur["pyrates_warnings"] = sorted({str(w.message)[:80] for w in wl[n_before:] if "PyRates" in type(w.message).__name__})
                if res is None or (res["raised"] or res["pyrates_warnings"]) and not (cur["raised"] or cur["pyrates_warnings"]):
                    res = cur if res is None or not cur["raised"] else res
                if not (cur["raised"] or cur["pyrates_warnings"]):
                    res = cur          # a silent acceptance on any attempt is what is reported
                    break
    return res


def malformed_variants(tables):
    vs = []
    for nm in ["zz", "b", "r_inn"]:
        vs.append({"kind": "undeclared-name", "name": nm, "expect": "raise"})
    for nm in ["a", "r_in", "m", "x"]:
        vs.append({"kind": "deleted-declaration", "name": nm, "expect": "raise"})
    for end in ("src", "tgt"):
        for comp in (0, 1, 2):
            vs.append({"kind": "edge-path", "end": end, "component": comp, "expect": "raise"})
    for comp in (0, 1, 2):
        vs.append({"kind": "output-path", "component": comp, "expect": "raise"})
        vs.append({"kind": "output-path", "component": comp, "with_valid": True, "expect": "raise"})
        vs.append({"kind": "input-path", "component": comp, "expect": "warn-or-raise"})
        vs.append({"kind": "update-path", "component": comp, "expect": "warn-or-raise"})
    vs.append({"kind": "node-values-missing-op", "expect": "raise"})
    vs.append({"kind": "node-values-missing-op", "wildcard": True, "expect": "raise"})
    vs.append({"kind": "two-outputs", "expect": "raise"})
    vs.append({"kind": "cyclic-operator-graph", "expect": "raise"})
    # the source's own list and, independently of it, the names that were reserved on the pinned tree (they collide with arguments of the generated
    # function or with constants/functions of sympy's namespace, whatever the current list says)
    baseline = ['y', 'dy', 'source_idx', 'target_idx', 'pi', 'I', 'E', 'S', 'Q', 'O', 'N', 'oo', 'zoo', 'nan', 'beta', 'gamma', 'Beta', 'Gamma', 'exp', 'log',
                'sin', 'cos', 'tan', 'cot', 'sec', 'csc', 'sinh', 'cosh', 'tanh', 'sqrt', 'abs']
    for nm in list(dict.fromkeys(list(tables.get("disallowedNames") or []) + baseline)):
        vs.append({"kind": "reserved-name", "name": nm, "expect": "raise"})
    for part in tables.get("disallowedNameParts") or ["_buffer", "_idx"]:
        vs.append({"kind": "reserved-name", "name": "k" + part, "expect": "raise"})
    out = []
    for v in vs:
        for vec in (False, True):
            out.append(dict(v, vectorize=vec))
    return out


def kf_output_silently_dropped(v, res):
    return v["kind"] == "output-path" and v.get("with_valid") and not res["raised"]


def kf_input_silently_dropped(v, res):
    return v["kind"] == "input-path" and not res["raised"] and not res["pyrates_warnings"]


KNOWN = {"C20-unresolved-output-dropped": (kf_output_silently_dropped, "an output request that resolves to nothing is silently omitted as long as another output resolves"),
         "C20-unmatched-input-dropped": (kf_input_silently_dropped, "an extrinsic input addressed to a variable that does not exist is dropped without exception or warning")}


def check(tier, seed, replay=None):
    rep = C.Report(PID, tier, seed)
    rng = random.Random(seed)
    proof_ok, detail = C.prepare_lean(rep)
    tables, _ = extract_tables.extract(C.REPO)
    B = tables.get("backends") or {}
    installed = ["default", "torch", "jax"] + (["fortran"] if tier == "thorough" else [])
    universe = sorted({s for b in B.values() for s in (b.get("SUPPORTED_SOLVERS") or [])} | {"bogus", "Euler"})
    rep.cov["rule"] = ("X: configurations (backend in installed backends, solver in the union of all SUPPORTED_SOLVERS + unknown names, vectorize, delay kind in none/discrete/spread/"
                       "both orders of mixing, sparse Jacobian) executed in random order in one process; expectation = Lean `mustRaise` over the regenerated tables.  quick = all "
                       "configurations the model expects to raise + a random sample of the others; thorough = the full matrix incl. fortran.  M: " +
                       "malformed variants of a valid two-node model, each with vectorize on/off.  distinct = distinct configurations/variants; non-trivial = expected to raise")
    # ---------------- X
    allcfg = [{"backend": b, "solver": s, "vectorize": v, "delay": d, "sparse": sp} for b in installed for s in universe for v in (False, True) for d in DELAYS + MDELAYS for sp in (False, True)
              if not (sp and s != "euler")]          # the sparse flag concerns get_jacobian_func only: one solver name suffices
    drv = C.Driver()
    lean_names = {"default": "base"}
    must = drv.ask({"comp": "guard", "configs": [dict(c, backend=lean_names.get(c["backend"], c["backend"]), delay=c["delay"].split(":")[-1]) for c in allcfg]})["must_raise"]
    drv.close()
    idx = list(range(len(allcfg)))
    if tier == "quick" and not replay:
        def solver_known(c):
            b = B.get(lean_names.get(c["backend"], c["backend"])) or {}
            return c["solver"] in (b.get("SUPPORTED_SOLVERS") or [])
        flagged = [i for i in idx if must[i] and solver_known(allcfg[i])]        # raise is due to a capability flag: all of them
        raising = [i for i in idx if must[i] and not solver_known(allcfg[i])]    # raise is due to the solver name: a sample
        others = [i for i in idx if not must[i]]
        rng.shuffle(raising)
        rng.shuffle(others)
        idx = flagged + raising[:60] + others[:50]
        rep.cov["streams"]["X_flag_caused_configs"] = len(flagged)
    rng.shuffle(idx)
    if replay:
        r = json.load(open(replay))
        if "config_order" in r:
            idx = [allcfg.index(c) for c in r["config_order"] if c in allcfg]
    configs = [allcfg[i] for i in idx]
    # one process per chunk (thorough: 8 chunks side by side; every chunk is a random sequence of configurations inside one process)
    K = 1 if (tier == "quick" or replay) else 8
    chunks = [list(range(len(configs)))[k::K] for k in range(K)]
    outs = C.run_forked(run_matrix, [[configs[i] for i in ch] for ch in chunks], timeout=3000, workers=K)
    res = [None] * len(configs)
    for ch, out in zip(chunks, outs):
        if isinstance(out, dict) and "crash" in out:
            raise C.HarnessError("matrix child crashed: " + str(out)[:600])
        for i, r in zip(ch, out):
            res[i] = r
    xbad = []
    for k, (i, r) in enumerate(zip(idx, res)):
        cfg = allcfg[i]
        rep.count("X-" + cfg["backend"], json.dumps(cfg, sort_keys=True), nontrivial=must[i])
        if must[i] and not r["raised"]:
            ch = chunks[k % K]
            xbad.append({"config": cfg, "position_in_process": ch.index(k), "observed": r, "expected": "an exception before a result is returned",
                         "config_order": [configs[i] for i in ch[:ch.index(k) + 1]]})
        elif (not must[i]) and r["raised"]:
            rep.cov["streams"]["supported_configs_that_raised"] = rep.cov["streams"].get("supported_configs_that_raised", 0) + 1
            rep.validated()          # raising is always "loud": not this property's violation
        else:
            rep.validated()
    # ---------------- M
    variants = malformed_variants(tables)
    mres = C.run_forked(run_malformed, variants, timeout=300)
    active_kf = {f["id"] for f in C.load_known_findings() if f.get("property") == PID and f.get("status") == "known"}
    mbad = []
    for v, r in zip(variants, mres):
        if "crash" in r:
            raise C.HarnessError("harness child crashed: " + str(r)[:600])
        rep.count("M-" + v["kind"], json.dumps(v, sort_keys=True), nontrivial=True)
        loud = r["raised"] or (v["expect"] == "warn-or-raise" and bool(r["pyrates_warnings"]))
        if loud:
            rep.validated()
        else:
            kf = [k for k in KNOWN if k in active_kf and KNOWN[k][0](v, r)]
            if kf:
                rep.known_finding(f"{kf[0]}: {KNOWN[kf[0]][1]}")
            else:
                mbad.append({"variant": v, "observed": r})
    rep.sample({"config": configs[0], "observed": res[0], "must_raise": must[idx[0]]})
    rep.sample({"malformed": variants[0], "observed": mres[0]})
    rep.cov["streams"].update({"matrix_configs_expected_to_raise_that_did_not": len(xbad), "malformed_variants_accepted_silently": len(mbad)})
    if xbad:
        rep.violation(f"an unsupported configuration returned a result instead of raising: {xbad[0]['config']}", xbad[0])
    if mbad:
        rep.violation(f"a malformed model/request was accepted silently: {mbad[0]['variant']}", mbad[0])
    if not xbad and not mbad and not proof_ok:
        why = {"proof_ok": proof_ok, "build_log_tail": detail["build_log_tail"], "forbidden": detail["forbidden"],
               "audit_failures": (detail["audit"] or {}).get("failures"),
               "broken": "theorems of PyRatesModel.Props.C20 over the regenerated backend tables (a solver name without a dispatch branch, a dropped validation call, a changed flag)"}
        rep.violation("C20 is no longer shown to hold: " + why["broken"], why, no_input=True, name="unproved")
    return rep.finish()
