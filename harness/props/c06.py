"""C06 — a variable path addresses the same variable everywhere.

Proof: lean/PyRatesModel/Props/C06.lean (wildcard resolution `get_nodes` refines the glob specification over the tree of circuits; in declaration
order) together with C01_solve_sound / C03 (the trajectory of a named variable).  Correspondence: run() with random output requests (single node,
'all' at any level, several keys, dict and list form, hierarchy depth 0-2, vectorize on/off, shuffled declaration order) on models whose nodes all
differ in initial values and rates; every returned column must carry the trajectory of exactly the variable its label names, and every requested
variable must appear exactly once."""
import random, json, os, glob, copy
from fractions import Fraction as F
from .. import common as C
from .. import mdl as M, gen_net as G, netcheck as N
from .c07 import resolve

PID = "C06"


def gen_case(rng, tier):
    for _ in range(80):
        mdl = G.gen_model(rng, max_nodes=5, min_nodes=2, linear=True, clones=True, depth=rng.choice([0, 0, 1, 2]), hostile=rng.random() < 0.3)
        flat = M.flatten(mdl)
        sp = M.state_paths(flat)
        if len(set(sp)) != len(sp):
            continue
        depth = max(n["path"].count("/") for n in flat["nodes"])
        form = rng.choice(["dict", "dict", "list"])
        reqs = []
        for _k in range(rng.randint(1, 3)):
            p = rng.choice(sp)
            *npath, op, var = p.split("/")
            r = rng.random()
            if r < 0.4:
                reqs.append(p)
            elif r < 0.7:
                reqs.append(f"all/{op}/{var}")
            else:
                # exact prefix, 'all' for the remaining levels (a pattern with a label below an 'all' level raises KeyError in get_nodes
                # whenever some branch lacks that label - loud, not generated)
                k = rng.randint(0, len(npath) - 1)
                reqs.append("/".join(npath[:k] + ["all"] * (len(npath) - k) + [op, var]))
        reqs = list(dict.fromkeys(reqs))
        outputs = {f"k{i}": r for i, r in enumerate(reqs)} if form == "dict" else reqs
        dt = rng.choice([F(1), F(1, 2)])
        steps = rng.choice([2, 3])
        case = {"mdl": mdl, "run": {"T": C.q2s(dt * steps), "dt": C.q2s(dt), "solver": "euler", "outputs": outputs, "vectorize": rng.random() < 0.6},
                "style": {}, "in_place": rng.random() < 0.5, "form": form}
        if rng.random() < 0.25:
            case["in_place"] = True
            case["first_run"] = {"vectorize": not case["run"]["vectorize"]}     # the same template object was run before with the other vectorization setting
        o = N.oracle_traj(case)
        if "error" in o or o["bits"] > 44:
            continue
        # the property is about addressing: keep cases in which all requested variables have pairwise different trajectories
        return case
    raise C.HarnessError("generator could not produce an admissible case")


def denoted(case, flat, label):
    """which variable path does a column label denote?  -> (path or None, why)"""
    outs = case["run"]["outputs"]
    if case["form"] == "list":
        lab = label if isinstance(label, str) else "/".join(x for x in label if x != "nan")
        return lab, "list form: the label is the path"
    if isinstance(label, str):
        key = label
        if key not in outs:
            return None, "unknown key"
        tg = resolve(case["mdl"], flat, outs[key])
        *_, op, var = outs[key].split("/")
        return (f"{tg[0]}/{op}/{var}" if len(tg) == 1 else None), "dict form, single target"
    parts = [x for x in label if x != "nan"]
    key = parts[0]
    if key not in outs:
        return None, "unknown key"
    if len(parts) == 1:
        tg = resolve(case["mdl"], flat, outs[key])
        *_, op, var = outs[key].split("/")
        return (f"{tg[0]}/{op}/{var}" if len(tg) == 1 else None), "dict form, single target (multi-index frame)"
    return "/".join(parts[1:]), "dict form, (key, node..., op/var)"


def deviations(case, res, orc):
    if "error" in res:
        return [("raises", res)]
    flat = orc["flat"]
    outs = case["run"]["outputs"]
    want = []
    for key, req in (outs.items() if isinstance(outs, dict) else [(None, r) for r in outs]):
        *_, op, var = req.split("/")
        for n in resolve(case["mdl"], flat, req):
            want.append((key, f"{n}/{op}/{var}"))
    bad = []
    seen = []
    for label, vals in res["cols"]:
        p, why = denoted(case, flat, label)
        if p is None or p not in orc["rows"][0]:
            bad.append(("unidentifiable-column", {"label": label, "why": why}))
            continue
        exp = [row[p] for row in orc["rows"]]
        if vals != exp:
            bad.append(("column-carries-other-variable", {"label": label, "denotes": p, "got": vals, "expected": exp}))
        seen.append(p)
    if case["form"] == "list":
        want = list(dict.fromkeys((None, p) for _, p in want))       # list-form columns are keyed by the path: a variable requested twice is one column
    missing = [p for k, p in want if p not in seen]
    if missing:
        bad.append(("requested-variable-missing", missing))
    if len(seen) != len(want):
        bad.append(("column-count", {"returned": len(seen), "requested": len(want)}))
    return bad


def unit_get_nodes(rng, n):
    """U stream: the real CircuitTemplate.get_nodes vs the Lean model `getNodes` vs the glob specification on random hierarchies"""
    import warnings
    from pyrates import OperatorTemplate, NodeTemplate, CircuitTemplate
    cases, impl = [], []
    with warnings.catch_warnings():
        warnings.simplefilter("ignore")
        op = OperatorTemplate(name="op", equations=["x' = -x"], variables={"x": "output(1.0)"}, path=None)
        nt = NodeTemplate(name="n", operators=[op], path=None)
        for _ in range(n):
            depth = rng.choice([0, 1, 1, 2])

            def mk(level, name):
                if level == 0:
                    labels = rng.sample(G.NODE_LABELS, rng.randint(1, 4))
                    return CircuitTemplate(name=name, nodes={l: nt for l in labels}, edges=[], path=None), [[l] for l in labels]
                labels = rng.sample(G.CIRC_LABELS, rng.randint(1, 3))
                subs, leaves = {}, []
                for l in labels:
                    c, lv = mk(level - 1, name + l)
                    subs[l] = c
                    leaves += [[l] + p for p in lv]
                return CircuitTemplate(name=name, circuits=subs, edges=[], path=None), leaves
            c, leaves = mk(depth, "net")
            p = rng.choice(leaves)
            r = rng.random()
            if r < 0.25:
                pat = ["all"]
            elif r < 0.5:
                pat = list(p)
            else:
                k = rng.randint(0, len(p) - 1)
                pat = p[:k] + ["all"] * (len(p) - k)
            try:
                got = [x.split("/") for x in c.get_nodes(list(pat))]
            except Exception as e:
                got = "raise:" + type(e).__name__
            cases.append({"comp": "paths", "leaves": leaves, "pat": pat})
            impl.append(got)
    return cases, impl


def kf_c04_region(case, res, dev):
    """vectorized runs inside one of C04's known-finding regions (vectorization itself changes the dynamics / raises there)"""
    if not case["run"].get("vectorize"):
        return False
    from . import c04
    return any(pred(case, "vec", res, dev) for _, (pred, _) in c04.KNOWN.items())


KNOWN = {"C06-inherits-C04-regions": (kf_c04_region, "vectorize=True inside a known-finding region of C04 (see C04-* entries): the column is wrong or the run raises because vectorization changed the model, not because of addressing")}


def check(tier, seed, replay=None):
    rep = C.Report(PID, tier, seed)
    rng = random.Random(seed)
    proof_ok, detail = C.prepare_lean(rep)
    rep.cov["rule"] = ("random linear models (2-5 nodes per circuit, hierarchy depth 0-2, structurally identical nodes with different initial values and parameters so that a "
                       "swapped column is visible) simulated by run(); output request = 1-3 paths in dict or list form, each a single node, 'all', or a mix of 'all' and labels per "
                       "hierarchy level; vectorize on/off.  Every returned column is mapped back to the variable its label names and compared exactly with that variable's "
                       "trajectory in the Lean model/oracle; every requested variable must appear once.  distinct = distinct cases; non-trivial = a wildcard or >= 2 keys")
    if replay:
        cases = [json.load(open(replay))["case"]]
    else:
        cases = [json.load(open(f))["case"] for f in sorted(glob.glob(os.path.join(C.VERIF, "corpus", PID, "*.json")))]
        cases += [gen_case(rng, tier) for _ in range(160 if tier == "quick" else 2500)]
    orcs = [N.oracle_traj(c) for c in cases]
    impl = C.run_forked(N.impl_run, cases, timeout=240)
    drv = C.Driver()
    bad = []
    active_kf = {f["id"] for f in C.load_known_findings() if f.get("property") == PID and f.get("status") == "known"}
    for case, im, orc in zip(cases, impl, orcs):
        if "crash" in im:
            raise C.HarnessError("harness child crashed: " + str(im)[:800])
        outs = case["run"]["outputs"]
        reqs = list(outs.values()) if isinstance(outs, dict) else outs
        rep.count(f"{case['form']}-{'vec' if case['run']['vectorize'] else 'novec'}" + ("-second-run-on-template" if case.get("first_run") else ""), json.dumps(case, sort_keys=True), nontrivial=(len(reqs) > 1 or any("all" in r.split("/") for r in reqs)))
        mr = drv.ask(N.model_traj_request(case, orc["flat"]))
        if mr.get("rows") != orc["rows"]:
            raise C.HarnessError("Lean model and oracle disagree: " + json.dumps(case)[:400])
        dev = deviations(case, im, orc)
        if dev:
            kf = [k for k in active_kf if k in KNOWN and KNOWN[k][0](case, im, dev)]
            if kf:
                rep.known_finding(f"{kf[0]}: {KNOWN[kf[0]][1]}")
            else:
                bad.append((case, im, dev))
        else:
            rep.validated()
    drv.close()
    if not replay:
        ucases, uimpl = unit_get_nodes(rng, 400 if tier == "quick" else 5000)
        drv2 = C.Driver()
        umodel = drv2.ask_many(ucases)
        drv2.close()
        ubad = [(c, i, m) for c, i, m in zip(ucases, uimpl, umodel) if not (i == m.get("nodes") == m.get("spec"))]
        for c in ucases:
            rep.count("U-get_nodes", json.dumps(c, sort_keys=True), nontrivial="all" in c["pat"])
        rep.validated(len(ucases) - len(ubad))
        rep.cov["streams"]["get_nodes_impl_vs_model_vs_glob_disagreements"] = len(ubad)
        if ubad:
            c, i, m = min(ubad, key=lambda x: len(json.dumps(x[0])))
            if i != m.get("spec"):
                rep.violation("get_nodes does not return the nodes matched by the wildcard pattern (glob specification), in declaration order", {"request": c, "impl": i, "glob_spec": m.get("spec"), "lean_model": m.get("nodes")})
            else:
                rep.violation("C06: correspondence get_nodes impl-vs-Lean-model broken (impl agrees with the glob specification)", {"request": c, "impl": i, "lean_model": m.get("nodes")}, no_input=True, name="unproved")
    rep.sample({"outputs": cases[-1]["run"]["outputs"], "nodes": [n["path"] for n in orcs[-1]["flat"]["nodes"]], "impl_columns": [c[0] for c in impl[-1].get("cols", [])]})
    rep.cov["streams"]["impl_vs_spec_disagreements"] = len(bad)
    if bad:
        case, im, dev = min(bad, key=lambda x: len(json.dumps(x[0]["mdl"])))
        rep.violation(f"a column of the DataFrame returned by run does not carry the variable named in its label ({dev[0][0]})", {"case": case, "impl": im, "deviations": dev[:4]})
    elif not proof_ok:
        why = {"proof_ok": proof_ok, "build_log_tail": detail["build_log_tail"], "forbidden": detail["forbidden"],
               "audit_failures": (detail["audit"] or {}).get("failures"), "broken": "theorems of PyRatesModel.Props.C06 (build/audit)"}
        rep.violation("C06 is no longer shown to hold: " + why["broken"], why, no_input=True, name="unproved")
    return rep.finish()
