"""C06 — a variable path addresses the same variable everywhere.

Proof: lean/PyRatesModel/Props/C06.lean (wildcard resolution `get_nodes` refines the glob specification over the tree of circuits; in declaration
order) together with C01_solve_sound / C03 (the trajectory of a named variable).  Correspondence: run() with random output requests (single node,
'all' at any level, several keys, dict and list form, hierarchy depth 0-2, vectorize on/off, shuffled declaration order) on models whose nodes all
differ in initial values and rates; every returned column must carry the trajectory of exactly the variable its label names, and every requested
variable must appear exactly once."""
import random, json, os, glob, copy
from fractions import Fraction as F
from .. import common as C
from .. import mdl as M, gen_net as G, netcheck as N
from .c07 import resolve

PID = "C06"


def gen_case(rng, tier):
    for _ in range(80):
        mdl = G.gen_model(rng, max_nodes=5, min_nodes=2, linear=True, clones=True, depth=rng.choice([0, 0, 1, 2]), hostile=rng.random() < 0.3)
        flat = M.flatten(mdl)
        sp = M.state_paths(flat)
        if len(set(sp)) != len(sp):
            continue
        depth = max(n["path"].count("/") for n in flat["nodes"])
        form = rng.choice(["dict", "dict", "list"])
        reqs = []
        for _k in range(rng.randint(1, 3)):
            p = rng.choice(sp)
            *npath, op, var = p.split("/")
            r = rng.random()
            if r < 0.4:
                reqs.append(p)
            elif r < 0.7:
                reqs.append(f"all/{op}/{var}")
            else:
                # exact prefix, 'all' for the remaining levels (a pattern with a label below an 'all' level raises KeyError in get_nodes
                # whenever some branch lacks that label - loud, not generated)
                k = rng.randint(0, len(npath) - 1)
                reqs.append("/".join(npath[:k] + ["all"] * (len(npath) - k) + [op, var]))
        reqs = list(dict.fromkeys(reqs))
        outputs = {f"k{i}": r for i, r in enumerate(reqs)} if form == "dict" else reqs
        dt = rng.choice([F(1), F(1, 2)])
        steps = rng.choice([2, 3])
        case = {"mdl": mdl, "run": {"T": C.q2s(dt * steps), "dt": C.q2s(dt), "solver": "euler", "outputs": outputs, "vectorize": rng.random() < 0.6},
                "style": {}, "in_place": rng.random() < 0.5, "form": form}
        if rng.random() < 0.25:
            case["in_place"] = True
            case["first_run"] = {"vectorize": not case["run"]["vectorize"]}     # the same template object was run before with the other vectorization setting
        if rng.random() < 0.3:
            # the same kind of path also addresses values: update_var with a wildcard and one value per matched node before the run
            from .c07 import apply_history_spec
            cand = sorted(M.const_paths(flat)) + sp
            p0 = rng.choice(cand)
            *_, op0, var0 = p0.split("/")
            key0 = f"all/{op0}/{var0}"
            tg0 = resolve(mdl, flat, key0)
            if len(tg0) >= 2:
                case["history"] = [["update_var", {key0: [C.q2s(F(rng.randint(-6, 6), rng.choice([1, 2]))) for _ in tg0]}]]
                case["expected_mdl"] = apply_history_spec(mdl, case["history"])
        o = N.oracle_traj(dict(case, mdl=case.get("expected_mdl", case["mdl"])))
        if "error" in o or o["bits"] > 44:
            continue
        # the property is about addressing: keep cases in which all requested variables have pairwise different trajectories
        return case
    raise C.HarnessError("generator could not produce an admissible case")


def gen_bound_case(rng, tier):
    """stratum: edge templates with a further input bound to an explicit variable path (Kuramoto-type coupling g*(pre - post)); all nodes share one node
    template and differ by overrides, so vectorization merges them and the bound path addresses a member that is not the first of its group"""
    for _ in range(80):
        n = rng.randint(3, 5)
        ops = {"P": {"name": "ph", "eqs": [{"lhs": "th", "de": True, "rhs": M.add(M.var("om"), M.mul(M.var("K"), M.var("s_in")))}],
                     "vars": {"th": {"decl": "output", "value": "0"}, "om": {"decl": "const", "value": "1"}, "K": {"decl": "const", "value": "1"}, "s_in": {"decl": "input", "value": "0"}}},
               "E": {"name": "cp", "eqs": [{"lhs": "s", "de": False, "rhs": M.mul(M.var("g"), M.sub(M.var("u_s"), M.var("u_t")))}],
                     "vars": {"s": {"decl": "output", "value": "0"}, "u_s": {"decl": "input", "value": "0"}, "u_t": {"decl": "input", "value": "0"}, "g": {"decl": "const", "value": "2"}}}}
        labels = rng.sample(["p0", "p1", "p2", "q", "pop", "e1"], n)
        nts = {f"N{i}": {"name": f"nt{i}", "ops": ["P"], "overrides": {"P": {"th": str(F(rng.randint(-4, 4), 2)), "om": str(F(rng.randint(-2, 3))), "K": str(F(rng.choice([1, 2, -1])))}}} for i in range(n)}
        edges, used = [], set()
        for _k in range(rng.randint(2, 2 * n)):
            s_, t_ = rng.sample(labels, 2)
            if (s_, t_) in used:
                continue
            used.add((s_, t_))
            bound_to = t_ if rng.random() < 0.7 else rng.choice(labels)       # usually the post-synaptic phase, sometimes a third node's
            edges.append({"src": f"{s_}/ph/th", "tgt": f"{t_}/ph/s_in", "w": str(F(rng.choice([1, 2, 3, -1]), rng.choice([1, 2]))), "template": "ET",
                          "bind": {"u_t": f"{bound_to}/ph/th"}})
        mdl = {"ops": ops, "node_templates": nts, "edge_templates": {"ET": {"name": "cpe", "op": "E"}},
               "circuit": {"name": "net", "nodes": {lb: f"N{i}" for i, lb in enumerate(labels)}, "edges": edges}}
        flat = M.flatten(mdl)
        sp = [p for p in M.state_paths(flat) if not p.startswith("__")]
        reqs = rng.sample(sp, rng.randint(1, len(sp))) if rng.random() < 0.5 else ["all/ph/th"]
        form = "dict"
        dt = F(1, 2)
        case = {"mdl": mdl, "run": {"T": C.q2s(dt * 3), "dt": C.q2s(dt), "solver": "euler", "outputs": {f"k{i}": r for i, r in enumerate(reqs)}, "vectorize": rng.random() < 0.7},
                "style": {}, "in_place": rng.random() < 0.5, "form": form, "bound_edges": True}
        o = N.oracle_traj(case)
        if "error" in o or o["bits"] > 44:
            continue
        return case
    raise C.HarnessError("generator could not produce an admissible bound-edge case")


def positions_probe(case):
    """get_run_func on the template (in place), then get_variable_positions(path) for every state variable: the positions must be a bijection onto the state
    vector and the vector field evaluated with a state filled through them must be the model's, variable by variable"""
    import warnings
    import numpy as np
    with M.Scratch():
        with warnings.catch_warnings():
            warnings.simplefilter("ignore")
            try:
                c, _, _ = M.build_pyrates(case["mdl"])
                func, args, names, smap = c.get_run_func("pf", step_size=0.125, solver="euler", vectorize=case["vectorize"], float_precision="float64", verbose=False,
                                                         clear=False, in_place=True)
                n = len(np.asarray(args[1]))
                pos = {}
                for p in case["state_paths"]:
                    omap, _ = c.get_variable_positions({"k": p})
                    v = np.asarray(omap["k"]).reshape(-1)
                    pos[p] = [int(x) for x in v]
                y = np.zeros(n)
                for p, idx in pos.items():
                    if len(idx) == 1 and 0 <= idx[0] < n:
                        y[idx[0]] = float(F(case["point"][p]))
                dy = np.asarray(func(0.0, y, *args[2:]), dtype=float)
                return {"pos": pos, "n": n, "dy": {p: C.f2s(dy[idx[0]]) for p, idx in pos.items() if len(idx) == 1 and 0 <= idx[0] < n}}
            except Exception as e:
                return {"error": type(e).__name__, "msg": str(e)[:300]}


def gen_positions_case(rng, tier):
    for _ in range(100):
        mdl = G.gen_model(rng, max_nodes=4, min_nodes=2, linear=True, clones=True, depth=rng.choice([0, 0, 1]), hostile=rng.random() < 0.3)
        flat = M.flatten(mdl)
        sp = M.state_paths(flat)
        if len(set(sp)) != len(sp) or len(sp) > 8:
            continue
        vec = rng.random() < 0.6
        if vec:
            # C04's regions are not re-tested here: vectorized cases keep edges that leave state variables, one per target
            if mdl["circuit"].get("circuits"):
                continue
            seen, es = set(), []
            for e in mdl["circuit"].get("edges", []):
                if e["src"] in sp and e["tgt"] not in seen:
                    seen.add(e["tgt"])
                    es.append(e)
            mdl["circuit"]["edges"] = es
        pt = {p: C.q2s(F(rng.randint(-3, 3), rng.choice([1, 2]))) for p in sp}
        o = N.oracle_case({"mdl": mdl, "points": [pt], "pis": [{}], "interp": {}})
        if "error" in o or o["bits"] > 40:
            continue
        return {"mdl": mdl, "vectorize": vec, "state_paths": sp, "point": pt, "expected": o["dy"][0]}
    raise C.HarnessError("generator could not produce an admissible positions case")


def denoted(case, flat, label):
    """which variable path does a column label denote?  -> (path or None, why)"""
    outs = case["run"]["outputs"]
    if case["form"] == "list":
        lab = label if isinstance(label, str) else "/".join(x for x in label if x != "nan")
        return lab, "list form: the label is the path"
    if isinstance(label, str):
        key = label
        if key not in outs:
            return None, "unknown key"
        tg = resolve(case["mdl"], flat, outs[key])
        *_, op, var = outs[key].split("/")
        return (f"{tg[0]}/{op}/{var}" if len(tg) == 1 else None), "dict form, single target"
    parts = [x for x in label if x != "nan"]
    key = parts[0]
    if key not in outs:
        return None, "unknown key"
    if len(parts) == 1:
        tg = resolve(case["mdl"], flat, outs[key])
        *_, op, var = outs[key].split("/")
        return (f"{tg[0]}/{op}/{var}" if len(tg) == 1 else None), "dict form, single target (multi-index frame)"
    return "/".join(parts[1:]), "dict form, (key, node..., op/var)"


def deviations(case, res, orc):
    if "error" in res:
        return [("raises", res)]
    flat = orc["flat"]
    outs = case["run"]["outputs"]
    want = []
    for key, req in (outs.items() if isinstance(outs, dict) else [(None, r) for r in outs]):
        *_, op, var = req.split("/")
        for n in resolve(case["mdl"], flat, req):
            want.append((key, f"{n}/{op}/{var}"))
    bad = []
    seen = []
    for label, vals in res["cols"]:
        p, why = denoted(case, flat, label)
        if p is None or p not in orc["rows"][0]:
            bad.append(("unidentifiable-column", {"label": label, "why": why}))
            continue
        exp = [row[p] for row in orc["rows"]]
        if vals != exp:
            bad.append(("column-carries-other-variable", {"label": label, "denotes": p, "got": vals, "expected": exp}))
        seen.append(p)
    if case["form"] == "list":
        want = list(dict.fromkeys((None, p) for _, p in want))       # list-form columns are keyed by the path: a variable requested twice is one column
    missing = [p for k, p in want if p not in seen]
    if missing:
        bad.append(("requested-variable-missing", missing))
    if len(seen) != len(want):
        bad.append(("column-count", {"returned": len(seen), "requested": len(want)}))
    return bad


def unit_get_nodes(rng, n):
    """U stream: the real CircuitTemplate.get_nodes vs the Lean model `getNodes` vs the glob specification on random hierarchies"""
    import warnings
    from pyrates import OperatorTemplate, NodeTemplate, CircuitTemplate
    cases, impl = [], []
    with warnings.catch_warnings():
        warnings.simplefilter("ignore")
        op = OperatorTemplate(name="op", equations=["x' = -x"], variables={"x": "output(1.0)"}, path=None)
        nt = NodeTemplate(name="n", operators=[op], path=None)
        for _ in range(n):
            depth = rng.choice([0, 1, 1, 2])

            def mk(level, name):
                if level == 0:
                    labels = rng.sample(G.NODE_LABELS, rng.randint(1, 4))
                    return CircuitTemplate(name=name, nodes={l: nt for l in labels}, edges=[], path=None), [[l] for l in labels]
                labels = rng.sample(G.CIRC_LABELS, rng.randint(1, 3))
                subs, leaves = {}, []
                for l in labels:
                    c, lv = mk(level - 1, name + l)
                    subs[l] = c
                    leaves += [[l] + p for p in lv]
                return CircuitTemplate(name=name, circuits=subs, edges=[], path=None), leaves
            c, leaves = mk(depth, "net")
            p = rng.choice(leaves)
            r = rng.random()
            if r < 0.25:
                pat = ["all"]
            elif r < 0.5:
                pat = list(p)
            else:
                k = rng.randint(0, len(p) - 1)
                pat = p[:k] + ["all"] * (len(p) - k)
            try:
                got = [x.split("/") for x in c.get_nodes(list(pat))]
            except Exception as e:
                got = "raise:" + type(e).__name__
            cases.append({"comp": "paths", "leaves": leaves, "pat": pat})
            impl.append(got)
    return cases, impl


def kf_c04_region(case, res, dev):
    """vectorized runs inside one of C04's known-finding regions (vectorization itself changes the dynamics / raises there)"""
    if not case["run"].get("vectorize"):
        return False
    from . import c04
    return any(pred(case, "vec", res, dev) for _, (pred, _) in c04.KNOWN.items())


KNOWN = {"C06-inherits-C04-regions": (kf_c04_region, "vectorize=True inside a known-finding region of C04 (see C04-* entries): the column is wrong or the run raises because vectorization changed the model, not because of addressing")}


def check(tier, seed, replay=None):
    rep = C.Report(PID, tier, seed)
    rng = random.Random(seed)
    proof_ok, detail = C.prepare_lean(rep)
    rep.cov["rule"] = ("random linear models (2-5 nodes per circuit, hierarchy depth 0-2, structurally identical nodes with different initial values and parameters so that a "
                       "swapped column is visible) simulated by run(); output request = 1-3 paths in dict or list form, each a single node, 'all', or a mix of 'all' and labels per "
                       "hierarchy level; vectorize on/off.  Every returned column is mapped back to the variable its label names and compared exactly with that variable's "
                       "trajectory in the Lean model/oracle; every requested variable must appear once.  P stream: get_run_func (in place) followed by get_variable_positions(path) for every state variable - a bijection onto the state vector, and the vector field evaluated through these positions is the model's, variable by variable.  Bound-edge stratum: edge templates with a further input bound to an explicit variable path.  distinct = distinct cases; non-trivial = a wildcard or >= 2 keys")
    if replay:
        cases = [json.load(open(replay))["case"]]
    else:
        cases = [json.load(open(f))["case"] for f in sorted(glob.glob(os.path.join(C.VERIF, "corpus", PID, "*.json")))]
        cases += [gen_case(rng, tier) for _ in range(160 if tier == "quick" else 2500)]
        cases += [gen_bound_case(rng, tier) for _ in range(12 if tier == "quick" else 150)]
    orcs = [N.oracle_traj(dict(c, mdl=c.get("expected_mdl", c["mdl"]))) for c in cases]
    impl = C.run_forked(N.impl_run, cases, timeout=240)
    drv = C.Driver()
    bad = []
    active_kf = {f["id"] for f in C.load_known_findings() if f.get("property") == PID and f.get("status") == "known"}
    for case, im, orc in zip(cases, impl, orcs):
        if "crash" in im:
            raise C.HarnessError("harness child crashed: " + str(im)[:800])
        outs = case["run"]["outputs"]
        reqs = list(outs.values()) if isinstance(outs, dict) else outs
        rep.count(f"{case['form']}-{'vec' if case['run']['vectorize'] else 'novec'}" + ("-second-run-on-template" if case.get("first_run") else "") + ("-bound-edge-input" if case.get("bound_edges") else "") + ("-wildcard-update_var" if case.get("history") else ""), json.dumps(case, sort_keys=True), nontrivial=(len(reqs) > 1 or any("all" in r.split("/") for r in reqs)))
        mr = drv.ask(N.model_traj_request(case, orc["flat"]))
        if mr.get("rows") != orc["rows"]:
            raise C.HarnessError("Lean model and oracle disagree: " + json.dumps(case)[:400])
        dev = deviations(case, im, orc)
        if dev:
            kf = [k for k in active_kf if k in KNOWN and KNOWN[k][0](case, im, dev)]
            if kf:
                rep.known_finding(f"{kf[0]}: {KNOWN[kf[0]][1]}")
            else:
                bad.append((case, im, dev))
        else:
            rep.validated()
    drv.close()
    pbad = []
    if not replay:
        pcases = [gen_positions_case(rng, tier) for _ in range(40 if tier == "quick" else 500)]
        pres = C.run_forked(positions_probe, pcases, timeout=240)
        for pc, pr in zip(pcases, pres):
            if "crash" in pr:
                raise C.HarnessError("positions probe crashed: " + str(pr)[:600])
            rep.count("P-get_variable_positions" + ("-vec" if pc["vectorize"] else ""), json.dumps(pc, sort_keys=True), nontrivial=len(pc["state_paths"]) >= 3)
            if "error" in pr:
                pbad.append({"case": pc, "what": "get_variable_positions after get_run_func raises", "impl": pr})
                continue
            flatpos = [i for idx in pr["pos"].values() for i in idx]
            if any(len(idx) != 1 for idx in pr["pos"].values()) or sorted(flatpos) != list(range(pr["n"])):
                pbad.append({"case": pc, "what": "the positions of the state variables are not a bijection onto the state vector", "positions": pr["pos"], "n": pr["n"]})
                continue
            wrong = sorted(p for p in pc["state_paths"] if pr["dy"].get(p) != pc["expected"][p])
            if wrong:
                pbad.append({"case": pc, "what": "the position returned for a variable path holds another variable", "variable": wrong[0], "position": pr["pos"][wrong[0]],
                             "got": pr["dy"].get(wrong[0]), "expected": pc["expected"][wrong[0]]})
            else:
                rep.validated()
    if not replay:
        ucases, uimpl = unit_get_nodes(rng, 400 if tier == "quick" else 5000)
        drv2 = C.Driver()
        umodel = drv2.ask_many(ucases)
        drv2.close()
        ubad = [(c, i, m) for c, i, m in zip(ucases, uimpl, umodel) if not (i == m.get("nodes") == m.get("spec"))]
        for c in ucases:
            rep.count("U-get_nodes", json.dumps(c, sort_keys=True), nontrivial="all" in c["pat"])
        rep.validated(len(ucases) - len(ubad))
        rep.cov["streams"]["get_nodes_impl_vs_model_vs_glob_disagreements"] = len(ubad)
        if ubad:
            c, i, m = min(ubad, key=lambda x: len(json.dumps(x[0])))
            if i != m.get("spec"):
                rep.violation("get_nodes does not return the nodes matched by the wildcard pattern (glob specification), in declaration order", {"request": c, "impl": i, "glob_spec": m.get("spec"), "lean_model": m.get("nodes")})
            else:
                rep.violation("C06: correspondence get_nodes impl-vs-Lean-model broken (impl agrees with the glob specification)", {"request": c, "impl": i, "lean_model": m.get("nodes")}, no_input=True, name="unproved")
    rep.sample({"outputs": cases[-1]["run"]["outputs"], "nodes": [n["path"] for n in orcs[-1]["flat"]["nodes"]], "impl_columns": [c[0] for c in impl[-1].get("cols", [])]})
    rep.cov["streams"]["impl_vs_spec_disagreements"] = len(bad)
    if bad:
        case, im, dev = min(bad, key=lambda x: len(json.dumps(x[0]["mdl"])))
        rep.violation(f"a column of the DataFrame returned by run does not carry the variable named in its label ({dev[0][0]})", {"case": case, "impl": im, "deviations": dev[:4]})
    if pbad:
        b = min(pbad, key=lambda x: len(json.dumps(x["case"]["mdl"])))
        rep.violation("get_variable_positions does not address the variable its path names: " + b["what"], b)
    if not bad and not pbad and not proof_ok:
        why = {"proof_ok": proof_ok, "build_log_tail": detail["build_log_tail"], "forbidden": detail["forbidden"],
               "audit_failures": (detail["audit"] or {}).get("failures"), "broken": "theorems of PyRatesModel.Props.C06 (build/audit)"}
        rep.violation("C06 is no longer shown to hold: " + why["broken"], why, no_input=True, name="unproved")
    return rep.finish()
