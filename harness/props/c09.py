"""C09 — discrete edge delays shift the source by round(delay/dt) steps.

Proof: lean/PyRatesModel/Props/C09.lean (ring-buffer invariant: after the call of step k slot j holds the source value of step k-j, zero before
the start, for every buffer size / step / source sequence; every edge reads its own slot) + the specification trajectory with delayed edges
(Net.trajectoryD).  Correspondence: run(solver='euler') on random linear networks with mixtures of delayed (>= 2 steps, incl. values that round
half-even) and undelayed edges, several delays per source, shared targets, vectorize on/off; trajectories compared exactly with the Lean
specification trajectory and the oracle."""
import random, json, os, glob, copy
from fractions import Fraction as F
from .. import common as C
from .. import mdl as M, gen_net as G, netcheck as N
from .c04 import deviations, structure_groups

PID = "C09"


def gen_simple(rng):
    """the typical delayed network: leaky integrators x' = -a*x + k*r_in (one output variable per node), 2-5 nodes with different parameters,
    at most one edge per (source, target) pair"""
    n = rng.randint(2, 5)
    op = {"name": "li", "eqs": [{"lhs": "x", "de": True, "rhs": M.add(M.mul(M.num(F(-1, 2)), M.mul(M.var("a"), M.var("x"))), M.mul(M.var("k"), M.var("r_in")))}],
          "vars": {"x": {"decl": "output", "value": "1"}, "a": {"decl": "const", "value": "1"}, "k": {"decl": "const", "value": "1"}, "r_in": {"decl": "input", "value": "0"}}}
    same = rng.random() < 0.6          # structurally identical nodes (merged by vectorization) or two node types
    ops = {"O": op}
    if not same:
        op2 = copy.deepcopy(op)
        op2["name"] = "li2"
        op2["eqs"].append({"lhs": "z", "de": True, "rhs": M.sub(M.var("x"), M.var("z"))})
        op2["vars"]["z"] = {"decl": "var", "value": "0"}
        ops["P"] = op2
    nts, nodes = {}, {}
    for i in range(n):
        o = "O" if same or i % 2 == 0 else "P"
        nts[f"T{i}"] = {"name": f"t{i}", "ops": [o], "overrides": {o: {"x": str(F(rng.randint(-4, 4), 2)), "a": str(F(rng.choice([0, 1, 2]))), "k": str(F(rng.choice([1, 2, -1]), rng.choice([1, 2])))}}}
        nodes[f"n{i}"] = f"T{i}"
    names = {l: ops[nts[t]["ops"][0]]["name"] for l, t in nodes.items()}
    pairs = [(s, t) for s in nodes for t in nodes]
    rng.shuffle(pairs)
    edges = [{"src": f"{s}/{names[s]}/x", "tgt": f"{t}/{names[t]}/r_in", "w": str(F(rng.choice([1, 2, 3, -2]), rng.choice([1, 2])))} for s, t in pairs[:rng.randint(1, min(len(pairs), 7))]]
    return {"ops": ops, "node_templates": nts, "circuit": {"name": "net", "nodes": nodes, "edges": edges}}


def gen_fanout(rng):
    """stratum: one node of its own type projecting with different delays to 2-4 nodes of another type (merged into one vectorized edge)"""
    m = gen_simple(rng)
    base = m["ops"]["O"]
    op2 = copy.deepcopy(base)
    op2["name"] = "src_op"
    op2["eqs"].append({"lhs": "zz", "de": True, "rhs": M.sub(M.var("x"), M.var("zz"))})      # structurally different: a node type of its own
    op2["vars"]["zz"] = {"decl": "var", "value": "0"}
    m["ops"] = {"O": base, "S": op2}
    m["_fanout"] = True
    k = rng.randint(2, 4)
    nts = {"S0": {"name": "s0", "ops": ["S"], "overrides": {"S": {"x": "2", "a": "1"}}}}
    nodes = {"src": "S0"}
    for i in range(k):
        nts[f"T{i}"] = {"name": f"t{i}", "ops": ["O"], "overrides": {"O": {"x": str(F(rng.randint(-3, 3))), "a": str(F(rng.choice([0, 1, 2])))}}}
        nodes[f"n{i}"] = f"T{i}"
    edges = [{"src": "src/src_op/x", "tgt": f"n{i}/li/r_in", "w": str(F(rng.choice([1, 2, 3])))} for i in range(k)]
    if rng.random() < 0.5:
        edges.append({"src": "n0/li/x", "tgt": "src/src_op/r_in", "w": "1"})
    m["node_templates"], m["circuit"] = nts, {"name": "net", "nodes": nodes, "edges": edges}
    return m


def gen_ring(rng):
    """every node of one merged group is the source of exactly one edge (a permutation of the nodes), all edges carry the same delay and are
    declared in an order that is not the node order: each target must receive the delayed value of ITS source"""
    m = gen_simple(rng)
    n = rng.randint(3, 5)
    op = m["ops"]["O"]
    nts, nodes = {}, {}
    for i in range(n):
        nts[f"T{i}"] = {"name": f"t{i}", "ops": ["O"], "overrides": {"O": {"x": str(F(rng.randint(-4, 4), 2)), "a": str(F(rng.choice([0, 1, 2]))), "k": str(F(rng.choice([1, 2, -1]), rng.choice([1, 2])))}}}
        nodes[f"n{i}"] = f"T{i}"
    perm = list(range(n))
    while any(p == i for i, p in enumerate(perm)) or perm == sorted(perm):
        rng.shuffle(perm)
    edges = [{"src": f"n{i}/li/x", "tgt": f"n{perm[i]}/li/r_in", "w": str(F(rng.choice([1, 2, 3, -2]), rng.choice([1, 2])))} for i in range(n)]
    order = list(range(n))
    while order == sorted(order):
        rng.shuffle(order)
    return {"ops": {"O": op}, "node_templates": nts, "circuit": {"name": "net", "nodes": nodes, "edges": [edges[i] for i in order]}, "_ring": True}


def gen_case(rng, tier, solver="euler"):
    for _ in range(100):
        r_ = rng.random()
        mdl = gen_fanout(rng) if r_ < 0.25 else (gen_ring(rng) if r_ < 0.37 else gen_simple(rng))
        es = mdl["circuit"]["edges"]
        if not es:
            continue
        dt = rng.choice([F(1), F(1, 2), F(1, 4), F(3, 4), F(2), F(3, 2)])      # incl. step sizes whose reciprocal is not an integer
        any_delay = False
        ring = mdl.pop("_ring", False)
        if ring:
            D = rng.choice([2, 3, 4])
            for e in es:
                e["delay"] = C.q2s(D * dt)
            any_delay = True
            es = []
        # configurations the implementation refuses loudly are not generated: delayed edges from two different variables of one source operator
        # ("Buffer variable name collision") and several edges between the same pair of variables when one of them is delayed (IndexError)
        pairs = {}
        for e in es:
            pairs[(e["src"], e["tgt"])] = pairs.get((e["src"], e["tgt"]), 0) + 1
        delayed_var_of_op = {}
        if mdl.pop("_fanout", False):
            ds = rng.sample([2, 3, 4, 5, 6], len([e for e in es if e["src"].startswith("src/")]))
            for e, D in zip([e for e in es if e["src"].startswith("src/")], ds):
                e["delay"] = C.q2s(D * dt)
            any_delay = True
            es = []
        for e in es:
            opkey = e["src"].rsplit("/", 1)[0]
            if pairs[(e["src"], e["tgt"])] > 1 or delayed_var_of_op.get(opkey, e["src"]) != e["src"]:
                continue
            if rng.random() < 0.6:
                delayed_var_of_op[opkey] = e["src"]
                D = rng.choice([2, 2, 3, 4, 5])
                off = rng.choice([F(0), F(0), F(1, 4), F(-1, 4), F(1, 2), F(-1, 2)])       # round(d/dt) with half-even ties
                d = (D + off) * dt
                if round(d / dt) < 2:
                    continue
                e["delay"] = C.q2s(d)
                any_delay = True
        if not any_delay:
            continue
        flat = M.flatten(mdl)
        sp = M.state_paths(flat)
        if len(set(sp)) != len(sp):
            continue
        steps = rng.choice([5, 6, 7])
        case = {"mdl": mdl, "run": {"T": C.q2s(dt * steps), "dt": C.q2s(dt), "solver": solver, "vectorize": rng.random() < 0.5 or ring,
                                    "outputs": {f"v{i}": p for i, p in enumerate(sp)}}, "style": {}, "in_place": rng.random() < 0.5}
        if rng.random() < 0.2:
            case["first_dt"] = C.q2s(dt * rng.choice([2, F(1, 2)]))      # an earlier compilation of the same model with another step size
            case["first_kept"] = rng.random() < 0.6
        o = N.oracle_traj(case)
        if "error" in o or o["bits"] > 44:
            continue
        return case
    raise C.HarnessError("generator could not produce an admissible case")


def run_twice(case):
    """the same delayed model compiled twice in one process with two different step sizes (second result is the observable)"""
    first = json.loads(json.dumps(case))
    first["run"]["dt"] = case["first_dt"]
    first["run"]["T"] = C.q2s(F(case["first_dt"]) * 4)
    if case.get("first_kept"):
        first["run"]["kwargs"] = dict(first["run"].get("kwargs") or {}, clear=False)      # the earlier model is not cleared (the default of get_run_func)
    r0 = N.impl_run(first)
    if "error" in r0:
        # the earlier compilation itself failed (e.g. a C04 known finding); what a failed run leaves behind is C13's subject, not C09's
        from pyrates import clear_frontend_caches
        clear_frontend_caches()
    return N.impl_run(case)


def run_any(case):
    return run_twice(case) if case.get("first_dt") else N.impl_run(case)


def feats(case):
    flat = M.flatten(case["mdl"])
    by_src = {}
    for e in flat["edges"]:
        by_src.setdefault(tuple(e["src"]), []).append(e.get("delay"))
    return {"mixed_delayed_undelayed_same_source": any(None in v and any(x is not None for x in v) for v in by_src.values()),
            "several_delays_same_source": any(len({x for x in v if x is not None}) >= 2 for v in by_src.values())}


def kf_undelayed_shares_source(case, res, dev):
    """an undelayed edge leaves a source variable that also has delayed edges: it is delivered through the buffer (one step late / wrong slot)"""
    return "error" not in res and feats(case)["mixed_delayed_undelayed_same_source"]


def kf_c04(case, res, dev):
    if not case["run"].get("vectorize"):
        return False
    from . import c04
    return any(pred(case, "vec", res, dev) for _, (pred, _) in c04.KNOWN.items())


def kf_heun(case, res, dev):
    return case["run"]["solver"] == "heun" and "error" not in res


KNOWN = {"C09-undelayed-edge-shares-source": (kf_undelayed_shares_source, "an undelayed edge whose source variable also has delayed edges does not deliver the current value (it is routed through the delay buffer)"),
         "C09-heun-double-push": (kf_heun, "solver='heun': the ring buffer is advanced on both function evaluations of a step, so a delay of D steps acts like D/2"),
         "C09-inherits-C04-regions": (kf_c04, "vectorize=True inside a known-finding region of C04")}


def check(tier, seed, replay=None):
    rep = C.Report(PID, tier, seed)
    rng = random.Random(seed)
    proof_ok, detail = C.prepare_lean(rep)
    rep.cov["rule"] = ("random linear networks (2-4 nodes) in which ~60% of the edges carry a delay of (D + off)*dt, D in 2..5, off in {0, +-1/4, +-1/2} (half-even rounding), the rest "
                       "none; several delays per source variable, shared targets, parallel edges; run(euler, dt in {1,1/2,1/4}, 5-7 steps), vectorize on/off; a small heun stream. "
                       "distinct = distinct cases; non-trivial = >= 2 different delays or a mix of delayed and undelayed edges")
    if replay:
        cases = [json.load(open(replay))["case"]]
    else:
        cases = [json.load(open(f))["case"] for f in sorted(glob.glob(os.path.join(C.VERIF, "corpus", PID, "*.json")))]
        n = 140 if tier == "quick" else 2200
        cases += [gen_case(rng, tier) for _ in range(n)] + [gen_case(rng, tier, solver="heun") for _ in range(8 if tier == "quick" else 60)]
    orcs = [N.oracle_traj(c) for c in cases]
    impl = C.run_forked(run_any, cases, timeout=240)
    drv = C.Driver()
    bad = []
    active_kf = {f["id"] for f in C.load_known_findings() if f.get("property") == PID and f.get("status") == "known"}
    for case, im, orc in zip(cases, impl, orcs):
        if "crash" in im:
            raise C.HarnessError("harness child crashed: " + str(im)[:800])
        f = feats(case)
        rep.count(case["run"]["solver"] + ("-vec" if case["run"]["vectorize"] else "-novec") + ("-after-other-dt" if case.get("first_dt") else ""), json.dumps(case, sort_keys=True), nontrivial=any(f.values()))
        mr = drv.ask(N.model_traj_request(case, orc["flat"]))
        if mr.get("rows") != orc["rows"]:
            raise C.HarnessError("Lean model and oracle disagree: " + json.dumps(case)[:400])
        dev = deviations(case, im, orc)
        if dev:
            kf = [k for k in KNOWN if k in active_kf and KNOWN[k][0](case, im, dev)]
            if kf:
                rep.known_finding(f"{kf[0]}: {KNOWN[kf[0]][1]}")
                rep.cov["streams"]["known_finding_cases"] = rep.cov["streams"].get("known_finding_cases", 0) + 1
            else:
                bad.append((case, im, dev))
        else:
            rep.validated()
    drv.close()
    rep.sample({"edges": cases[-1]["mdl"]["circuit"]["edges"], "run": cases[-1]["run"]})
    rep.cov["streams"]["impl_vs_spec_disagreements"] = len(bad)
    if bad:
        case, im, dev = min(bad, key=lambda x: len(json.dumps(x[0]["mdl"])))
        rep.violation(f"a delayed edge did not deliver weight * source(k - round(d/dt)) ({dev[0][0]})", {"case": case, "impl": im, "deviations": dev[:4]})
    elif not proof_ok:
        why = {"proof_ok": proof_ok, "build_log_tail": detail["build_log_tail"], "forbidden": detail["forbidden"],
               "audit_failures": (detail["audit"] or {}).get("failures"), "broken": "theorems of PyRatesModel.Props.C09 (build/audit)"}
        rep.violation("C09 is no longer shown to hold: " + why["broken"], why, no_input=True, name="unproved")
    return rep.finish()
