"""C04 — vectorization does not change the model.

Proof: lean/PyRatesModel/Props/C04.lean (weight matrix filled from (target, source, weight) triples times a vector = grouped sum over all
triples, parallel edges included; indexed scatter with distinct targets = the same sum; hence matrix form and indexed form agree and the
sparseness threshold cannot matter) on top of the C01 reference semantics, which is stated per frontend variable and therefore independent
of how nodes are grouped.  Correspondence: the same MDL is simulated by the real run() with vectorize=True and vectorize=False; every frontend
state variable's Euler/Heun trajectory is compared exactly with the compiled Lean model, the Python oracle, and between the two modes."""
import random, json, os, glob
from fractions import Fraction as F
from .. import common as C
from .. import mdl as M, gen_net as G, netcheck as N

PID = "C04"


def gen_sparse_group(rng):
    """stratum: one large group (3-14 structurally identical nodes) with one-to-one edges in shuffled order (distinct targets), so that
    the indexed (non-matrix) branch of the edge compiler is taken; optionally forced with matrix_sparseness"""
    n = rng.choice([3, 4, 6, 10, 11, 12, 14])
    op = {"name": "li", "eqs": [{"lhs": "x", "de": True, "rhs": M.add(M.mul(M.num(F(-1, 2)), M.var("x")), M.mul(M.var("k"), M.var("r_in")))}],
          "vars": {"x": {"decl": "output", "value": "1"}, "k": {"decl": "const", "value": "1"}, "r_in": {"decl": "input", "value": "0"}}}
    nts = {}
    labels = [f"n{i}" for i in range(n)]
    nodes = {}
    for i, l in enumerate(labels):
        nts[f"T{i}"] = {"name": f"t{i}", "ops": ["O"], "overrides": {"O": {"x": str(F(rng.randint(-6, 6), 2)), "k": str(F(rng.choice([1, 2, 3, -1]), rng.choice([1, 2])))}}}
        nodes[l] = f"T{i}"
    srcs = labels[:]
    rng.shuffle(srcs)
    tg = labels[:]
    rng.shuffle(tg)
    k = rng.randint(max(2, n // 2), n)
    edges = [{"src": f"{s}/li/x", "tgt": f"{t}/li/r_in", "w": str(F(rng.choice([1, 2, 3, -2, 5]), rng.choice([1, 2])))} for s, t in list(zip(srcs, tg))[:k]]
    rng.shuffle(edges)
    return {"ops": {"O": op}, "node_templates": nts, "circuit": {"name": "net", "nodes": nodes, "edges": edges}}


def _li_group(rng, n, opname="li"):
    op = {"name": opname, "eqs": [{"lhs": "x", "de": True, "rhs": M.add(M.mul(M.num(F(-1, 2)), M.var("x")), M.mul(M.var("k"), M.var("r_in")))}],
          "vars": {"x": {"decl": "output", "value": "1"}, "k": {"decl": "const", "value": "1"}, "r_in": {"decl": "input", "value": "0"}}}
    nts, nodes = {}, {}
    labels = [f"n{i}" for i in range(n)]
    for i, l in enumerate(labels):
        nts[f"T{i}"] = {"name": f"t{i}", "ops": ["O"], "overrides": {"O": {"x": str(F(rng.randint(-6, 6), 2)), "k": str(F(rng.choice([1, 2, 3, -1]), rng.choice([1, 2])))}}}
        nodes[l] = f"T{i}"
    return op, nts, nodes, labels


def gen_alltoall(rng):
    """stratum: all-to-all coupling among 4-5 structurally identical nodes (>= 12 edges between the same pair of vectorized variables, converging targets)"""
    n = rng.choice([4, 4, 5])
    op, nts, nodes, labels = _li_group(rng, n)
    edges = [{"src": f"{a}/li/x", "tgt": f"{b}/li/r_in", "w": str(F(rng.choice([1, 2, 3, -2, 5]), rng.choice([1, 2])))} for a in labels for b in labels if a != b]
    if rng.random() < 0.5:
        rng.shuffle(edges)
    return {"ops": {"O": op}, "node_templates": nts, "circuit": {"name": "net", "nodes": nodes, "edges": edges}}


def gen_perm(rng):
    """stratum: a permutation coupling of N identical nodes in which the first listed edge targets member 0, the last member N-1 and the interior is
    permuted; delayed (N >= 4) or undelayed with N >= 10"""
    delayed = rng.random() < 0.5
    n = rng.choice([4, 5, 6]) if delayed else rng.choice([10, 11, 12])
    op, nts, nodes, labels = _li_group(rng, n)
    tg = list(range(1, n - 1))
    rng.shuffle(tg)
    tg = [0] + tg + [n - 1]
    src = list(range(n))
    rng.shuffle(src)
    edges = []
    for s_, t_ in zip(src, tg):
        e = {"src": f"n{s_}/li/x", "tgt": f"n{t_}/li/r_in", "w": str(F(rng.choice([1, 2, 3, -2]), rng.choice([1, 2])))}
        if delayed:
            e["delay"] = "DT*" + str(rng.choice([2, 3]))
        edges.append(e)
    return {"ops": {"O": op}, "node_templates": nts, "circuit": {"name": "net", "nodes": nodes, "edges": edges}, "_delayed": delayed}


def gen_twin(rng):
    """stratum: two node types with the same operator and variable names; each carries a pair of structurally identical synapse operators (same equations,
    other names and constants) feeding a shared population operator; the synapse equations differ between the two node types"""
    def syn(name, form, k):
        rhs = M.add(M.mul(M.num(F(-1, 2)), M.var("I_syn")), M.mul(M.var("k"), M.var("r_in"))) if form == 0 else \
            M.mul(M.var("tau"), M.sub(M.mul(M.var("k"), M.var("r_in")), M.var("I_syn")))
        return {"name": name, "eqs": [{"lhs": "I_syn", "de": True, "rhs": rhs}],
                "vars": {"I_syn": {"decl": "output", "value": "0"}, "tau": {"decl": "const", "value": "2"}, "k": {"decl": "const", "value": str(k)}, "r_in": {"decl": "input", "value": "0"}}}
    pop = {"name": "pop", "eqs": [{"lhs": "v", "de": True, "rhs": M.add(M.mul(M.num(F(-1, 4)), M.var("v")), M.var("I_syn"))}],
           "vars": {"v": {"decl": "output", "value": "0"}, "I_syn": {"decl": "input", "value": "0"}}}
    ops = {"AE": syn("syn_e", 0, 1), "AI": syn("syn_i", 0, -2), "BE": syn("syn_e", 1, 1), "BI": syn("syn_i", 1, -2), "P": pop}
    nts = {"A": {"name": "A", "ops": ["AE", "AI", "P"]}, "B": {"name": "B", "ops": ["BE", "BI", "P"]}}
    labels = ["a", "b"] + (["a2"] if rng.random() < 0.5 else []) + (["b2"] if rng.random() < 0.5 else [])
    nodes = {l: ("A" if l.startswith("a") else "B") for l in labels}
    if rng.random() < 0.5:
        items = list(nodes.items()); rng.shuffle(items); nodes = dict(items)
    edges = []
    for _ in range(rng.randint(2, 2 * len(labels))):
        s_, t_ = rng.choice(labels), rng.choice(labels)
        e = {"src": f"{s_}/pop/v", "tgt": f"{t_}/{rng.choice(['syn_e', 'syn_i'])}/r_in", "w": str(F(rng.choice([1, 2, 4, -1]), rng.choice([1, 2])))}
        if not any(x["src"] == e["src"] and x["tgt"] == e["tgt"] for x in edges):
            edges.append(e)
    mdl = {"ops": ops, "node_templates": nts, "circuit": {"name": "net", "nodes": nodes, "edges": edges},
           "post_values": {f"{l}/pop/v": str(F(rng.randint(-4, 4), 2)) for l in labels}}
    for l in labels:
        mdl["post_values"][f"{l}/syn_e/I_syn"] = str(F(rng.randint(-3, 3), 2))
        mdl["post_values"][f"{l}/syn_i/I_syn"] = str(F(rng.randint(-3, 3), 2))
    return mdl


def add_edge_templates(rng, mdl):
    """turn some edges into edges with an EdgeTemplate (algebraic or dynamic edge operator) and edge-specific parameter values"""
    eops = {"EA": {"name": "eop", "eqs": [{"lhs": "eo", "de": False, "rhs": M.mul(M.var("ea"), M.var("s_in"))}],
                   "vars": {"eo": {"decl": "output", "value": "0"}, "ea": {"decl": "const", "value": "2"}, "s_in": {"decl": "input", "value": "0"}}},
            "ED": {"name": "edyn", "eqs": [{"lhs": "ez", "de": True, "rhs": M.sub(M.mul(M.var("ek"), M.var("s_in")), M.var("ez"))}],
                   "vars": {"ez": {"decl": "output", "value": "0"}, "ek": {"decl": "const", "value": "1"}, "s_in": {"decl": "input", "value": "0"}}}}
    mdl["ops"].update(eops)
    mdl["edge_templates"] = {"TA": {"name": "etA", "op": "EA"}, "TD": {"name": "etD", "op": "ED"}}

    def walk(c):
        for e in c.get("edges", []):
            if rng.random() < 0.6:
                t = rng.choice(["TA", "TA", "TD"])
                e["template"] = t
                # every templated edge carries its own parameter value (edges that mix given / not given values raise a KeyError in _group_edges)
                e["values"] = {("ea" if t == "TA" else "ek"): str(F(rng.choice([1, 2, 3, -1, 5]), rng.choice([1, 2])))}
        for sub in c.get("circuits", {}).values():
            walk(sub)
    walk(mdl["circuit"])


def gen_shared_template(rng):
    """two node types, 3-5 nodes, and ONE edge template shared by projections between a mixture of types: some target type receives template edges
    from both source types and some source type feeds both target types (the merged edge operator is entered and left through several grouped projections)"""
    def leaky(name, v, rate, gain):
        return {"name": name, "eqs": [{"lhs": v, "de": True, "rhs": M.add(M.mul(M.num(-1), M.mul(M.var(rate), M.var(v))), M.mul(M.var(gain), M.var("r_in")))}],
                "vars": {v: {"decl": "output", "value": "1"}, rate: {"decl": "const", "value": "1"}, gain: {"decl": "const", "value": "1"}, "r_in": {"decl": "input", "value": "0"}}}
    ops = {"OA": leaky("opa", "x", "a", "k"), "OB": leaky("opb", "z", "b", "g")}
    nA, nB = rng.choice([(2, 1), (2, 2), (3, 1), (3, 2)])
    nts, nodes = {}, {}
    for i in range(nA):
        nts[f"A{i}"] = {"name": f"ta{i}", "ops": ["OA"], "overrides": {"OA": {"x": str(F(rng.randint(-4, 4), 2)), "a": str(F(rng.choice([0, 1, 2]), 2)), "k": str(F(rng.choice([1, 2, -1]), 2))}}}
        nodes[f"a{i}"] = f"A{i}"
    for i in range(nB):
        nts[f"B{i}"] = {"name": f"tb{i}", "ops": ["OB"], "overrides": {"OB": {"z": str(F(rng.randint(-4, 4), 2)), "b": str(F(rng.choice([0, 1, 2]), 2)), "g": str(F(rng.choice([1, 2, -1]), 2))}}}
        nodes[f"b{i}"] = f"B{i}"
    out = lambda n: f"{n}/opa/x" if n.startswith("a") else f"{n}/opb/z"
    inp = lambda n: f"{n}/opa/r_in" if n.startswith("a") else f"{n}/opb/r_in"
    names = sorted(nodes)
    A, B = [n for n in names if n[0] == "a"], [n for n in names if n[0] == "b"]
    pairs = {(A[0], A[1]), (A[1], B[0]), (B[0], A[0])}          # A->A, A->B, B->A
    cand = [(s_, t_) for s_ in names for t_ in names if s_ != t_ and (s_, t_) not in pairs]
    for pr in rng.sample(cand, rng.randint(0, min(3, len(cand)))):
        pairs.add(pr)
    edges = []
    for s_, t_ in sorted(pairs):
        e = {"src": out(s_), "tgt": inp(t_), "w": str(F(rng.choice([1, 2, 3, -1, -3]), rng.choice([1, 2])))}
        if (s_, t_) in {(A[0], A[1]), (A[1], B[0]), (B[0], A[0])} or rng.random() < 0.6:
            e["template"] = "TA"
            e["values"] = {"ea": str(F(rng.choice([1, 2, 3, -1, 5]), rng.choice([1, 2])))}
        edges.append(e)
    rng.shuffle(edges)
    mdl = {"ops": ops, "node_templates": nts, "circuit": {"name": "net", "nodes": nodes, "edges": edges}}
    mdl["ops"]["EA"] = {"name": "eop", "eqs": [{"lhs": "eo", "de": False, "rhs": M.mul(M.var("ea"), M.var("s_in"))}],
                        "vars": {"eo": {"decl": "output", "value": "0"}, "ea": {"decl": "const", "value": "2"}, "s_in": {"decl": "input", "value": "0"}}}
    mdl["edge_templates"] = {"TA": {"name": "etA", "op": "EA"}}
    return mdl


def gen_case(rng, tier):
    for _ in range(80):
        r0 = rng.random()
        sparse = r0 < 0.22
        special = None
        if sparse:
            mdl = gen_sparse_group(rng)
        elif r0 < 0.30:
            mdl, special = gen_alltoall(rng), "alltoall"
        elif r0 < 0.38:
            mdl, special = gen_perm(rng), "perm"
        elif r0 < 0.46:
            mdl, special = gen_twin(rng), "twin"
        elif r0 < 0.52:
            from .c06 import gen_bound_case
            mdl, special = gen_bound_case(rng, tier)["mdl"], "bound-edge"
        elif r0 < 0.60:
            mdl, special = gen_shared_template(rng), "shared-template"
        else:
            mdl = G.gen_model(rng, max_nodes=6, min_nodes=2, linear=True, clones=True, depth=rng.choice([0, 0, 0, 1]), hostile=rng.random() < 0.5)
        if not sparse and not special and rng.random() < 0.35:
            add_edge_templates(rng, mdl)
        dt = rng.choice([F(1), F(1, 2), F(1, 2), F(1, 4)])
        steps = rng.choice([2, 3, 4])
        if mdl.pop("_delayed", False):
            steps = rng.choice([4, 5])
            for e in mdl["circuit"]["edges"]:
                if isinstance(e.get("delay"), str) and e["delay"].startswith("DT*"):
                    e["delay"] = C.q2s(dt * int(e["delay"][3:]))
        flat = M.flatten(mdl)
        sp = [p for p in M.state_paths(flat) if not p.startswith("__edge")]
        if len(set(sp)) != len(sp):
            continue
        case = {"mdl": mdl, "run": {"T": C.q2s(dt * steps), "dt": C.q2s(dt), "solver": rng.choice(["euler", "euler", "heun"]),
                                    "outputs": {f"v{i}": p for i, p in enumerate(sp)}},
                "style": {"space": rng.random() < 0.7, "pow": "^", "ddt": rng.random() < 0.3}, "in_place": rng.random() < 0.5, "stratum": special or ("sparse" if sparse else "random")}
        if special in ("perm",) and any(e.get("delay") for e in mdl["circuit"]["edges"]):
            case["run"]["solver"] = "euler"        # Heun advances the ring buffer twice per step (C09's known finding)
        if sparse and rng.random() < 0.6:
            case["run"]["kwargs"] = {"matrix_sparseness": rng.choice([0.5, 0.9, 1.0])}
        o = N.oracle_traj(case)
        if "error" in o or o["bits"] > 44:
            continue
        return case
    raise C.HarnessError("generator could not produce an admissible case")


def run_both(case):
    out = {}
    for vec in (True, False):
        c = json.loads(json.dumps(case))
        c["run"]["vectorize"] = vec
        out["vec" if vec else "novec"] = N.impl_run(c)
    return out


def _unused():
    pass


def expected_cols(case, orc):
    """column key -> list of exact values over the rows"""
    exp = {}
    mult = _mult(case)
    for key, p in case["run"]["outputs"].items():
        exp[key] = [row[p] for row in orc["rows"]][::mult][:orc["steps"] // mult]
    return exp


def _mult(case):
    """sampling_step_size / step_size (an integer in every generated case)"""
    rc = case["run"]
    return int(F(rc["dts"]) / F(rc["dt"])) if rc.get("dts") else 1


def deviations(case, res, orc):
    if "error" in res:
        return [("raises", res)]
    exp = expected_cols(case, orc)
    got = {c[0] if isinstance(c[0], str) else "/".join(c[0]): c[1] for c in res["cols"]}
    bad = []
    dt = F(case["run"]["dt"]) * _mult(case)
    if res["index"] != [C.q2s(k * dt) for k in range(orc["steps"] // _mult(case))]:
        bad.append(("index", res["index"]))
    for k, v in exp.items():
        if got.get(k) != v:
            bad.append(("column", {"key": k, "path": case["run"]["outputs"][k], "got": got.get(k), "expected": v}))
    extra = set(got) - set(exp)
    if extra:
        bad.append(("extra-columns", sorted(extra)))
    return bad


def group_features(mdl):
    flat = M.flatten(mdl)
    sig = {}
    for n in flat["nodes"]:
        key = json.dumps([[o["name"], [e["lhs"] for e in o["eqs"]]] for o in n["ops"]])
        sig.setdefault(key, []).append(n["path"])
    sizes = sorted(len(v) for v in sig.values())
    return {"groups": len(sizes), "max_group": max(sizes), "singleton_groups": sum(1 for s in sizes if s == 1)}


def structure_groups(flat):
    sig = {}
    for n in flat["nodes"]:
        key = json.dumps([[o["name"], [e["lhs"] for e in o["eqs"]], sorted(d["name"] for d in o["vars"])] for o in n["ops"]])
        sig.setdefault(key, []).append(n["path"])
    return {p: k for k, v in sig.items() for p in v}, sig


def kf_default_lost(case, mode, im, dev):
    """vectorized group; an input variable is driven by >= 2 different (source group, source variable) keys on some members while another
    member of the same group receives nothing and has a non-zero declared default: the untargeted member gets 0 instead of its default"""
    if mode != "vec" or "error" in im:
        return False
    flat = M.flatten(case["mdl"])
    grp, sig = structure_groups(flat)
    decl = {(n["path"], o["name"], d["name"]): F(d["value"]) for n in flat["nodes"] for o in n["ops"] for d in o["vars"]}
    by = {}
    for e in flat["edges"]:
        tn, to, tv = e["tgt"]
        by.setdefault((grp[tn], to, tv), {"targets": set(), "keys": set()})
        by[(grp[tn], to, tv)]["targets"].add(tn)
        by[(grp[tn], to, tv)]["keys"].add((grp[e["src"][0]], e["src"][1], e["src"][2]))
    for (g, to, tv), info in by.items():
        members = sig[g]
        if len(info["keys"]) >= 2 and any(m not in info["targets"] and decl.get((m, to, tv), 0) != 0 for m in members):
            return True
    return False


def kf_group_alg_loop(case, mode, im, dev):
    """vectorize=True; an edge whose source is an algebraic (non-state) variable connects two nodes of the same merged group: the vector-valued
    algebraic variable then depends on itself through the edge operator and the previous call's value is used (the stale value is an argument
    of the generated function; when its shape is (1,) instead of () the first evaluation raises 'setting an array element with a sequence')"""
    if mode != "vec":
        return False
    if "error" in im and not (im.get("error") == "ValueError" and "setting an array element with a sequence" in im.get("msg", "")):
        return False
    flat = M.flatten(case["mdl"])
    grp, sig = structure_groups(flat)
    ops = {(n["path"], o["name"]): o for n in flat["nodes"] for o in n["ops"]}
    edge_nodes = {n["path"] for n in flat["nodes"] if n.get("is_edge")}
    out_of = {}
    for e in flat["edges"]:
        out_of.setdefault(e["src"][0], []).append(e["tgt"][0])
    for e in flat["edges"]:
        if e["src"][0] in edge_nodes:
            continue
        o = ops[(e["src"][0], e["src"][1])]
        is_alg = any(q["lhs"] == e["src"][2] and not q["de"] for q in o["eqs"])
        # an edge with an edge template passes through its edge node: the connected pair is (source node, node behind the edge node)
        finals = out_of.get(e["tgt"][0], []) if e["tgt"][0] in edge_nodes else [e["tgt"][0]]
        if is_alg and any(grp[e["src"][0]] == grp[t] for t in finals if t in grp):
            return True
    # the same across groups: edges with algebraic sources that form a cycle on the level of the merged groups (group A's algebraic output feeds group B
    # whose algebraic output feeds group A) although no cycle exists between the individual nodes.  Edge operators are merged into groups as well (all edges
    # that carry the same edge template): they are vertices of this graph like the node groups.
    arcs = {}
    for e in flat["edges"]:
        o = ops[(e["src"][0], e["src"][1])]
        if any(q["lhs"] == e["src"][2] and not q["de"] for q in o["eqs"]) and e["tgt"][0] in grp:
            arcs.setdefault(grp[e["src"][0]], set()).add(grp[e["tgt"][0]])
    def reach(a, b, seen):
        for nx in arcs.get(a, ()):
            if nx == b or (nx not in seen and reach(nx, b, seen | {nx})):
                return True
        return False
    return any(reach(g, g, {g}) for g in arcs)


def kf_parallel_template_edges(case, mode, im, dev):
    """vectorize=False: two or more edges with the same EdgeTemplate between the same pair of variables -> IndexError at compile time"""
    if mode != "novec" or im.get("error") != "IndexError":
        return False
    seen = {}

    def walk(c, prefix=""):
        for e in c.get("edges", []):
            if e.get("template"):
                k = (prefix + e["src"], prefix + e["tgt"], e["template"])
                seen[k] = seen.get(k, 0) + 1
        for l, sub in c.get("circuits", {}).items():
            walk(sub, prefix + l + "/")
    walk(case["mdl"]["circuit"])
    return any(v >= 2 for v in seen.values())


KNOWN = {"C04-parallel-template-edges-novec": (kf_parallel_template_edges, "vectorize=False: several edges with the same EdgeTemplate between the same two variables raise IndexError('invalid index to scalar variable') while vectorize=True compiles them"),
         "C04-group-algebraic-loop": (kf_group_alg_loop, "vectorize=True: an edge from an algebraic variable to a node of the same merged group makes the vector-valued variable depend on itself; the stale value of the previous evaluation is used")}


def check(tier, seed, replay=None):
    rep = C.Report(PID, tier, seed)
    rng = random.Random(seed)
    proof_ok, detail = C.prepare_lean(rep)
    rep.cov["rule"] = ("random linear networks (2-6 nodes drawn from 1-3 node templates plus structurally identical clones with different per-node constants and initial values, "
                       "so that vectorization merges groups of 1..6 nodes; sparse/dense edge patterns, parallel edges, self connections, fan-in from several node types, hierarchy) "
                       "simulated with run(euler|heun, dt in {1, 1/2, 1/4}, 2-4 steps) once with vectorize=True and once with vectorize=False; every state variable's trajectory "
                       "is compared exactly with the Lean model and the oracle.  distinct = distinct cases; non-trivial = some group of >= 2 merged nodes and >= 1 edge")
    rep.assumptions += ["exact sample space (dyadic, linear dynamics, <= 44 bits)", "edge templates and delays are covered by C09/C11/C16, not here"]
    if replay:
        cases = [json.load(open(replay))["case"]]
    else:
        cases = [json.load(open(f))["case"] for f in sorted(glob.glob(os.path.join(C.VERIF, "corpus", PID, "*.json")))]
        cases += [gen_case(rng, tier) for _ in range(120 if tier == "quick" else 2000)]
    orcs = [N.oracle_traj(c) for c in cases]
    impl = C.run_forked(run_both, cases, timeout=240)
    drv = C.Driver()
    spec_bad = []
    gstat = {"merged_cases": 0, "singleton_target_groups": 0}
    active_kf = {f["id"] for f in C.load_known_findings() if f.get("property") == PID and f.get("status") == "known"}
    for case, im, orc in zip(cases, impl, orcs):
        if "crash" in im:
            raise C.HarnessError("harness child crashed: " + str(im)[:800])
        gf = group_features(case["mdl"])
        ne = G.features(case["mdl"])["n_edges"]
        gstat["merged_cases"] += gf["max_group"] >= 2
        rep.count("vec-vs-novec-" + case.get("stratum", "random"), json.dumps(case, sort_keys=True), nontrivial=(gf["max_group"] >= 2 and ne >= 1))
        mr = drv.ask(N.model_traj_request(case, orc["flat"]))
        if mr.get("rows") != orc["rows"]:
            raise C.HarnessError("Lean model and Python oracle disagree on a trajectory: " + json.dumps(case)[:500])
        ok = True
        for mode in ("vec", "novec"):
            dev = deviations(case, im[mode], orc)
            if dev:
                ok = False
                kf = [k for k in active_kf if k in KNOWN and KNOWN[k][0](case, mode, im[mode], dev)]
                if kf:
                    rep.known_finding(f"{kf[0]}: {KNOWN[kf[0]][1]}")
                    rep.cov["streams"]["known_finding_cases"] = rep.cov["streams"].get("known_finding_cases", 0) + 1
                else:
                    spec_bad.append((case, mode, im[mode], dev))
        if ok:
            rep.validated()
    drv.close()
    rep.cov["streams"].update(gstat)
    rep.cov["streams"]["impl_vs_spec_disagreements"] = len(spec_bad)
    rep.sample({"mdl": cases[-1]["mdl"], "run": cases[-1]["run"], "impl_vec": impl[-1]["vec"] if "error" in impl[-1]["vec"] else impl[-1]["vec"]["cols"][:2]})
    if spec_bad:
        case, mode, im, dev = min(spec_bad, key=lambda x: len(json.dumps(x[0]["mdl"])))
        rep.violation(f"vectorize={'True' if mode == 'vec' else 'False'}: trajectory of a frontend variable differs from the model's dynamics ({dev[0][0]})",
                      {"case": case, "mode": mode, "impl": im, "deviations": dev[:4]})
    elif not proof_ok:
        why = {"proof_ok": proof_ok, "build_log_tail": detail["build_log_tail"], "forbidden": detail["forbidden"],
               "audit_failures": (detail["audit"] or {}).get("failures"), "broken": "theorems of PyRatesModel.Props.C04 (build/audit)"}
        rep.violation("C04 is no longer shown to hold: " + why["broken"], why, no_input=True, name="unproved")
    return rep.finish()
