"""C11 — distributed delays are unit-gain gamma kernels with the stated mean.

Proof: lean/PyRatesModel/Props/C11.lean over lean/PyRatesModel/Gamma/Chain.lean - unit steady-state gain for every order and rate, rest states are
invariant under Euler steps, a ramp passes the chain delayed by k/a per stage and by n/a = d at the output (mean delay), the order rules of the two code
paths, every delay slot lands in the group of its own (order, rate) and groups have pairwise different keys.
Correspondence (exact, dyadic data, float64): leaky-integrator networks (2-5 nodes, merged by vectorization or not, fan-out from one source with different
(delay, spread) per edge, shared kernels, undelayed edges next to distributed ones) with edges carrying delay+spread, or delay only under dde_approx=n;
run(euler) vectorized and non-vectorized; every user variable's trajectory is compared exactly with the Lean trajectory (and an independent Fraction
oracle) of the explicitly written augmented system: per (source, order, rate) group one chain z_1' = a(u - z_1), z_k' = a(z_{k-1} - z_k) with
n = round((d/s)^2) (Lean: Gamma.orderScalar / orderMatrix), a = n/d, zero initial stages; orders/rates/groups come from the Lean model and are cross-checked
against an independent computation.  Connectivity (PopulationTemplate) form of the same coupling: stratum P."""
import random, json, os, glob, warnings, copy
from fractions import Fraction as F
import numpy as np
from .. import common as C
from .. import mdl as M, netcheck as N
from . import c09

PID = "C11"
# (delay, spread) pairs with a dyadic delay whose rate n/d is dyadic; (d/s)^2 integer and non-integer (rounding active)
DS = [(F(1, 2), F(1, 4)), (F(1, 2), F(3, 8)), (F(1, 2), F(5, 16)), (F(1, 2), F(1, 2)), (F(1, 4), F(1, 8)), (F(1, 4), F(3, 16)), (F(1), F(1, 2)), (F(1), F(3, 4)),
      (F(1, 2), F(3, 16)), (F(1), F(5, 8)), (F(1, 4), F(1, 4))]


def py_round_half_even(q):
    fl = q.numerator // q.denominator
    d = q - fl
    if d < F(1, 2): return fl
    if d > F(1, 2): return fl + 1
    return fl if fl % 2 == 0 else fl + 1


def order_scalar(d, s, dde):
    if d == 0: return 0
    if s > 0:
        n = py_round_half_even((d / s) ** 2)
        return n if n > dde else dde
    return dde


def order_matrix(d, s, dde):
    if s > 0:
        return max(1, py_round_half_even((d / s) ** 2))
    return dde if dde > 0 else 1


def expand(flat, dde, drv=None, path="scalar", dt=None):
    """the explicitly written augmented system: -> (flat circuit with chain nodes, info)"""
    fl = copy.deepcopy(flat)
    if drv is not None and dt is not None and path == "scalar":
        # how the Lean model of `_add_edge_buffer` realises every delayed edge (chain / ring buffer / pass-through) must be what this oracle does with it
        de = [e for e in fl["edges"] if e.get("delay") is not None]
        if de:
            kinds = drv.ask({"comp": "gamma", "slots": [[e["delay"], e.get("spread") or "0"] for e in de], "dde": dde, "path": "scalar", "dt": C.q2s(F(dt))})["kinds"]
            for e, k in zip(de, kinds):
                chain = e.get("spread") is not None or dde > 0
                n = order_scalar(F(e["delay"]), F(e.get("spread") or 0), dde) if chain else 0
                D = py_round_half_even(F(e["delay"]) / F(dt))
                want = {"kind": "chain", "order": n, "rate": C.q2s(F(n) / F(e["delay"]))} if n > 0 else ({"kind": "ring", "steps": D} if D > 1 else {"kind": "through"})
                if k != want:
                    raise C.HarnessError("Lean slot classification and the oracle disagree: " + json.dumps([e, k, want]))
                if chain and n == 0 and D > 1:
                    e.pop("spread", None)          # order 0 with a representable delay: a pure (ring-buffer) delay, handled as a plain delayed edge below
                if want["kind"] == "through":
                    e.pop("spread", None)          # a delay of at most one step is neglected by design (C09): the edge delivers the current value
                    e["delay"] = None
    by_src = {}
    for i, e in enumerate(fl["edges"]):
        if e.get("delay") is not None and (e.get("spread") is not None or dde > 0):
            by_src.setdefault(tuple(e["src"]), []).append(i)
    drop, new_nodes, new_edges, info = set(), [], [], []
    for gi, (src, idxs) in enumerate(sorted(by_src.items())):
        slots = [[fl["edges"][i]["delay"], fl["edges"][i].get("spread") or "0"] for i in idxs]
        orders = [(order_matrix if path == "matrix" else order_scalar)(F(d), F(s), dde) for d, s in slots]
        rates = [F(n) / F(d) if F(d) != 0 else F(0) for n, (d, s) in zip(orders, slots)]
        if drv is not None:
            mo = drv.ask({"comp": "gamma", "slots": slots, "dde": dde, "path": path})
            if mo["orders"] != orders or mo["rates"] != [C.q2s(r) for r in rates]:
                raise C.HarnessError("Lean order/rate rules and the independent computation disagree: " + json.dumps([slots, mo, orders]))
            groups = [(g["order"], F(g["rate"]), g["slots"]) for g in mo["groups"]]
        else:
            groups = []
            for k, (n, a) in enumerate(zip(orders, rates)):
                for g in groups:
                    if g[0] == n and g[1] == a:
                        g[2].append(k)
                        break
                else:
                    groups.append((n, a, [k]))
        for ci, (n, a, members) in enumerate(groups):
            info.append({"src": "/".join(src), "order": n, "rate": C.q2s(a), "edges": len(members)})
            for k in members:
                drop.add(idxs[k])
            if n == 0:
                for k in members:
                    e = fl["edges"][idxs[k]]
                    new_edges.append({"src": e["src"], "tgt": e["tgt"], "w": e["w"]})
                continue
            path = f"__gam{gi}_{ci}"
            vs = [{"name": "u", "decl": "input", "value": "0"}, {"name": "a", "decl": "other", "value": C.q2s(a)}] + \
                 [{"name": f"z{j}", "decl": "other", "value": "0"} for j in range(1, n + 1)]
            eqs = [{"lhs": f"z{j}", "de": True, "rhs": M.mul(M.var("a"), M.sub(M.var("u" if j == 1 else f"z{j - 1}"), M.var(f"z{j}")))} for j in range(1, n + 1)]
            new_nodes.append({"path": path, "ops": [{"name": "g", "output": f"z{n}", "vars": vs, "eqs": eqs}], "is_chain": True})
            new_edges.append({"src": list(src), "tgt": [path, "g", "u"], "w": "1"})
            for k in members:
                e = fl["edges"][idxs[k]]
                new_edges.append({"src": [path, "g", f"z{n}"], "tgt": e["tgt"], "w": e["w"]})
    fl["edges"] = [e for i, e in enumerate(fl["edges"]) if i not in drop] + new_edges
    fl["nodes"] += new_nodes
    return fl, info


def oracle_aug(case, drv=None):
    flat = M.flatten(case["mdl"])
    aug, info = expand(flat, case.get("dde", 0), drv, dt=case["run"]["dt"])
    return aug, info


def aug_traj_case(case, aug):
    """a run case over the augmented flat circuit for N.oracle_traj-like evaluation"""
    return {"mdl": None, "run": case["run"], "ext_inputs": [], "interp": {}, "_flat": aug}


def oracle_traj_flat(aug, rc):
    """Euler iterates of the (augmented) flat circuit; remaining plain delayed edges deliver round(d/dt)-step old values (C09)"""
    dt = F(rc["dt"])
    steps = round(F(rc["T"]) / dt)
    sp = M.state_paths(aug)
    init = {}
    for n in aug["nodes"]:
        for o in n["ops"]:
            for d in o["vars"]:
                init[f"{n['path']}/{o['name']}/{d['name']}"] = F(d["value"])
    sigma = {p: init[p] for p in sp}
    delayed = [e for e in aug["edges"] if e.get("delay") is not None]
    plain = dict(aug, edges=[e for e in aug["edges"] if e.get("delay") is None])
    hist, rows, mb = [], [], 0
    for k in range(steps):
        rows.append({p: C.q2s(v) for p, v in sigma.items()})
        fl = plain
        if delayed:
            fl = dict(plain, nodes=list(plain["nodes"]), edges=list(plain["edges"]))
            for i, e in enumerate(delayed):
                D = py_round_half_even(F(e["delay"]) / dt)
                val = F(e["w"]) * hist[k - D]["/".join(e["src"])] if k - D >= 0 else F(0)
                fl["nodes"].append({"path": f"__del{i}", "ops": [{"name": "e", "output": "u", "vars": [{"name": "u", "decl": "other", "value": str(val)}], "eqs": []}]})
                fl["edges"].append({"src": [f"__del{i}", "e", "u"], "tgt": e["tgt"], "w": "1"})
        vals, dy = M.oracle_eval(fl, sigma, {})
        hist.append(vals)
        sigma = {p: sigma[p] + dt * dy[p] for p in sp}
        mb = max([mb] + [N.bits(v) for v in sigma.values()])
    return rows, mb


def gen_case(rng, tier):
    for _ in range(300):
        fan = rng.random() < 0.35
        mdl = c09.gen_fanout(rng) if fan else c09.gen_simple(rng)
        mdl.pop("_fanout", None)
        es = mdl["circuit"]["edges"]
        if not es:
            continue
        dde = rng.choice([0, 0, 0, 2, 3])
        dt = rng.choice([F(1, 8), F(1, 16)])
        tiny = rng.random() < 0.15
        if tiny:
            # delays that differ only in the third decimal (3/256, 1/128, 3/512) realised as chains of the same order with different rates
            dde, dt = 3, F(1, 256)
        # one delayed variable per source operator, no parallel edges next to a delayed one (refused loudly by PyRates, see C09/C10)
        pairs = {}
        for e in es:
            pairs[(e["src"], e["tgt"])] = pairs.get((e["src"], e["tgt"]), 0) + 1
        any_g = False
        mixed = False
        for e in es:
            if pairs[(e["src"], e["tgt"])] > 1:
                continue
            r = rng.random()
            if tiny:
                if r < 0.8:
                    e["delay"] = C.q2s(rng.choice([F(3, 256), F(1, 128), F(3, 512)]))
                    any_g = True
                continue
            if r < 0.6:
                d, s = rng.choice(DS)
                e["delay"], e["spread"] = C.q2s(d), C.q2s(s)
                if d.denominator == 1 and rng.random() < 0.6:
                    e["delay_as_int"] = True          # the mean written as a Python int (`delay: 1` in YAML): same kernel
                any_g = True
            elif r < 0.75 and dde > 0:
                e["delay"] = C.q2s(rng.choice([F(1, 2), F(1, 4), F(1)]))
                if F(e["delay"]).denominator == 1 and rng.random() < 0.6:
                    e["delay_as_int"] = True
                any_g = True
            elif r < 0.8 and dde == 0:
                # a pure (discrete) delay next to distributed ones, possibly on the same source variable: it keeps its shift of round(d/dt) steps (C09)
                e["delay"] = C.q2s(dt * rng.choice([1, 2, 3, 4]))      # (exactly one step: neglected, with and without vectorization)
                mixed = True
        if not any_g:
            continue
        flat = M.flatten(mdl)
        sp = M.state_paths(flat)
        if len(set(sp)) != len(sp):
            continue
        steps = 6 if tiny else rng.choice([4, 5, 6])
        case = {"mdl": mdl, "dde": dde, "run": {"T": C.q2s(dt * steps), "dt": C.q2s(dt), "solver": "euler", "vectorize": rng.random() < 0.5,
                                                 "outputs": {f"v{i}": p for i, p in enumerate(sp)}, "kwargs": ({"dde_approx": dde} if dde else {})},
                "style": {}, "in_place": rng.random() < 0.5, "approx": tiny, "mixed": mixed}
        try:
            aug, info = oracle_aug(case)
            rows, mb = oracle_traj_flat(aug, case["run"])
        except (ValueError, RecursionError):
            continue
        if (mb > 50 and not tiny) or len(M.state_paths(aug)) > 40:
            continue
        return case
    raise C.HarnessError("C11 generator could not produce an admissible case")


def check(tier, seed, replay=None):
    rep = C.Report(PID, tier, seed)
    rng = random.Random(seed)
    proof_ok, detail = C.prepare_lean(rep)
    rep.cov["rule"] = __doc__.split("Correspondence")[1][:1400]
    if replay:
        cases = [json.load(open(replay))["case"]]
    else:
        cases = [json.load(open(f))["case"] for f in sorted(glob.glob(os.path.join(C.VERIF, "corpus", PID, "*.json")))]
        cases += [gen_case(rng, tier) for _ in range(70 if tier == "quick" else 1000)]
    impl = C.run_forked(N.impl_run, cases, timeout=300)
    drv = C.Driver()
    bad = []
    active_kf = {f["id"] for f in C.load_known_findings() if f.get("property") == PID and f.get("status") == "known"}
    for case, im in zip(cases, impl):
        if "crash" in im:
            raise C.HarnessError("harness child crashed: " + str(im)[:800])
        aug, info = oracle_aug(case, drv)
        orders = sorted({g["order"] for g in info})
        shared = any(g["edges"] > 1 for g in info)
        rep.count(("vec" if case["run"]["vectorize"] else "novec") + ("-dde" if case.get("dde") else "") + ("-sharedkernel" if shared else "") + ("-tinydelays" if F(case["run"]["dt"]) < F(1, 100) else "") + ("-intdelay" if any(e.get("delay_as_int") for e in case["mdl"]["circuit"]["edges"]) else "") + ("-puredelay" if case.get("mixed") else ""),
                  json.dumps(case, sort_keys=True), nontrivial=len(info) >= 2)
        flat0 = M.flatten(case["mdl"])
        sp = M.state_paths(flat0)
        rows, _ = oracle_traj_flat(aug, case["run"])
        rc = {"mdl": None, "run": case["run"], "ext_inputs": [], "interp": {}}
        mo = drv.ask(N.model_traj_request(rc, aug))
        if mo.get("rows") != rows:
            raise C.HarnessError("Lean trajectory of the augmented system and the Fraction oracle disagree: " + json.dumps(case)[:400])
        if "error" in im:
            bad.append((case, [("raises", im)], info))
            continue
        dev = []
        cols = {}
        for label, vals in im["cols"]:
            key = label if isinstance(label, str) else label[0]
            cols[key] = vals
        exp_idx = [C.q2s(F(case["run"]["dt"]) * k) for k in range(len(rows))]
        if im["index"] != exp_idx:
            dev.append(("time-index", {"got": im["index"][:5], "expected": exp_idx[:5]}))
        for key, p in case["run"]["outputs"].items():
            exp = [r[p] for r in rows]
            got = cols.get(key)
            if case.get("approx") and got is not None and len(got) == len(exp) and \
                    all(abs(F(g) - F(x)) <= F(1, 10 ** 9) * max(1, abs(F(x))) for g, x in zip(got, exp)):
                continue      # tiny-delay stratum: more than 52 bits are needed, values are compared to 1e-9 against the exact trajectory
            if got != exp:
                k0 = next((k for k in range(min(len(exp), len(got or []))) if got[k] != exp[k]), None)
                dev.append(("trajectory-differs-from-the-augmented-system", {"variable": p, "first_wrong_sample": k0, "got": (got or [None])[k0] if k0 is not None else got,
                                                                              "expected": exp[k0] if k0 is not None else exp, "kernels": info}))
                break
        if dev:
            bad.append((case, dev, info))
        else:
            rep.validated()
    drv.close()
    rep.cov["streams"]["cases_with_deviations"] = len(bad)
    if os.environ.get("VERIF_DEBUG"):
        for case, dev, info in bad:
            json.dump({"case": case}, open(f"/tmp/lt/c11/bad_{dev[0][0][:6]}_{abs(hash(json.dumps(case, sort_keys=True))) % 10000}.json", "w"))
            print("DEBUG", case["run"]["vectorize"], case.get("dde"), dev[0][0], json.dumps(dev[0][1])[:200], [(e.get("delay"), e.get("spread")) for e in case["mdl"]["circuit"]["edges"]])
    if cases:
        rep.sample({"kernels": oracle_aug(cases[-1])[1], "run": {k: v for k, v in cases[-1]["run"].items() if k != "outputs"}})
    if bad:
        case, dev, info = min(bad, key=lambda x: len(json.dumps(x[0]["mdl"])))
        rep.violation(f"a distributed-delay edge does not behave as its gamma-kernel chain ({dev[0][0]})", {"case": case, "deviations": dev[:4], "kernels": info})
    elif not proof_ok:
        why = {"proof_ok": proof_ok, "build_log_tail": detail["build_log_tail"], "forbidden": detail["forbidden"],
               "audit_failures": (detail["audit"] or {}).get("failures"), "broken": "theorems of PyRatesModel.Props.C11 (build/audit)"}
        rep.violation("C11 is no longer shown to hold: " + why["broken"], why, no_input=True, name="unproved")
    return rep.finish()
