"""C08 — extrinsic inputs are applied at the right time to the right unit.

Proof: lean/PyRatesModel/Props/C08.lean (sample k drives step k for Euler and for both Heun evaluations; np.interp = clamped piecewise-linear
interpolant via the C19 query theorems; converging inputs/edges add up by the definition of inputValue in the C01 specification).
Correspondence: (F) run() with fixed-step solvers and non-constant integer inputs: scalar targets, wildcard targets with 1-D broadcast, (N,1) vs (N,),
(N,n) one column per node (vectorize=True), several inputs and edges converging on one variable, hierarchy; trajectories compared exactly with
the Lean model (extrinsic samples as `ext`) and the oracle.  (A) get_run_func(solver='scipy', inputs=...): func(t, y, ...) at dyadic times compared
exactly with the specification using the interpolant of the samples on linspace(0, T, N)."""
import random, json, os, glob, copy, warnings
from fractions import Fraction as F
import numpy as np
from .. import common as C
from .. import mdl as M, gen_net as G, netcheck as N
from .c07 import resolve

PID = "C08"


def input_targets(mdl, flat):
    out = []
    for n in flat["nodes"]:
        for o in n["ops"]:
            for d in o["vars"]:
                if d["decl"] == "input":
                    out.append(f"{n['path']}/{o['name']}/{d['name']}")
    return out


def gen_case(rng, tier, adaptive=False):
    for _ in range(100):
        wide = (not adaptive) and rng.random() < 0.1
        if wide:
            # ten or more nodes addressed by one wildcard (the index-based edge branch of vectorized networks)
            mdl = G.gen_model(rng, max_nodes=12, min_nodes=10, linear=True, clones=True, depth=0, hostile=False)
        else:
            mdl = G.gen_model(rng, max_nodes=4, min_nodes=1, linear=True, clones=True, depth=rng.choice([0, 0, 1, 2]), hostile=rng.random() < 0.3)
        flat = M.flatten(mdl)
        sp = M.state_paths(flat)
        if len(set(sp)) != len(sp):
            continue
        tg = input_targets(mdl, flat)
        if not tg:
            continue
        vectorize = rng.random() < 0.5 or wide
        dt = rng.choice([F(1), F(1, 2)])
        steps = rng.choice([3, 4, 4, 5, 6]) if not adaptive else rng.choice([3, 5, 9])
        inputs, ext, colvec = {}, [], False
        for _k in range(rng.randint(1, 2)):
            p = rng.choice(tg)
            *npath, op, var = p.split("/")
            r = rng.random()
            key = p if (r < 0.5 and not wide) else f"all/{op}/{var}"
            if key in inputs:
                continue
            targets = [f"{n}/{op}/{var}" for n in resolve(mdl, flat, key)]
            if len(targets) > 1 and vectorize and rng.random() < 0.5 and not adaptive:
                arr = [[C.q2s(F(rng.randint(-5, 5))) for _ in targets] for _ in range(steps)]       # (N, n): column i -> i-th addressed node
                inputs[key] = arr
                for i, t in enumerate(targets):
                    ext.append({"tgt": t, "samples": [row[i] for row in arr]})
            else:
                n_samples = steps if not adaptive else rng.choice([3, 5, 9])         # adaptive: every input has its own length / time grid
                arr = [C.q2s(F(rng.randint(-5, 5))) for _ in range(n_samples)]
                inputs[key] = arr                                                                     # 1-D: broadcast to every addressed node
                for t in targets:
                    ext.append({"tgt": t, "samples": arr})
        if not inputs:
            continue
        colvec = rng.random() < 0.3 and all(not isinstance(v[0], list) for v in inputs.values())
        case = {"mdl": mdl, "run": {"T": C.q2s(dt * steps), "dt": C.q2s(dt), "solver": rng.choice(["euler", "heun"]), "vectorize": vectorize,
                                    "outputs": {f"v{i}": p for i, p in enumerate(sp)}, "inputs": inputs, "inputs_col_vector": colvec},
                "ext_inputs": ext, "style": {}, "in_place": rng.random() < 0.5, "adaptive": adaptive}
        if not adaptive and not vectorize and rng.random() < 0.3:
            case["run"]["backend"] = "jax"
        if not adaptive and steps % 2 == 0 and rng.random() < 0.5:
            case["run"]["dts"] = C.q2s(dt * 2)        # sampling step = 2 x step: the input sample of step k must still drive step k
        if adaptive:
            # func(t, y) probes: get_run_func places N samples on linspace(0, N*dt, N)
            n0 = len(ext[0]["samples"])
            h = (dt * n0) / (n0 - 1)
            case["probe_t"] = [C.q2s(h * F(rng.randint(-2, 4 * (n0 - 1) + 2), 4)) for _ in range(3)]
            case["points"] = [{p: C.q2s(F(rng.randint(-3, 3), rng.choice([1, 2]))) for p in sp} for _ in range(3)]
            o = oracle_adaptive(case)
        else:
            o = N.oracle_traj(case)
        if "error" in o or o["bits"] > 44:
            continue
        return case
    raise C.HarnessError("generator could not produce an admissible case")


def interp(xs, ys, t):
    if t <= xs[0]:
        return ys[0]
    if t >= xs[-1]:
        return ys[-1]
    for i in range(len(xs) - 1):
        if xs[i] <= t < xs[i + 1]:
            return ys[i] + (t - xs[i]) / (xs[i + 1] - xs[i]) * (ys[i + 1] - ys[i])


def oracle_adaptive(case):
    flat = M.flatten(case["mdl"])
    rc = case["run"]
    dt = F(rc["dt"])
    res, mb = [], 0
    try:
        for pt, tq in zip(case["points"], case["probe_t"]):
            t = F(tq)
            fl = json.loads(json.dumps(flat))
            for i, x in enumerate(case["ext_inputs"]):
                n, o, v = x["tgt"].rsplit("/", 2)
                Ns = len(x["samples"])
                grid = [F(k) * (Ns * dt) / (Ns - 1) for k in range(Ns)]
                val = interp(grid, [F(s) for s in x["samples"]], t)
                fl["nodes"].append({"path": f"__ext{i}", "ops": [{"name": "e", "output": "u", "vars": [{"name": "u", "decl": "other", "value": str(val)}], "eqs": []}]})
                fl["edges"].append({"src": [f"__ext{i}", "e", "u"], "tgt": [n, o, v], "w": "1"})
            vals, dy = M.oracle_eval(fl, {k: F(v) for k, v in pt.items()})
            mb = max([mb] + [N.bits(v) for v in dy.values()] + [N.bits(v) for v in vals.values()])
            res.append({k: C.q2s(v) for k, v in dy.items() if not k.startswith("__ext")})
    except (ValueError, RecursionError) as e:
        return {"error": str(e)[:60]}
    return {"dy": res, "bits": mb, "flat": flat}


def impl_adaptive(case):
    mdl, rc = case["mdl"], case["run"]
    with M.Scratch():
        with warnings.catch_warnings():
            warnings.simplefilter("ignore")
            try:
                c, _, _ = M.build_pyrates(mdl)
                inputs = {k: np.array([float(F(x)) for x in v]) for k, v in rc["inputs"].items()}
                if rc.get("inputs_col_vector"):
                    inputs = {k: a.reshape(-1, 1) for k, a in inputs.items()}
                func, args, names, smap = c.get_run_func("vf", step_size=float(F(rc["dt"])), vectorize=False, float_precision="float64", verbose=False,
                                                         in_place=case.get("in_place", True), clear=False, inputs=inputs, solver="scipy")
            except Exception as e:
                return {"error": type(e).__name__, "msg": str(e)[:300], "stage": "compile"}
            out = []
            n = len(np.asarray(args[1]))
            for pt, tq in zip(case["points"], case["probe_t"]):
                y = np.zeros(n)
                for p, idx in smap.items():
                    if p in pt:
                        y[idx] = float(F(pt[p]))
                try:
                    a2 = list(args)
                    a2[2] = np.zeros_like(np.asarray(args[2], dtype=float))
                    dy = np.array(func(float(F(tq)), y, *a2[2:]), dtype=float)
                    out.append({p: C.f2s(dy[idx]) for p, idx in smap.items() if p in pt})
                except Exception as e:
                    out.append({"error": type(e).__name__, "msg": str(e)[:200]})
            return {"dy": out, "layout": {p: (idx if isinstance(idx, int) else str(idx)) for p, idx in smap.items()}}


def dev_fixed(case, res, orc):
    from .c04 import deviations
    return deviations(case, res, orc)


def dev_adaptive(case, res, orc):
    if "error" in res:
        return [("raises", res)]
    bad = []
    for k, (got, want) in enumerate(zip(res["dy"], orc["dy"])):
        if "error" in got:
            bad.append(("raises-at-call", got))
            continue
        diff = {p: (got.get(p), want[p]) for p in want if got.get(p) != want[p]}
        if diff:
            bad.append(("dy", {"probe": k, "t": case["probe_t"][k], "diff": diff}))
    return bad


def kf_c04_region(case, res, dev):
    if not case["run"].get("vectorize") or case.get("adaptive"):
        return False
    from . import c04
    return any(pred(case, "vec", res, dev) for _, (pred, _) in c04.KNOWN.items())


KNOWN = {"C08-inherits-C04-regions": (kf_c04_region, "vectorize=True inside a known-finding region of C04: the deviation is caused by vectorization, not by the input plumbing")}


def run_any(case):
    return impl_adaptive(case) if case.get("adaptive") else N.impl_run(case)


def adaptive_run_probe(seed):
    """run(solver='scipy') with inputs whose number of samples differs from T/step_size: the samples lie uniformly on [0, T] (linear interpolation);
    compared with an independent integration (scipy solve_ivp on the same interpolant, tight tolerances)"""
    from pyrates import OperatorTemplate, NodeTemplate, CircuitTemplate
    from scipy.integrate import solve_ivp
    rng = random.Random(seed)
    bad, done = [], 0
    with M.Scratch():
        with warnings.catch_warnings():
            warnings.simplefilter("ignore")
            for N_, T, dt in [(41, 2.0, 0.01), (11, 1.0, 0.01), (rng.choice([7, 23, 301]), 1.5, 0.005)]:
                a = rng.choice([0.5, 1.0, 2.0])
                u = np.cumsum(np.array([rng.uniform(-1, 1) for _ in range(N_)]))
                try:
                    op = OperatorTemplate(name="io", equations=["x' = -a*x + inp"], variables={"x": "output(0.5)", "inp": "input(0.0)", "a": a}, path=None)
                    c = CircuitTemplate(name="net", nodes={"p": NodeTemplate(name="n", operators=[op], path=None)}, edges=[], path=None)
                    res = c.run(simulation_time=T, step_size=dt, sampling_step_size=T / 20, solver="scipy", inputs={"p/io/inp": u}, outputs={"x": "p/io/x"},
                                float_precision="float64", verbose=False, clear=True, rtol=1e-9, atol=1e-11)
                    grid = np.linspace(0.0, T, N_)
                    times = np.asarray(res.index.values, dtype=float)
                    ref = solve_ivp(lambda t, y: -a * y + np.interp(t, grid, u), (0.0, float(times[-1])), [0.5], t_eval=times, rtol=1e-11, atol=1e-13, max_step=float(grid[1] - grid[0]) / 4)
                    got = np.asarray(res.values, dtype=float).reshape(-1)
                    err = float(np.max(np.abs(got - ref.y[0])))
                    done += 1
                    if not np.all(np.isfinite(got)) or err > 1e-5:
                        bad.append({"samples": N_, "T": T, "step_size": dt, "max_abs_error": err, "got_last": float(got[-1]), "expected_last": float(ref.y[0][-1])})
                except Exception as e:
                    bad.append({"samples": N_, "T": T, "raise": f"{type(e).__name__}: {str(e)[:200]}"})
    return {"done": done, "bad": bad}


def check(tier, seed, replay=None):
    rep = C.Report(PID, tier, seed)
    rng = random.Random(seed)
    proof_ok, detail = C.prepare_lean(rep)
    rep.cov["rule"] = ("F: random linear models simulated by run(euler|heun) with 1-2 extrinsic inputs of pairwise different integer samples: scalar target, 'all' wildcard with 1-D broadcast, "
                       "(N,1) column vectors, (N,n) one column per addressed node (vectorize=True), inputs converging with edges/feeders/other inputs, hierarchy depth 0-1; "
                       "A: get_run_func(solver='scipy', inputs=...) and func(t, y, ...) at dyadic t inside, on and outside the sample grid.  distinct = distinct cases; "
                       "non-trivial = an input addresses >= 2 nodes or converges with another source")
    if replay:
        cases = [json.load(open(replay))["case"]]
    else:
        cases = [json.load(open(f))["case"] for f in sorted(glob.glob(os.path.join(C.VERIF, "corpus", PID, "*.json")))]
        nF, nA = (130, 50) if tier == "quick" else (2000, 800)
        cases += [gen_case(rng, tier) for _ in range(nF)] + [gen_case(rng, tier, adaptive=True) for _ in range(nA)]
    orcs = [oracle_adaptive(c) if c.get("adaptive") else N.oracle_traj(c) for c in cases]
    impl = C.run_forked(run_any, cases, timeout=240)
    drv = C.Driver()
    bad = []
    active_kf = {f["id"] for f in C.load_known_findings() if f.get("property") == PID and f.get("status") == "known"}
    for case, im, orc in zip(cases, impl, orcs):
        if "crash" in im:
            raise C.HarnessError("harness child crashed: " + str(im)[:800])
        multi = len(case["ext_inputs"]) > len(case["run"]["inputs"]) or len({x["tgt"] for x in case["ext_inputs"]}) < len(case["ext_inputs"])
        rep.count(("A-" if case.get("adaptive") else "F-") + case["run"]["solver"] + ("-vec" if case["run"]["vectorize"] else "") + ("-jax" if case["run"].get("backend") == "jax" else "") + ("-sampling2x" if case["run"].get("dts") else ""), json.dumps(case, sort_keys=True), nontrivial=multi)
        if not case.get("adaptive"):
            mr = drv.ask(N.model_traj_request(case, orc["flat"]))
            if mr.get("rows") != orc["rows"]:
                raise C.HarnessError("Lean model and oracle disagree: " + json.dumps(case)[:400])
            dev = dev_fixed(case, im, orc)
        else:
            dev = dev_adaptive(case, im, orc)
        if dev:
            kf = [k for k in active_kf if k in KNOWN and KNOWN[k][0](case, im, dev)]
            if kf:
                rep.known_finding(f"{kf[0]}: {KNOWN[kf[0]][1]}")
            else:
                bad.append((case, im, dev))
        else:
            rep.validated()
    drv.close()
    ap = C.run_forked(adaptive_run_probe, [seed], timeout=600)[0] if not replay else {"done": 0, "bad": []}
    if "crash" in ap:
        raise C.HarnessError("adaptive run probe crashed: " + str(ap)[:400])
    rep.count("R-adaptive-run-input-length", None, n=ap["done"])
    for _ in range(ap["done"] - len([b for b in ap["bad"] if "raise" not in b])):
        rep.validated()
    if ap["bad"]:
        rep.violation("run(solver='scipy'): an input with a number of samples different from T/step_size is not interpolated on [0, T]", {"adaptive_run_probe": ap["bad"][:3]})
    rep.sample({"inputs": cases[0]["run"]["inputs"], "ext": cases[0]["ext_inputs"][:2], "impl": impl[0] if "error" in impl[0] else str(impl[0])[:300]})
    rep.cov["streams"]["impl_vs_spec_disagreements"] = len(bad)
    if bad:
        case, im, dev = min(bad, key=lambda x: len(json.dumps(x[0]["mdl"])))
        rep.violation(f"an extrinsic input was not applied at the right time to the right unit ({dev[0][0]})", {"case": case, "impl": im, "deviations": dev[:4]})
    elif not proof_ok:
        why = {"proof_ok": proof_ok, "build_log_tail": detail["build_log_tail"], "forbidden": detail["forbidden"],
               "audit_failures": (detail["audit"] or {}).get("failures"), "broken": "theorems of PyRatesModel.Props.C08 (build/audit)"}
        rep.violation("C08 is no longer shown to hold: " + why["broken"], why, no_input=True, name="unproved")
    return rep.finish()
