"""C14 — read-only and copy-making operations leave a template unchanged.

Proof: lean/PyRatesModel/Props/C14.lean — object-table model of a hierarchical template (edge lists owned by circuits, sub-circuits shared by
reference): the copying `collect_edges`/getters are a frame on the store for every sequence of calls and return the specification's edge list;
the aliasing variant is proved to grow the owner (counterexample); copy-on-derive (`update_template`) isolates parent and child (C07_frame).
Correspondence: random templates (flat and hierarchical, shared operator/node objects, per-node overrides) and random sequences of the listed
operations; a structural snapshot of the template, of its sub-templates and of all shared operators is compared before/after every operation, the
vector field of the template is compared with the Lean model/oracle of the original MDL afterwards, and run(in_place=False) is called twice."""
import random, json, os, glob, copy, warnings
from fractions import Fraction as F
import numpy as np
from .. import common as C
from .. import mdl as M, gen_net as G, netcheck as N
from . import c01

PID = "C14"
OPS = ["run", "get_run_func", "get_run_func_vec", "get_jacobian_func", "get_nodes", "get_edges", "get_edge", "collect_edges", "collect_edges_delay",
       "get_node_template", "getitem", "to_yaml", "deepcopy", "derive_and_mutate", "derive_edges_and_mutate", "op_update_template", "op_update_template", "to_yaml_dict_edge", "collect_edges_deep", "yaml_derive"]


def snap_op(op):
    return {"name": op.name, "eqs": list(op.equations), "vars": {k: repr(v) for k, v in op.variables.items()}}


def snap_node(nt):
    return {"name": nt.name, "ops": [[snap_op(o), {k: repr(v) for k, v in (var or {}).items()}] for o, var in nt.operators.items()]}


def snap_circ(c):
    return {"name": c.name,
            "nodes": {l: snap_node(nt) for l, nt in c.nodes.items()},
            "circuits": {l: snap_circ(s) for l, s in c.circuits.items()},
            "edges": [[e[0], e[1], (e[2].name if e[2] is not None else None), {k: repr(v) for k, v in e[3].items()}] + [repr(x) for x in e[4:]] for e in c.edges]}


def impl_history(case):
    """build the template, apply the history of read-only / copy-making operations, report snapshots and the final vector field"""
    from pyrates import CircuitTemplate, OperatorTemplate, NodeTemplate
    from copy import deepcopy
    mdl = case["mdl"]
    out = {"changed_by": [], "errors": []}
    with M.Scratch():
        with warnings.catch_warnings():
            warnings.simplefilter("ignore")
            c, ops, nts = M.build_pyrates(mdl)
            # an operator whose variables are declared in the explicit dictionary form (part of the snapshot)
            ops["__dictop"] = OperatorTemplate(name="dictop", equations=["q' = -kq*q"], path=None,
                                               variables={"q": "output(1.0)", "kq": {"vtype": "constant", "value": 2.0, "dtype": "float", "shape": ()}})
            base_snap = json.dumps([snap_circ(c), {k: snap_op(o) for k, o in ops.items()}], sort_keys=True)
            flat = M.flatten(mdl)
            sp = M.state_paths(flat)
            first_run = None
            for i, h in enumerate(case["history"]):
                name = h[0]
                try:
                    if name == "run":
                        r = c.run(simulation_time=2.0, step_size=0.5, solver="euler", outputs={f"v{j}": p for j, p in enumerate(sp)}, vectorize=bool(h[1]),
                                  float_precision="float64", verbose=False, in_place=False, clear=(len(h) < 3 or bool(h[2])))
                        cur = [[C.f2s(x) for x in row] for row in r.values]
                        if h[1] is False or h[1] == 0:
                            if first_run is None:
                                first_run = cur
                            elif cur != first_run:
                                out["errors"].append({"op": i, "name": name, "what": "repeated run(in_place=False) returned different results", "first": first_run, "now": cur})
                    elif name in ("get_run_func", "get_run_func_vec"):
                        c.get_run_func(f"f{i}", step_size=0.5, vectorize=(name == "get_run_func_vec"), float_precision="float64", verbose=False, in_place=False, clear=True)
                    elif name == "get_jacobian_func":
                        c.get_jacobian_func(f"j{i}", step_size=0.5, vectorize=False, float_precision="float64", verbose=False, in_place=False, clear=True)
                    elif name == "get_nodes":
                        c.get_nodes(["all"])
                    elif name == "get_edges":
                        c.get_edges("all", "all")
                    elif name == "get_edge":
                        es = c.collect_edges()
                        if es and not c.circuits:
                            c.get_edge(es[0][0], es[0][1])
                    elif name == "collect_edges":
                        res = c.collect_edges()
                        if res:
                            res.append(("x", "y", None, {}))         # the caller owns the returned list
                            res[0][3]["weight"] = 123.0 if False else res[0][3].get("weight")
                    elif name == "collect_edges_delay":
                        c.collect_edges(delay_info=True)
                    elif name == "get_node_template":
                        c.get_node_template(c.get_nodes(["all"])[0])
                    elif name == "getitem":
                        _ = c[list((c.circuits or c.nodes).keys())[0]]
                    elif name == "to_yaml":
                        os.makedirs("dump", exist_ok=True)
                        c.to_yaml(os.path.join(os.getcwd(), "dump", f"d{i}.yaml"))
                    elif name == "deepcopy":
                        d = deepcopy(c)
                        n0 = d.get_nodes(["all"])[0]
                    elif name == "derive_and_mutate":
                        # copy-making derivation, then the *derived* template is changed
                        cand = sorted(M.const_paths(flat))
                        if h[1] % 2 == 0:
                            d = c.update_template(name="derived")
                        elif c.circuits:
                            lab = list(c.circuits)[0]
                            d = c.update_template(name="derived", circuits={"extra_c": deepcopy(c.circuits[lab])})
                        else:
                            lab = list(c.nodes)[0]
                            d = c.update_template(name="derived", nodes={"extra_n": c.nodes[lab]})
                        if cand:
                            d.update_var(node_vars={cand[h[1] % len(cand)]: 77.0})
                    elif name == "derive_edges_and_mutate":
                        es = [e for e in mdl["circuit"].get("edges", [])]
                        if es and not mdl["circuit"].get("circuits"):
                            e = es[h[1] % len(es)]
                            d = c.update_template(edges=[(e["src"], e["tgt"], None, {"weight": 2.0})])
                            try:
                                d.update_var(edge_vars=[(e["src"], e["tgt"], {"weight": 55.0})])
                            except Exception:
                                pass
                    elif name == "op_update_template":
                        o = ops[sorted(k for k in ops if not k.startswith("__"))[h[1] % (len(ops) - 1)]]
                        ed = {"replace": {list(o.variables)[0]: "zz_new"}, "add": ["qq' = -qq"]}
                        o2 = o.update_template(name=o.name + "_d", equations=ed, variables={"qq": "variable(0.0)", "zz_new": 1.0})
                        od = ops["__dictop"].update_template(name="dictop_d", variables={"kq": {"value": 6.0}})
                        o4 = o.update_template(name=o.name + "_a", equations={"add": ["qa' = -qa"]}, variables={"qa": "variable(0.0)"})     # add-only edit
                        o3 = o.update_template(name=o.name + "_e")
                        for k in list(o3.variables):
                            o3.variables[k] = 5.0 if not isinstance(o3.variables[k], str) else o3.variables[k]
                    elif name == "to_yaml_dict_edge":
                        # a derived copy receives an edge in the documented dictionary form (list-form entry carrying an EdgeTemplate), in place; then to_yaml,
                        # which must leave that template as it is
                        from pyrates import EdgeTemplate
                        nodes_ = c.get_nodes(["all"])
                        if sp and not c.circuits and len(nodes_) >= 1:
                            d = c.update_template(name="dict_edge_copy")
                            eop = OperatorTemplate(name="eopd", equations=["m_e = c_e*s_e*x_e"], path=None,
                                                   variables={"m_e": "output(0.0)", "c_e": 0.5, "s_e": "input(0.0)", "x_e": "input(0.0)"})
                            et = EdgeTemplate(name="etd", operators=[eop], path=None)
                            tg = [f"{n_['path']}/{o_['name']}/{d_['name']}" for n_ in flat["nodes"] for o_ in n_["ops"] for d_ in o_["vars"] if d_["decl"] == "input"]
                            if tg:
                                d.update_template(edges=[{"source": sp[h[1] % len(sp)], "target": tg[h[1] % len(tg)], "template": et,
                                                          "variables": {"weight": 1.25, "etd/eopd/s_e": "source", "etd/eopd/x_e": sp[0]}}], in_place=True)
                                before_d = json.dumps(snap_circ(d), sort_keys=True)
                                ident = [id(e[2]) for e in d.edges]
                                os.makedirs("dump", exist_ok=True)
                                d.to_yaml(os.path.join(os.getcwd(), "dump", f"dd{i}.yaml"))
                                after_d = json.dumps(snap_circ(d), sort_keys=True)
                                if before_d != after_d or ident != [id(e[2]) for e in d.edges]:
                                    out["changed_by"].append({"op": i, "name": name, "diff": "to_yaml changed the template it was called on (an edge entry in list form)"})
                    elif name == "collect_edges_deep":
                        # three hierarchy levels, an edge with a string-valued attribute (an edge-template input bound to a variable path) on the middle level;
                        # collecting the edges of the top level any number of times must not rewrite the middle level's edge definition
                        from pyrates import EdgeTemplate
                        opx = OperatorTemplate(name="opx", equations=["v' = -v + r_in"], variables={"v": "output(0.5)", "r_in": "input(0.0)"}, path=None)
                        ntx = NodeTemplate(name="ntx", operators=[opx], path=None)
                        eopx = OperatorTemplate(name="eopx", equations=["m_x = s_x*x_x"], path=None, variables={"m_x": "output(0.0)", "s_x": "input(0.0)", "x_x": "input(0.0)"})
                        etx = EdgeTemplate(name="etx", operators=[eopx], path=None)
                        low = CircuitTemplate(name="low", nodes={"a": ntx, "b": ntx}, edges=[("a/opx/v", "b/opx/r_in", None, {"weight": 2.0})], path=None)
                        mid = CircuitTemplate(name="mid", circuits={"l2": low, "l2b": low},
                                              edges=[("l2/a/opx/v", "l2b/b/opx/r_in", etx, {"weight": 1.5, "etx/eopx/s_x": "source", "etx/eopx/x_x": "l2/b/opx/v"})], path=None)
                        top = CircuitTemplate(name="top", circuits={"l1": mid}, edges=[], path=None)
                        before_m = json.dumps(snap_circ(mid), sort_keys=True)
                        e1 = top.collect_edges()
                        e2 = top.collect_edges()
                        top.get_edges("all", "all") if h[1] % 2 else None
                        if json.dumps(snap_circ(mid), sort_keys=True) != before_m:
                            out["changed_by"].append({"op": i, "name": name, "diff": "collect_edges on the top level rewrote an edge definition of a sub-circuit"})
                        elif [(x[0], x[1], {k: repr(v) for k, v in x[3].items()}) for x in e1] != [(x[0], x[1], {k: repr(v) for k, v in x[3].items()}) for x in e2]:
                            out["errors"].append({"op": i, "name": name, "what": "two calls of collect_edges returned different edges"})
                    elif name == "yaml_derive":
                        pass
                except Exception as e:
                    out["errors"].append({"op": i, "name": name, "what": "raised", "error": type(e).__name__, "msg": str(e)[:200]})
                    try:
                        from pyrates import clear_frontend_caches
                        clear_frontend_caches()
                    except Exception:
                        pass
                now = json.dumps([snap_circ(c), {k: snap_op(o) for k, o in ops.items()}], sort_keys=True)
                if now != base_snap:
                    a, b = json.loads(base_snap), json.loads(now)
                    out["changed_by"].append({"op": i, "name": name, "diff": _first_diff(a, b)})
                    base_snap = now
            # final vector field of the original template
            try:
                func, args, names, smap = c.get_run_func("final_vf", step_size=1e-3, vectorize=False, float_precision="float64", verbose=False, in_place=False, clear=True)
                n = len(np.asarray(args[1]))
                res = []
                for pt in case["points"]:
                    y = np.zeros(n)
                    for p, idx in smap.items():
                        y[idx] = float(F(pt[p]))
                    a2 = list(args)
                    a2[2] = np.zeros(n)
                    dy = np.array(func(0, y, *a2[2:]), dtype=float)
                    res.append({p: C.f2s(dy[idx]) for p, idx in smap.items()})
                out["dy"] = res
                out["layout"] = {p: idx for p, idx in smap.items()}
                out["args"] = {nm: [C.f2s(x) for x in np.asarray(args[i]).reshape(-1)] for i, nm in enumerate(names) if i >= 3}
                y0 = np.array(args[1], dtype=float)
                out["y0"] = {p: C.f2s(y0[idx]) for p, idx in smap.items()}       # the declared initial state, whatever was simulated on copies before
                out["n"] = int(n)
            except Exception as e:
                out["final_error"] = {"error": type(e).__name__, "msg": str(e)[:300]}
    return out


def _first_diff(a, b, path=""):
    if type(a) != type(b):
        return {"at": path, "before": str(a)[:120], "after": str(b)[:120]}
    if isinstance(a, dict):
        for k in sorted(set(a) | set(b)):
            if k not in a or k not in b:
                return {"at": f"{path}/{k}", "before": str(a.get(k))[:120], "after": str(b.get(k))[:120]}
            d = _first_diff(a[k], b[k], f"{path}/{k}")
            if d:
                return d
        return None
    if isinstance(a, list):
        if len(a) != len(b):
            return {"at": path, "before_len": len(a), "after_len": len(b)}
        for i, (x, y) in enumerate(zip(a, b)):
            d = _first_diff(x, y, f"{path}[{i}]")
            if d:
                return d
        return None
    return None if a == b else {"at": path, "before": str(a)[:120], "after": str(b)[:120]}


def gen_case(rng, tier):
    for _ in range(60):
        mdl = G.gen_model(rng, max_nodes=4, min_nodes=1, depth=rng.choice([0, 0, 1, 2]), hostile=rng.random() < 0.3, linear=True)
        flat = M.flatten(mdl)
        sp = M.state_paths(flat)
        if len(set(sp)) != len(sp):
            continue
        hist = []
        for _k in range(rng.randint(1, 5)):
            name = rng.choice(OPS[:-1])
            hist.append([name, rng.randint(0, 5) if name not in ("run",) else rng.choice([False, False, True])] + ([rng.random() < 0.6] if name == "run" else []))     # run: [vectorize, clear]
        pts = [{p: C.q2s(F(rng.randint(-3, 3), rng.choice([1, 2]))) for p in sp} for _ in range(2)]
        case = {"mdl": mdl, "history": hist, "points": pts, "pis": [{}, {}], "interp": {}}
        o = N.oracle_case(case)
        if "error" in o or o["bits"] > 46:
            continue
        return case
    raise C.HarnessError("generator could not produce an admissible case")


def kf_state_bookkeeping(case, im, item):
    """get_run_func/get_jacobian_func/run(in_place=False) store the copy's backend state on the original; a later compile with the other
    vectorization setting fails when it imposes that state (reshape error)"""
    return item.get("error") in ("ValueError", "KeyError", "IndexError", "TypeError") and \
        any(h[0] in ("run", "get_run_func", "get_run_func_vec", "get_jacobian_func") for h in case["history"][:item["op"]] if True) \
        and item.get("name") in ("run", "get_run_func", "get_run_func_vec", "get_jacobian_func", "final")


def kf_c04_dot(case, im, item):
    """a vectorized run inside a structural region of one of C04's known findings (decided on the case's model, not on the symptom alone)"""
    if not (item.get("error") == "ValueError" and "setting an array element with a sequence" in item.get("msg", "")):
        return False
    from . import c04
    return any(pred({"mdl": case["mdl"]}, "vec", {"error": item.get("error"), "msg": item.get("msg", "")}, None) for pred, _ in c04.KNOWN.values())


KNOWN = {"C14-inherits-C04-regions": (kf_c04_dot, "a vectorized run inside the structural region of a C04 known finding raises; the template itself is unchanged")}


def check(tier, seed, replay=None):
    rep = C.Report(PID, tier, seed)
    rng = random.Random(seed)
    proof_ok, detail = C.prepare_lean(rep)
    rep.cov["rule"] = ("random templates (flat and hierarchical up to depth 2, shared operator/node template objects, per-node overrides) and sequences of 1-5 operations drawn from: "
                       + ", ".join(OPS[:-1]) + ".  After every operation a structural snapshot (equations, variable definitions, per-node values, edges and their attributes, all levels, "
                       "all shared operators) is compared with the one before; afterwards the template's vector field is compared with the Lean model/oracle of the original MDL and "
                       "repeated run(in_place=False) results are compared with each other.  distinct = distinct (model, history); non-trivial = history of >= 2 operations")
    if replay:
        cases = [json.load(open(replay))["case"]]
    else:
        cases = [json.load(open(f))["case"] for f in sorted(glob.glob(os.path.join(C.VERIF, "corpus", PID, "*.json")))]
        cases += [gen_case(rng, tier) for _ in range(160 if tier == "quick" else 2500)]
    orcs = [N.oracle_case(c) for c in cases]
    impl = C.run_forked(impl_history, cases, timeout=300)
    drv = C.Driver()
    bad = []
    active_kf = {f["id"] for f in C.load_known_findings() if f.get("property") == PID and f.get("status") == "known"}
    opcount = {}
    for case, im, orc in zip(cases, impl, orcs):
        if "crash" in im:
            raise C.HarnessError("harness child crashed: " + str(im)[:800])
        for h in case["history"]:
            opcount[h[0]] = opcount.get(h[0], 0) + 1
        rep.count("history", json.dumps(case, sort_keys=True), nontrivial=len(case["history"]) >= 2)
        mres = [drv.ask(r)["results"][0] for r in N.model_request(case, orc["flat"])]
        if [m.get("dy") for m in mres] != orc["dy"]:
            raise C.HarnessError("Lean model and oracle disagree: " + json.dumps(case)[:400])
        probs = []
        for ch in im["changed_by"]:
            probs.append(("template-changed", ch))
        for er in im["errors"]:
            probs.append(("operation-raised" if er.get("what") == "raised" else "repeated-run-differs", er))
        if "final_error" in im:
            probs.append(("operation-raised", dict(im["final_error"], op=len(case["history"]), name="final")))
        elif im.get("dy") is not None:
            dev = [d for d in c01.compare(case, im, orc) if d[0] in ("dy", "layout-missing", "layout-not-bijective", "arg-value", "initial-value")]
            for d in dev:
                probs.append(("vector-field-changed", {"deviation": d}))
        unexplained = []
        for kind, item in probs:
            kf = [k for k in KNOWN if k in active_kf and kind == "operation-raised" and KNOWN[k][0](case, im, item)]
            if kf:
                rep.known_finding(f"{kf[0]}: {KNOWN[kf[0]][1]}")
                rep.cov["streams"]["known_finding_cases"] = rep.cov["streams"].get("known_finding_cases", 0) + 1
            else:
                unexplained.append((kind, item))
        if unexplained:
            bad.append((case, im, unexplained))
        else:
            rep.validated()
    drv.close()
    rep.cov["strata"].update({"op:" + k: v for k, v in opcount.items()})
    rep.sample({"history": cases[-1]["history"], "circuit": cases[-1]["mdl"]["circuit"]})
    rep.cov["streams"]["impl_vs_spec_disagreements"] = len(bad)
    if bad:
        case, im, un = min(bad, key=lambda x: len(json.dumps(x[0]["mdl"])) + 100 * len(x[0]["history"]))
        rep.violation(f"a read-only / copy-making operation changed the template or its behaviour ({un[0][0]}: {un[0][1].get('name', '')})",
                      {"case": case, "problems": un[:4]})
    elif not proof_ok:
        why = {"proof_ok": proof_ok, "build_log_tail": detail["build_log_tail"], "forbidden": detail["forbidden"],
               "audit_failures": (detail["audit"] or {}).get("failures"), "broken": "theorems of PyRatesModel.Props.C14 (build/audit)"}
        rep.violation("C14 is no longer shown to hold: " + why["broken"], why, no_input=True, name="unproved")
    return rep.finish()
