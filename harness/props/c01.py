"""C01 — the generated vector field equals the model the user wrote.

Proof: lean/PyRatesModel/Props/C01.lean (+ C01Mech.lean): the executable reference semantics `Net.solve` returns only assignments
that satisfy the relational specification `IsSolution` (every state derivative is its own equation, every algebraic variable its
defining expression, every input variable the sum of all incoming connections or its default), plus mechanism lemmas.
Correspondence: random + stratified models (MDL) are compiled by the real get_run_func(vectorize=False); layout, argument values,
initial state and dy at integer/dyadic points (with parameter variations) are compared exactly with the compiled Lean model and
with an independent Python oracle of the specification."""
import random, json, os, glob
from fractions import Fraction as F
from .. import common as C
from .. import mdl as M, gen_net as G, netcheck as N

PID = "C01"


def gen_case(rng, tier):
    for _ in range(50):
        use_funcs = rng.random() < 0.3
        interp = {k: v for k, v in N.STANDINS.items() if k in ("sigmoid", "absv")} if use_funcs else {}
        mdl = G.gen_model(rng, funcs=sorted(interp) if use_funcs else None)
        flat = M.flatten(mdl)
        sp = M.state_paths(flat)
        if len(set(sp)) != len(sp):
            continue
        if rng.random() < 0.3:
            # values overridden after construction through CircuitTemplate.update_var on single nodes
            cand = sorted(M.const_paths(flat)) + sp
            mdl["post_values"] = {p: C.q2s(F(rng.randint(-5, 5), rng.choice([1, 2]))) for p in rng.sample(cand, min(len(cand), rng.randint(1, 2)))}
            flat = M.flatten(mdl)
        pts = [{p: C.q2s(F(rng.randint(-3, 3), rng.choice([1, 1, 2]))) for p in sp} for _ in range(3)]
        cps = M.const_paths(flat)
        pis = [{}, {}, {}]
        if cps and rng.random() < 0.6:
            for k in rng.sample(sorted(cps), min(len(cps), rng.randint(1, 3))):
                pis[2][k] = C.q2s(F(rng.randint(-4, 4), rng.choice([1, 2])))
        style = {"space": rng.random() < 0.7, "pow": rng.choice(["^", "**"]), "ddt": rng.random() < 0.3, "parens": rng.random() < 0.15,
                 "space_mul": rng.random() < 0.3, "int_literals": rng.random() < 0.3}
        case = {"mdl": mdl, "points": pts, "pis": pis, "style": style, "in_place": rng.random() < 0.5, "interp": interp}
        o = N.oracle_case(case)
        if "error" in o or o["bits"] > 46:
            continue
        return case
    raise C.HarnessError("generator could not produce an admissible case")


def compare(case, im, orc):
    """-> list of (kind, detail) where the implementation deviates from the specification"""
    bad = []
    if "error" in im:
        return [("raises", im)]
    flat = orc["flat"]
    sp = M.state_paths(flat)
    # layout: every declared state variable has its own distinct position, positions cover [0, n)
    lay = im["layout"]
    missing = [p for p in sp if p not in lay]
    if missing:
        bad.append(("layout-missing", missing))
    idxs = [lay[p] for p in sp if p in lay]
    if any(not isinstance(i, int) for i in idxs) or len(set(map(str, idxs))) != len(idxs) or sorted(i for i in idxs if isinstance(i, int)) != list(range(im["n"])):
        bad.append(("layout-not-bijective", {"layout": lay, "n": im["n"]}))
    # returned argument values: declared (or overridden) values of the variables they are named after
    decl = {}
    for n in flat["nodes"]:
        for o in n["ops"]:
            for d in o["vars"]:
                decl[f"{n['path']}/{o['name']}/{d['name']}"] = (M.kind_of(o, d), d["value"])
    for nm, v in im["args"].items():
        if nm in decl and decl[nm][0] in ("const", "input"):
            if any(x != C.q2s(F(decl[nm][1])) for x in v):
                bad.append(("arg-value", {"name": nm, "got": v, "declared": decl[nm][1]}))
    for p, v in im["y0"].items():
        if p in decl and v != C.q2s(F(decl[p][1])):
            bad.append(("initial-value", {"name": p, "got": v, "declared": decl[p][1]}))
    for k, (got, want) in enumerate(zip(im["dy"], orc["dy"])):
        if "error" in got:
            bad.append(("raises-at-call", got))
            continue
        diff = {p: (got.get(p), want[p]) for p in want if got.get(p) != want[p]}
        if diff:
            bad.append(("dy", {"point": k, "diff": diff}))
    return bad


def check(tier, seed, replay=None):
    rep = C.Report(PID, tier, seed)
    rng = random.Random(seed)
    proof_ok, detail = C.prepare_lean(rep)
    rep.cov["rule"] = ("random models in MDL (1-4 operators with 1-2 state variables, optional algebraic/output variables, 0-3 inputs, constants; 1-3 node templates with in-node "
                       "operator chaining; 1-5 nodes; hierarchy depth 0-2; edges at every level incl. parallel edges, several variables of one node into one target, self loops; "
                       "hostile names x_v1, weight, r_in0, in_edge_0, source, index ...; shuffled declaration order; equation strings rendered in random styles) compiled with "
                       "get_run_func(vectorize=False, float64); observables: state layout, argument values, initial state, dy at 3 exact points incl. one with varied parameters. "
                       "V stream: run(vectorize=True) trajectories of C04's model strata (groups, all-to-all, permutations, twin operators, edge templates, bound edge inputs) == Lean trajectory. "
                       "distinct = distinct (model, points); non-trivial = at least one edge or in-node feeder")
    rep.assumptions += ["exact sample space: dyadic values, polynomial equations of degree <= 3, stand-in integer polynomials for sympy-unknown functions; cases needing > 46 bits are not generated",
                        "models with cyclic algebraic dependencies are not generated (outside well-formed models)"]
    if replay:
        cases = [json.load(open(replay))["case"]]
    else:
        cases = [json.load(open(f))["case"] for f in sorted(glob.glob(os.path.join(C.VERIF, "corpus", PID, "*.json")))]
        cases += [gen_case(rng, tier) for _ in range(150 if tier == "quick" else 2500)]
    orcs = [N.oracle_case(c) for c in cases]
    impl = C.run_forked(N.impl_vector_field, cases, timeout=180)
    drv = C.Driver()
    corr_bad, spec_bad = [], []
    feats = {}
    for case, im, orc in zip(cases, impl, orcs):
        if "crash" in im:
            raise C.HarnessError("harness child crashed: " + str(im)[:800])
        f = G.features(case["mdl"])
        for k, v in f.items():
            if v is True:
                feats[k] = feats.get(k, 0) + 1
        rep.count("net-e2e", json.dumps(case, sort_keys=True), nontrivial=(f["n_edges"] > 0 or f["feeders"]))
        # Lean model
        mres = [drv.ask(r)["results"][0] for r in N.model_request(case, orc["flat"])]
        model_dy = [m.get("dy") for m in mres]
        if any(m is None for m in model_dy):
            raise C.HarnessError("Lean model could not resolve an admissible case: " + json.dumps(case)[:400])
        if model_dy != orc["dy"]:
            raise C.HarnessError("Lean model and Python oracle disagree (both are specification-level): " + json.dumps(case)[:600])
        dev = compare(case, im, orc)
        if not dev:
            rep.validated()
        else:
            spec_bad.append((case, im, dev))
    # V stream: the default compilation mode is vectorize=True - the same specification must be met by the vectorized network.  Models and comparison are
    # those of C04 (all strata); regions of C04's known findings are reported as such, not as new violations.
    vbad = []
    if not replay:
        from . import c04
        vcases = [c04.gen_case(rng, tier) for _ in range(45 if tier == "quick" else 600)]
        for vc in vcases:
            vc["run"]["vectorize"] = True
        vorcs = [N.oracle_traj(vc) for vc in vcases]
        vimpl = C.run_forked(N.impl_run, vcases, timeout=240)
        kf_on = any(f.get("id") == "C01-inherits-C04-regions" and f.get("status") == "known" for f in C.load_known_findings())
        for vc, vi, vo in zip(vcases, vimpl, vorcs):
            if "crash" in vi:
                raise C.HarnessError("harness child crashed (V stream): " + str(vi)[:600])
            rep.count("V-vectorized-run-" + vc.get("stratum", "random"), json.dumps(vc, sort_keys=True), nontrivial=True)
            mr = drv.ask(N.model_traj_request(vc, vo["flat"]))
            if mr.get("rows") != vo["rows"]:
                raise C.HarnessError("Lean model and Python oracle disagree on a trajectory: " + json.dumps(vc)[:400])
            vdev = c04.deviations(vc, vi, vo)
            if not vdev:
                rep.validated()
            elif kf_on and any(pred(vc, "vec", vi, vdev) for pred, _ in c04.KNOWN.values()):
                rep.known_finding("C01-inherits-C04-regions: vectorize=True inside a region of a C04 known finding (stale algebraic value across merged groups / dot-edge ValueError)")
            else:
                vbad.append((vc, vi, vdev))
    drv.close()
    rep.cov["strata"].update({"feature:" + k: v for k, v in feats.items()})
    rep.sample({"mdl": cases[-1]["mdl"], "points": cases[-1]["points"][:1], "impl_dy": impl[-1].get("dy", [None])[:1]})
    rep.cov["streams"].update({"impl_vs_spec_disagreements": len(spec_bad)})
    active_kf = {f["id"]: f for f in C.load_known_findings() if f.get("property") == PID and f.get("status") == "known"}
    if spec_bad:
        case, im, dev = min(spec_bad, key=lambda x: len(json.dumps(x[0]["mdl"])))
        rep.violation(f"generated vector field / layout / arguments deviate from the model's equations: {dev[0][0]}",
                      {"case": case, "impl": im, "deviations": dev[:5], "expected_dy": N.oracle_case(case)["dy"]})
    if vbad:
        vc, vi, vdev = min(vbad, key=lambda x: len(json.dumps(x[0]["mdl"])))
        rep.violation(f"vectorize=True: the compiled network does not follow the model's equations ({vdev[0][0]})", {"case": vc, "impl": vi, "deviations": vdev[:4]})
    if not spec_bad and not vbad and not proof_ok:
        why = {"proof_ok": proof_ok, "build_log_tail": detail["build_log_tail"], "forbidden": detail["forbidden"],
               "audit_failures": (detail["audit"] or {}).get("failures"), "broken": "theorems of PyRatesModel.Props.C01 (build/audit)"}
        rep.violation("C01 is no longer shown to hold: " + why["broken"], why, no_input=True, name="unproved")
    return rep.finish()
