"""C02 — all backends compute the same function for the same model.

Proof: lean/PyRatesModel/Props/C02.lean - the generated Fortran interpolation function equals the clamped piecewise-linear interpolant (np.interp /
jnp.interp) for every increasing grid, sample vector and query, given the base point read from the current source (regenerated table); index variables of
1-based backends are shifted exactly once however often they are rendered, given a consistent bookkeeping key (regenerated table); the torch `interp`
definition is pinned by a regenerated table.
Correspondence (numpy, torch, jax, fortran; float64):
  V  vector fields of random polynomial networks (hierarchy, in-node feeders, parallel edges, vectorized or not) evaluated at dyadic points through each
     backend's own returned layout and arguments: every backend == the Lean value exactly; returned arguments equal by frontend name.
  T  trajectories run(euler|heun) with one or several extrinsic inputs (they share the step counter), delayed edges (roll buffers) and sampling > step:
     every backend == the Lean trajectory exactly.
  F  functions: interp of an extrinsic input under the adaptive convention at queries before/at/between/after the grid (exact, vs the Lean interpolant),
     sigmoid / tanh / exp / sin / cos / absv / sqrt / maxi / mini terms (1e-12 across backends and vs float evaluation).
  S  a float64 jax model evaluated again after a float32 jax model was compiled in the same process."""
import random, json, os, glob, warnings, math, copy
from fractions import Fraction as F
import numpy as np
from .. import common as C
from .. import mdl as M, gen_net as G, netcheck as N

PID = "C02"
BACKENDS = ["default", "torch", "jax", "fortran"]


def _to_backend(be, a):
    if be == "torch":
        import torch
        return torch.as_tensor(np.asarray(a, dtype=float), dtype=torch.float64)
    return np.asarray(a, dtype=float)


def _call(be, func, args, t, y):
    """-> numpy vector dy"""
    if be == "fortran":
        dy = np.zeros(len(y))
        r = func(t, np.asarray(y, dtype=float), dy, *args[3:])
        return np.asarray(r if r is not None else dy, dtype=float)
    if be == "torch":
        import torch
        r = func(t, torch.as_tensor(y, dtype=torch.float64), *args[2:])
        return np.asarray(r.detach().cpu().numpy(), dtype=float)
    r = func(t, np.asarray(y, dtype=float), *args[2:])
    return np.asarray(r, dtype=float)


def impl_field(case):
    """vector field of one model on several backends at the case's points"""
    os.environ["PATH"] = "/venv/bin:" + os.environ.get("PATH", "")
    from pyrates import clear_frontend_caches
    out = {}
    with M.Scratch():
        with warnings.catch_warnings():
            warnings.simplefilter("ignore")
            for be in case["backends"]:
                try:
                    c, _, _ = M.build_pyrates(case["mdl"], style=case.get("style"))
                    kw = dict(step_size=float(F(case.get("dt", "1/8"))), solver=case.get("solver", "euler"), vectorize=case["vectorize"] and be != "fortran", float_precision="float64", verbose=False,
                              clear=False, in_place=True, backend=be, file_name=f"m_{be}")
                    if case.get("inputs"):
                        kw["inputs"] = {k: np.array([float(F(x)) for x in v]) for k, v in case["inputs"].items()}
                    func, args, names, smap = c.get_run_func("vf", **kw)
                    n = len(np.asarray(args[1]))
                    pos = {p: int(i) for p, i in smap.items()}
                    av = {}
                    for nm, a in zip(names, args):
                        if nm in ("t", "y", "dy", "hist") or nm.endswith("/t"):
                            continue
                        try:
                            arr = np.asarray(a.detach().cpu().numpy() if hasattr(a, "detach") else a, dtype=float).reshape(-1)
                            av[nm] = [C.f2s(x) for x in arr[:64]]
                        except Exception:
                            av[nm] = "unreadable"
                    res = []
                    for pt in case["points"]:
                        y = np.zeros(n)
                        for p, i in pos.items():
                            y[i] = float(F(pt["y"][p]))
                        dy = _call(be, func, args, float(F(pt.get("t", "0"))), y)
                        res.append({p: (C.f2s(dy[i]) if case.get("exact", True) else float(dy[i])) for p, i in pos.items()})
                    out[be] = {"dy": res, "args": av, "layout": pos}
                except Exception as e:
                    out[be] = {"error": type(e).__name__, "msg": str(e)[:300]}
                try:
                    clear_frontend_caches()
                except Exception:
                    pass
    return out


def impl_traj(case):
    os.environ["PATH"] = "/venv/bin:" + os.environ.get("PATH", "")
    from pyrates import clear_frontend_caches
    out = {}
    for be in case["backends"]:
        cc = copy.deepcopy(case["run_case"])
        cc["run"]["backend"] = be
        if be == "fortran":
            cc["run"]["vectorize"] = False       # the fortran backend refuses vectorized networks by design (C20)
        out[be] = N.impl_run(cc)
        if case.get("followup"):
            c2 = copy.deepcopy(case["followup"])
            c2["run"]["backend"] = be
            c2["run"]["vectorize"] = cc["run"]["vectorize"]
            out[be]["followup"] = N.impl_run(c2)
        try:
            clear_frontend_caches()
        except Exception:
            pass
    return out


def gen_field_case(rng, tier, fortran):
    for _ in range(100):
        mdl = G.gen_model(rng, max_nodes=3, depth=rng.choice([0, 0, 1]), hostile=False, overrides=rng.random() < 0.4, linear=rng.random() < 0.4, clones=rng.random() < 0.3)
        flat = M.flatten(mdl)
        sp = M.state_paths(flat)
        if not sp or len(set(sp)) != len(sp) or len(sp) > 8:
            continue
        vec = False       # function-level comparison uses the scalar layout; vectorized compilation is compared through run() (stratum T)
        pts = [{"t": "0", "y": {p: C.q2s(F(rng.randint(-3, 3), rng.choice([1, 2]))) for p in sp}} for _ in range(2)]
        o = N.oracle_case({"mdl": mdl, "points": [p["y"] for p in pts], "pis": [{}, {}], "interp": {}})
        if "error" in o or o["bits"] > 40:
            continue
        return {"kind": "field", "mdl": mdl, "points": pts, "vectorize": vec, "state_paths": sp, "backends": BACKENDS if fortran else BACKENDS[:3]}
    raise C.HarnessError("C02 generator failed (field)")


def gen_traj_case(rng, tier, fortran, heun_inputs=False):
    from . import c09
    for _ in range(400):
        mdl = c09.gen_simple(rng)
        flat = M.flatten(mdl)
        sp = M.state_paths(flat)
        dt = F(1, 4)
        steps = 3 if heun_inputs else rng.choice([4, 6])
        es = mdl["circuit"]["edges"]
        pairs = {}
        for e in es:
            pairs[(e["src"], e["tgt"])] = pairs.get((e["src"], e["tgt"]), 0) + 1
        delayed = False
        if rng.random() < 0.5 and not heun_inputs:
            used = set()
            for e in es:
                opkey = e["src"].rsplit("/", 1)[0]
                if pairs[(e["src"], e["tgt"])] == 1 and opkey not in used and rng.random() < 0.6:
                    e["delay"] = C.q2s(dt * rng.choice([2, 3]))
                    used.add(opkey)
                    delayed = True
        # extrinsic inputs on one or several input variables that receive no edge
        targets = [f"{n['path']}/{o['name']}/r_in" for n in flat["nodes"] for o in n["ops"] if not any(e["tgt"] == f"{n['path']}/{o['name']}/r_in" for e in es)]
        ext = []
        if heun_inputs and not targets:
            continue
        for tg in rng.sample(targets, min(len(targets), rng.choice([1, 2]) if heun_inputs else rng.choice([0, 1, 2, 3]))):
            ext.append({"tgt": tg, "samples": [C.q2s(F(rng.randint(-4, 4), 2)) for _ in range(steps)]})
        fanin = {}
        for e in es:
            fanin[e["tgt"]] = fanin.get(e["tgt"], 0) + 1
        vec = rng.random() < 0.5 and all(v <= 1 for v in fanin.values())      # several edges into one target of a merged group: C04's known loud finding
        case = {"mdl": mdl, "run": {"T": C.q2s(dt * steps), "dt": C.q2s(dt), "solver": ("heun" if heun_inputs else rng.choice(["euler", "heun"])) if not delayed else "euler", "vectorize": vec,
                                    "outputs": {f"v{i}": p for i, p in enumerate(sp)}, "inputs": {x["tgt"]: x["samples"] for x in ext}},
                "ext_inputs": ext, "style": {}, "in_place": False}
        o = N.oracle_traj(case)
        if "error" in o or o["bits"] > 44:
            continue
        bes = [b for b in (BACKENDS if fortran else BACKENDS[:3]) if not (delayed and b == "jax")]     # jax refuses ring buffers by design (C20)
        out = {"kind": "traj", "run_case": case, "backends": bes, "delayed": delayed, "n_inputs": len(ext)}
        if rng.random() < 0.5:
            # the same network again in the same process with other parameter values, initial values and input samples (same equations, same step layout)
            c2 = copy.deepcopy(case)
            for nt in c2["mdl"]["node_templates"].values():
                for o, ov in (nt.get("overrides") or {}).items():
                    for k in ov:
                        ov[k] = C.q2s(F(ov[k]) + F(rng.choice([-3, -1, 1, 2, 3]), 2))
            for x in c2["ext_inputs"]:
                x["samples"] = [C.q2s(F(rng.randint(-4, 4), 2)) for _ in x["samples"]]
            c2["run"]["inputs"] = {x["tgt"]: x["samples"] for x in c2["ext_inputs"]}
            o2 = N.oracle_traj(c2)
            if "error" not in o2 and o2["bits"] <= 44:
                out["followup"] = c2
        return out
    raise C.HarnessError("C02 generator failed (traj)")


def gen_traj_case2(rng, tier, fortran):
    """richer polynomial networks (several operators per node, feeders, hierarchy) through run(), vectorized or not"""
    for _ in range(300):
        mdl = G.gen_model(rng, max_nodes=3, depth=rng.choice([0, 0, 1]), hostile=False, overrides=rng.random() < 0.4, linear=True, clones=rng.random() < 0.4)
        flat = M.flatten(mdl)
        sp = M.state_paths(flat)
        if not sp or len(set(sp)) != len(sp) or len(sp) > 8:
            continue
        vec = rng.random() < 0.6
        if vec:
            if mdl["circuit"].get("circuits"):
                continue
            seen, es, tg = set(), [], set()
            for e in mdl["circuit"].get("edges", []):
                if e["src"] in sp and (e["src"], e["tgt"]) not in seen and e["tgt"] not in tg:
                    seen.add((e["src"], e["tgt"])); tg.add(e["tgt"])
                    es.append(e)
            mdl["circuit"]["edges"] = es
        dt = F(1, 8)
        steps = 3
        case = {"mdl": mdl, "run": {"T": C.q2s(dt * steps), "dt": C.q2s(dt), "solver": rng.choice(["euler", "heun"]), "vectorize": vec, "outputs": {f"v{i}": p for i, p in enumerate(sp)}, "inputs": {}},
                "ext_inputs": [], "style": {}, "in_place": False}
        o = N.oracle_traj(case)
        if "error" in o or o["bits"] > 44:
            continue
        return {"kind": "traj", "run_case": case, "backends": (BACKENDS if fortran else BACKENDS[:3]), "delayed": False, "n_inputs": 0, "rich": True}
    raise C.HarnessError("C02 generator failed (traj2)")


# ------------------------------------------------------------------ function streams
FUNC_EQS = [("sigmoid(a*x) - tanh(x)", lambda x, a: 1 / (1 + math.exp(-a * x)) - math.tanh(x)), ("exp(-x*x) + sin(a*x)", lambda x, a: math.exp(-x * x) + math.sin(a * x)),
            ("cos(x) * absv(x - a)", lambda x, a: math.cos(x) * abs(x - a)), ("sqrt(x*x + 1.0) - maxi(x, a)", lambda x, a: math.sqrt(x * x + 1) - max(x, a)),
            ("mini(x, a) + sigmoid(x)", lambda x, a: min(x, a) + 1 / (1 + math.exp(-x))), ("tanh(a) * x^2 / (1.0 + x^2)", lambda x, a: math.tanh(a) * x * x / (1 + x * x))]


def func_probe(fortran):
    """one-equation operators with library functions on all backends + interp of an input under the adaptive convention"""
    os.environ["PATH"] = "/venv/bin:" + os.environ.get("PATH", "")
    from pyrates import OperatorTemplate, NodeTemplate, CircuitTemplate, clear_frontend_caches
    bes = BACKENDS if fortran else BACKENDS[:3]
    bad, done = [], 0
    with M.Scratch():
        with warnings.catch_warnings():
            warnings.simplefilter("ignore")
            for k, (eq, ref) in enumerate(FUNC_EQS):
                vals = {}
                for be in bes:
                    try:
                        op = OperatorTemplate(name="fo", equations=[f"x' = {eq}"], variables={"x": "output(0.5)", "a": 1.5}, path=None)
                        c = CircuitTemplate(name="net", nodes={"p": NodeTemplate(name="n", operators=[op], path=None)}, edges=[], path=None)
                        func, args, names, smap = c.get_run_func("vf", step_size=1e-3, solver="euler", vectorize=False, float_precision="float64", verbose=False, clear=False,
                                                                 in_place=False, backend=be, file_name=f"f{k}_{be}")
                        vals[be] = [float(_call(be, func, args, 0.0, np.array([xv]))[0]) for xv in (-1.25, 0.0, 0.75, 2.5)]
                    except Exception as e:
                        vals[be] = f"raise {type(e).__name__}: {str(e)[:120]}"
                    clear_frontend_caches()
                exp = [ref(xv, 1.5) for xv in (-1.25, 0.0, 0.75, 2.5)]
                done += 1
                for be in bes:
                    if isinstance(vals[be], str) or any(abs(g - e_) > 1e-12 * max(1.0, abs(e_)) for g, e_ in zip(vals[be], exp)):
                        bad.append({"equation": f"x' = {eq}", "backend": be, "got": vals[be], "expected": exp})
                        break
            # interpolation of an extrinsic input (adaptive convention: inp = interp(t, time, samples))
            samples = [0.0, 1.0, 4.0, 2.0, -1.0, 3.0, 0.5, 2.5, 1.5]     # 9 samples: the grid linspace(0, 9*dt, 9) is dyadic
            queries = [-0.5, 0.0, 0.0625, 0.140625, 0.28125, 0.3125, 0.5, 0.8125, 0.984375, 1.0, 1.125, 1.5]
            got = {}
            for be in bes:
                try:
                    op = OperatorTemplate(name="io", equations=["x' = -a*x + inp"], variables={"x": "output(1.0)", "inp": "input(0.0)", "a": 2.0}, path=None)
                    c = CircuitTemplate(name="net", nodes={"p": NodeTemplate(name="n", operators=[op], path=None)}, edges=[], path=None)
                    func, args, names, smap = c.get_run_func("vf", step_size=0.125, solver="scipy", inputs={"p/io/inp": np.array(samples)}, vectorize=False, float_precision="float64",
                                                             verbose=False, clear=False, in_place=False, backend=be, file_name=f"i_{be}")
                    tname = [nm for nm in names if nm.endswith("/time")]
                    tgrid = [float(x) for x in np.asarray(args[list(names).index(tname[0])].detach().cpu().numpy() if hasattr(args[list(names).index(tname[0])], "detach") else args[list(names).index(tname[0])]).reshape(-1)] if tname else None
                    got[be] = {"dy": [C.f2s(_call(be, func, args, q, np.array([1.0]))[0]) for q in queries], "grid": tgrid}
                except Exception as e:
                    got[be] = {"error": f"{type(e).__name__}: {str(e)[:160]}"}
                clear_frontend_caches()
            done += 1
    return {"done": done, "bad": bad, "interp": got, "samples": samples, "queries": queries}


def x64_probe(_):
    """a float64 jax model must stay float64 after a float32 jax model has been compiled in the same process"""
    from pyrates import OperatorTemplate, NodeTemplate, CircuitTemplate, clear_frontend_caches
    with M.Scratch():
        with warnings.catch_warnings():
            warnings.simplefilter("ignore")
            try:
                def mk(name):
                    op = OperatorTemplate(name=name, equations=["x' = -a*x + b/3.0"], variables={"x": "output(1.0)", "a": 0.1, "b": 1.0}, path=None)
                    return CircuitTemplate(name="net" + name, nodes={"p": NodeTemplate(name="n" + name, operators=[op], path=None)}, edges=[], path=None)
                f64, a64, n64, _ = mk("o64").get_run_func("vf64", step_size=1e-3, solver="euler", vectorize=False, float_precision="float64", verbose=False, clear=False, in_place=False,
                                                          backend="jax", file_name="x64a")
                before = float(np.asarray(f64(0.0, np.array([1.0 / 3.0]), *a64[2:]))[0])
                f32, a32, n32, _ = mk("o32").get_run_func("vf32", step_size=1e-3, solver="euler", vectorize=False, float_precision="float32", verbose=False, clear=False, in_place=False,
                                                          backend="jax", file_name="x64b")
                _ = f32(0.0, np.array([1.0 / 3.0], dtype=np.float32), *a32[2:])
                after = float(np.asarray(f64(0.0, np.array([1.0 / 3.0]), *a64[2:]))[0])
                exp = -0.1 * (1.0 / 3.0) + 1.0 / 3.0
                return {"before": before, "after": after, "expected": exp}
            except Exception as e:
                return {"error": f"{type(e).__name__}: {str(e)[:200]}"}


def check(tier, seed, replay=None):
    rep = C.Report(PID, tier, seed)
    rng = random.Random(seed)
    proof_ok, detail = C.prepare_lean(rep)
    rep.cov["rule"] = __doc__.split("Correspondence")[1][:1500]
    if replay:
        cases = [json.load(open(replay))["case"]]
    else:
        cases = [json.load(open(f))["case"] for f in sorted(glob.glob(os.path.join(C.VERIF, "corpus", PID, "*.json")))]
        nF, nFf, nT, nTf = (24, 6, 16, 5) if tier == "quick" else (300, 60, 200, 50)
        cases += [gen_field_case(rng, tier, False) for _ in range(nF)] + [gen_field_case(rng, tier, True) for _ in range(nFf)]
        cases += [gen_traj_case(rng, tier, False) for _ in range(nT)] + [gen_traj_case(rng, tier, True) for _ in range(nTf)]
        # Heun with time-dependent inputs: both evaluations of a step see the same input sample on every backend
        cases += [gen_traj_case(rng, tier, False, heun_inputs=True) for _ in range(6 if tier == "quick" else 80)]
        cases += [gen_traj_case2(rng, tier, False) for _ in range(nT)] + [gen_traj_case2(rng, tier, True) for _ in range(max(2, nTf // 2))]
    impl = C.run_forked(lambda c: impl_field(c) if c["kind"] == "field" else impl_traj(c), cases, timeout=900, workers=8)
    drv = C.Driver()
    bad = []
    for case, im in zip(cases, impl):
        if "crash" in im:
            raise C.HarnessError("harness child crashed: " + str(im)[:800])
        dev = []
        if case["kind"] == "field":
            flat = M.flatten(case["mdl"])
            rep.count("V-field" + ("-vec" if case["vectorize"] else "") + ("-fortran" if "fortran" in case["backends"] else ""), json.dumps(case, sort_keys=True),
                      nontrivial=len(case["state_paths"]) >= 2)
            mo = drv.ask(dict(comp="net", fuel=60, points=[p["y"] for p in case["points"]], interp={}, **flat))["results"]
            exp = [{p: r["dy"][p] for p in case["state_paths"]} for r in mo]
            ref_args = None
            for be in case["backends"]:
                r = im[be]
                if "error" in r:
                    dev.append(("backend-raises", {"backend": be, **r}))
                    continue
                for k, (g, e_) in enumerate(zip(r["dy"], exp)):
                    if g != e_:
                        p0 = sorted(p for p in e_ if g.get(p) != e_[p])[0]
                        dev.append(("vector-field", {"backend": be, "point": case["points"][k]["y"], "variable": p0, "got": g.get(p0), "expected": e_[p0]}))
                        break
                if ref_args is None:
                    ref_args, ref_be = r["args"], be
                else:
                    common = set(ref_args) & set(r["args"])
                    diff = sorted(nm for nm in common if ref_args[nm] != r["args"][nm])
                    if diff:
                        dev.append(("returned-argument-values", {"backend": be, "vs": ref_be, "argument": diff[0], "got": r["args"][diff[0]][:6], "expected": ref_args[diff[0]][:6]}))
        else:
            rc = case["run_case"]
            rep.count("T-traj-" + ("rich-" if case.get("rich") else "") + ("vec-" if rc["run"]["vectorize"] else "") + rc["run"]["solver"] + ("-delayed" if case["delayed"] else "") + (f"-{case['n_inputs']}inputs" if case["n_inputs"] else "") +
                      ("-fortran" if "fortran" in case["backends"] else ""), json.dumps(case, sort_keys=True), nontrivial=case["n_inputs"] >= 2 or case["delayed"])
            runs = [("", rc)] + ([("followup", case["followup"])] if case.get("followup") else [])
            if case.get("followup"):
                rep.cov["streams"]["T_cases_with_followup_run"] = rep.cov["streams"].get("T_cases_with_followup_run", 0) + 1
            for tag, rc in runs:
                orc = N.oracle_traj(rc)
                mo = drv.ask(N.model_traj_request(rc, orc["flat"]))
                if mo.get("rows") != orc["rows"]:
                    raise C.HarnessError("Lean trajectory and oracle disagree: " + json.dumps(rc)[:300])
                for be in case["backends"]:
                    r = im[be]
                    if tag and "error" not in r:
                        r = r[tag]
                    if "error" in r and r["error"] == "PyRatesException" and "does not support solver" in r.get("msg", ""):
                        continue          # a documented refusal (C20), not a different function
                    if "error" in r:
                        dev.append(("backend-raises", {"backend": be, "run": tag or "first", **r}))
                        continue
                    cols = {(lb if isinstance(lb, str) else lb[0]): v for lb, v in r["cols"]}
                    for key, p in rc["run"]["outputs"].items():
                        exp = [row[p] for row in orc["rows"]]
                        g = cols.get(key)
                        if g != exp:
                            k0 = next((k for k in range(min(len(exp), len(g or []))) if g[k] != exp[k]), None)
                            dev.append(("trajectory", {"backend": be, "run": tag or "first", "variable": p, "first_wrong_sample": k0, "got": (g or [None])[k0] if k0 is not None else g,
                                                       "expected": exp[k0] if k0 is not None else exp}))
                            break
        if dev:
            bad.append((case, dev))
        else:
            rep.validated()
    drv.close()
    fp = C.run_forked(func_probe, [True], timeout=1500)[0] if not replay else {"done": 0, "bad": [], "interp": {}}
    if "crash" in fp:
        raise C.HarnessError("function probe crashed: " + str(fp)[:600])
    rep.count("F-functions", None, n=fp["done"])
    ibad = []
    drv2 = C.Driver()
    if fp.get("interp"):
        # expected: -a*x + interpSpec(grid, samples, t), with the grid the backend itself was given
        from fractions import Fraction
        for be, r in fp["interp"].items():
            if "error" in r:
                ibad.append({"backend": be, **r})
                continue
            grid = r["grid"]
            # expected: -a*x + interpolant(t) with the interpolant evaluated exactly by the Lean model on the grid the backend was given
            mo = drv2.ask({"comp": "interp", "xs": [C.q2s(C.fl2q(g)) for g in grid], "ys": [C.q2s(C.fl2q(v)) for v in fp["samples"]], "ts": [C.q2s(C.fl2q(q)) for q in fp["queries"]]})
            spec = [F(v) for v in mo["spec"]]
            if be == "fortran" and mo["fortran"] != mo["spec"]:
                ibad.append({"backend": be, "what": "the Lean model of the generated Fortran function differs from the interpolant", "fortran_model": mo["fortran"][:6], "spec": mo["spec"][:6]})
            npv = [F(float(np.interp(q, grid, fp["samples"]))) for q in fp["queries"]]
            if any(abs(a - b) > F(1, 10 ** 12) for a, b in zip(npv, spec)):
                raise C.HarnessError("Lean interpolant and np.interp disagree on the probe data")
            for k, q in enumerate(fp["queries"]):
                gotv = F(r["dy"][k])
                expv = -2 + spec[k]
                if abs(gotv - expv) > F(1, 10 ** 12):
                    ibad.append({"backend": be, "query_t": q, "got": float(gotv), "expected": float(expv), "grid": grid, "samples": fp["samples"]})
                    break
        # and the Lean interpolant agrees with np.interp on these data (model side of the tie)
    drv2.close()
    xp = C.run_forked(x64_probe, [0], timeout=600)[0] if not replay else {}
    xbad = None
    if xp:
        rep.count("S-x64-sequence", None, n=1)
        if "error" in xp:
            xbad = xp
        elif abs(xp["after"] - xp["expected"]) > 1e-15 or abs(xp["before"] - xp["expected"]) > 1e-15:
            xbad = xp
    rep.cov["streams"].update({"cases_with_deviations": len(bad), "function_failures": len(fp["bad"]), "interp_failures": len(ibad), "x64_failure": bool(xbad)})
    if os.environ.get("VERIF_DEBUG"):
        for case, dev in bad:
            print("DEBUG", case["kind"], dev[0][0], json.dumps(dev[0][1])[:300])
    if cases:
        rep.sample({"kind": cases[-1]["kind"], "backends": cases[-1]["backends"]})
    if bad:
        case, dev = min(bad, key=lambda x: len(json.dumps(x[0])))
        rep.violation(f"backend {dev[0][1].get('backend')} does not compute the model's function ({dev[0][0]})", {"case": case, "deviations": dev[:4]})
    if fp["bad"]:
        rep.violation(f"a library function differs between backends: {fp['bad'][0]['equation']} on {fp['bad'][0]['backend']}", {"functions": fp["bad"][:3]})
    if ibad:
        rep.violation(f"interp of an extrinsic input on backend {ibad[0]['backend']} is not the piecewise-linear interpolant", {"interp": ibad[:3]})
    if xbad:
        rep.violation("a float64 jax model is not evaluated in double precision after a float32 jax model was compiled", {"x64": xbad})
    if not (bad or fp["bad"] or ibad or xbad) and not proof_ok:
        why = {"proof_ok": proof_ok, "build_log_tail": detail["build_log_tail"], "forbidden": detail["forbidden"],
               "audit_failures": (detail["audit"] or {}).get("failures"), "broken": "theorems of PyRatesModel.Props.C02 (build/audit)"}
        rep.violation("C02 is no longer shown to hold: " + why["broken"], why, no_input=True, name="unproved")
    return rep.finish()
