"""C05 — the equation language means what its arithmetic says.

Proof: lean/PyRatesModel/Props/C05.lean — the reference semantics `Net.eval` of the expression AST is invariant under the rewritings the property
lists (commuting / re-associating sums and products, repeated sub-expressions, parenthesisation is not even representable in the AST), generated
labels never collide (C05_uniqueLabel_nodup for every request sequence incl. names that look generated), and the reserved-name table of the
source contains every name the equation language pre-defines.  PARTIAL: the implementation parses with sympy and prints with str(expr); neither
is modelled, so the tie of strings to ASTs is differential only.
Correspondence: random expression ASTs (depth <= 4, hostile variable names, integer/decimal/exponent literals, ^ and **, unary minus) rendered in
several random styles (spacing, redundant parentheses, commuted operands, both derivative notations) and evaluated through BOTH paths -
ComputeGraph.eval_node on the parsed expression and the generated function of a one-equation operator - against the exact value of the AST (Lean
model + oracle); a float stream for the registry functions and constants (mpmath, 1e-9); an index-helper stream on vectors and matrices."""
import random, json, os, glob, warnings, math
from fractions import Fraction as F
import numpy as np
from .. import common as C
from .. import mdl as M, netcheck as N

PID = "C05"
NAMES = ["xa", "xx", "x_v1", "x_v1_v1", "r", "rr", "r_in", "r_in0", "m_in2", "weight", "weight_in0", "in_edge_0", "index_", "a", "a1", "ab", "b", "tau", "k_", "v2"]


def gen_expr(rng, names, depth):
    r = rng.random()
    if depth <= 0 or r < 0.25:
        if rng.random() < 0.6:
            return M.var(rng.choice(names))
        return M.num(F(rng.choice([0, 1, 2, 3, 5, 10, 12]), rng.choice([1, 1, 2, 4])))
    if r < 0.5:
        return [rng.choice(["add", "sub"]), gen_expr(rng, names, depth - 1), gen_expr(rng, names, depth - 1)]
    if r < 0.75:
        return ["mul", gen_expr(rng, names, depth - 1), gen_expr(rng, names, depth - 1)]
    if r < 0.85:
        return ["neg", gen_expr(rng, names, depth - 1)]
    return ["pow", gen_expr(rng, names, depth - 2), rng.choice([2, 2, 3])]


def commute(rng, e):
    """a semantically equal rewriting: commute operands of + and *, re-associate"""
    t = e[0]
    if t in ("num", "var"):
        return e
    if t in ("add", "mul"):
        a, b = commute(rng, e[1]), commute(rng, e[2])
        if rng.random() < 0.5:
            a, b = b, a
        if t == "add" and b[0] == "add" and rng.random() < 0.5:          # a + (b1 + b2) -> (a + b1) + b2
            return ["add", ["add", a, b[1]], b[2]]
        return [t, a, b]
    if t == "sub":
        return ["sub", commute(rng, e[1]), commute(rng, e[2])]
    if t == "neg":
        return ["neg", commute(rng, e[1])]
    if t == "pow":
        return ["pow", commute(rng, e[1]), e[2]]
    return e


def render_lit(rng, q):
    q = F(q)
    f = float(q)
    forms = [repr(f)]
    if q.denominator == 1:
        forms += [str(q.numerator), f"{q.numerator}.", f"{q.numerator}.0"]
        if q.numerator % 10 == 0 and q.numerator:
            forms.append(f"{q.numerator // 10}e1")
    else:
        forms.append(f"{f:.6f}".rstrip("0"))
    return rng.choice(forms)


def render(rng, e, style, prec=0):
    sp = lambda: " " * rng.choice(style["spaces"])
    t = e[0]
    if t == "num":
        s = render_lit(rng, e[1])
    elif t == "var":
        s = e[1]
    elif t in ("add", "sub"):
        s = f"{render(rng, e[1], style, 1)}{sp()}{'+' if t == 'add' else '-'}{sp()}{render(rng, e[2], style, 2)}"
        if prec > 1:
            s = f"({s})"
    elif t == "mul":
        s = f"{render(rng, e[1], style, 3)}{sp()}*{sp()}{render(rng, e[2], style, 4)}"
        if prec > 3:
            s = f"({s})"
    elif t == "neg":
        s = f"-{render(rng, e[1], style, 5)}"
        if prec > 0:
            s = f"({s})"
    elif t == "pow":
        s = f"{render(rng, e[1], style, 6)}{style['pow']}{e[2]}"
        if prec > 4:
            s = f"({s})"
    if rng.random() < style["extra_parens"]:
        s = f"({s})"
    return s


def gen_case(rng, tier):
    for _ in range(100):
        names = rng.sample(NAMES, rng.randint(1, 4))
        e = gen_expr(rng, names, rng.randint(1, 4))
        used = sorted(M.fvars(e))
        env = {n: F(rng.randint(-4, 4), rng.choice([1, 1, 2])) for n in used}
        try:
            val = M.ev(e, lambda x: env[x], {})
        except ZeroDivisionError:
            continue
        if N.bits(val) > 46:
            continue
        variants = []
        for k in range(3):
            style = {"spaces": rng.choice([[0], [1], [0, 1, 2]]), "pow": rng.choice(["^", "**"]), "extra_parens": rng.choice([0.0, 0.1, 0.3])}
            e2 = e if k == 0 else commute(rng, e)
            variants.append({"string": render(rng, e2, style), "ddt": rng.random() < 0.5, "rename": rng.random() < 0.25})
        case = {"expr": e, "env": {k: C.q2s(v) for k, v in env.items()}, "variants": variants, "value": C.q2s(val)}
        if rng.random() < 0.4:
            env2 = {n: F(rng.randint(-4, 4), rng.choice([1, 1, 2])) for n in used}
            try:
                val2 = M.ev(e, lambda x: env2[x], {})
                if N.bits(val2) <= 46:
                    case["env2"] = {k: C.q2s(v) for k, v in env2.items()}
                    case["value2"] = C.q2s(val2)
            except ZeroDivisionError:
                pass
        return case
    raise C.HarnessError("expression generator failed")


def impl_eval(case):
    """both evaluation paths for every rendered variant"""
    from pyrates.backend.parser import ExpressionParser
    from pyrates.backend.computegraph import ComputeGraph
    from pyrates import OperatorTemplate, NodeTemplate, CircuitTemplate
    out = []
    env = {k: float(F(v)) for k, v in case["env"].items()}
    with M.Scratch():
        with warnings.catch_warnings():
            warnings.simplefilter("ignore")
            for v in case["variants"]:
                r = {}
                # (a) direct evaluation of the parsed expression
                try:
                    cg = ComputeGraph(backend="default", float_precision="float64")
                    args = {k: {"vtype": "constant", "value": val, "dtype": "float64", "shape": ()} for k, val in env.items()}
                    pvars = ExpressionParser(expr_str=v["string"], args=args, cg=cg).parse_expr()
                    r["direct"] = C.f2s(np.asarray(cg.eval_node(cg.var_updates["non-DEs"]["x"]), dtype=float).reshape(-1)[0])
                    if case.get("env2"):
                        # the same graph evaluated again after its variables received other values
                        for k2, v2 in case["env2"].items():
                            if hasattr(pvars[k2], "set_value"):          # a variable that sympy simplified away never became a graph node
                                pvars[k2].set_value(np.asarray(float(F(v2))))
                        r["direct2"] = C.f2s(np.asarray(cg.eval_node(cg.var_updates["non-DEs"]["x"]), dtype=float).reshape(-1)[0])
                except Exception as e:
                    r.setdefault("direct", f"raise:{type(e).__name__}:{str(e)[:80]}")
                    if case.get("env2") and "direct2" not in r:
                        r["direct2"] = f"raise:{type(e).__name__}:{str(e)[:80]}"
                # (b) generated code of a one-equation operator
                try:
                    if v.get("rename"):
                        # the operator is derived from a parent whose state variable is renamed by a template edit (the pattern of jansenrit.yaml)
                        lhs = "d/dt * z9" if v["ddt"] else "z9'"
                        parent = OperatorTemplate(name="eop_parent", equations=[f"{lhs} = {v['string']}"], variables=dict({"z9": "variable(0.0)"}, **env), path=None)
                        op = parent.update_template(name="eop", equations={"replace": {"z9": "q_"}}, variables={"q_": "output(0.0)"})
                    else:
                        lhs = "d/dt * q_" if v["ddt"] else "q_'"
                        op = OperatorTemplate(name="eop", equations=[f"{lhs} = {v['string']}"], variables=dict({"q_": "output(0.0)"}, **env), path=None)
                    c = CircuitTemplate(name="net", nodes={"p": NodeTemplate(name="n", operators=[op], path=None)}, edges=[], path=None)
                    func, args2, names, smap = c.get_run_func("ef", step_size=1e-3, vectorize=False, float_precision="float64", verbose=False, in_place=False, clear=True)
                    dy = np.asarray(func(0, np.zeros(1), np.zeros(1), *args2[3:]), dtype=float)
                    r["generated"] = C.f2s(dy[smap["p/eop/q_"]])
                except Exception as e:
                    r["generated"] = f"raise:{type(e).__name__}:{str(e)[:80]}"
                out.append(r)
    return out


# ------------------------------------------------------------------ reserved-name stream
RESERVED_CANDIDATES = ["E", "I", "N", "O", "Q", "S", "pi", "oo", "zoo", "nan", "beta", "gamma", "Beta", "Gamma", "zeta", "y", "dy", "exp", "log", "sin", "cos", "tan", "tanh",
                       "sqrt", "abs", "source_idx", "target_idx", "sigmoid", "absv", "maxi", "mini", "sign", "interp", "E1", "Ei", "Si", "Ci", "re", "im", "ff", "rf", "Li", "li"]


def reserved_stream(names):
    """a variable called `nm` is either rejected (PyRatesException) or means the declared value on both evaluation paths"""
    from pyrates import OperatorTemplate, NodeTemplate, CircuitTemplate
    from pyrates.backend import PyRatesException
    from pyrates.backend.parser import ExpressionParser
    from pyrates.backend.computegraph import ComputeGraph
    out = {}
    with M.Scratch():
        with warnings.catch_warnings():
            warnings.simplefilter("ignore")
            for nm in names:
                r = {}
                expected = C.f2s(-0.5 / 2.0 + 3.0 * 0.25)
                try:
                    op = OperatorTemplate(name="rop", equations=[f"q_' = -q_/b2 + {nm}*a2"], variables={"q_": "output(0.5)", "b2": 2.0, "a2": 0.25, nm: 3.0}, path=None)
                    c = CircuitTemplate(name="net", nodes={"p": NodeTemplate(name="n", operators=[op], path=None)}, edges=[], path=None)
                    func, args2, names2, smap = c.get_run_func("rf_", step_size=1e-3, vectorize=False, float_precision="float64", verbose=False, in_place=False, clear=True)
                    dy = np.asarray(func(0, np.array([0.5]), np.zeros(1), *args2[3:]), dtype=float)
                    r["generated"] = C.f2s(dy[smap["p/rop/q_"]])
                except PyRatesException as e:
                    r["generated"] = "rejected"
                except Exception as e:
                    r["generated"] = f"raise:{type(e).__name__}:{str(e)[:80]}"
                r["expected"] = expected
                out[nm] = r
                try:
                    from pyrates import clear_frontend_caches
                    clear_frontend_caches()
                except Exception:
                    pass
    return out


# ------------------------------------------------------------------ names that look like the labels given to summed sources
def shadow_stream(_):
    """an input variable driven by two operators of the same node (PyRates labels the sources r_v1, r_v2, ... / r_in0 ...) next to a variable of the consumer that
    literally carries such a label, declared as input or as constant: every variable keeps its own meaning"""
    from pyrates import OperatorTemplate, NodeTemplate, CircuitTemplate, clear_frontend_caches
    bad, done = [], 0
    r1, a, r2, b, c0, v, k, tau, bias = 0.5, 2.0, 1.5, 3.0, 0.25, 0.75, 1.25, 2.0, 0.375
    with M.Scratch():
        with warnings.catch_warnings():
            warnings.simplefilter("ignore")
            for base in ("r", "x"):
                for shadow in (f"{base}_v1", f"{base}_v2", f"{base}_in0", f"{base}_in1", f"{base}_v1_v1"):
                    for decl in ("input", "const"):
                        for vec in (False, True):
                            exp = {f"p/op1/{base}": -a * r1, f"p/op2/{base}": -b * r2 + c0, "p/op3/v": -v / tau + k * (r1 + r2) + bias}
                            try:
                                op1 = OperatorTemplate(name="op1", equations=[f"{base}' = -a*{base}"], variables={base: f"output({r1})", "a": a}, path=None)
                                op2 = OperatorTemplate(name="op2", equations=[f"{base}' = -b*{base} + c"], variables={base: f"output({r2})", "b": b, "c": c0}, path=None)
                                op3 = OperatorTemplate(name="op3", equations=[f"v' = -v/tau + k*{base} + {shadow}"],
                                                       variables={"v": f"output({v})", base: "input(0.125)", shadow: (f"input({bias})" if decl == "input" else bias), "k": k, "tau": tau}, path=None)
                                c = CircuitTemplate(name="sc", nodes={"p": NodeTemplate(name="sn", operators=[op1, op2, op3], path=None)}, edges=[], path=None)
                                func, args, names, smap = c.get_run_func("sf", step_size=1e-3, vectorize=vec, float_precision="float64", verbose=False, clear=True, in_place=False)
                                dy = np.asarray(func(*args), dtype=float)
                                got = {p_: float(dy[i]) for p_, i in smap.items() if isinstance(i, (int, np.integer))}
                                done += 1
                                if got != exp:
                                    bad.append({"summed_input": base, "variable_named_like_a_label": shadow, "declared_as": decl, "vectorize": vec, "got": got, "expected": exp})
                            except Exception as e:
                                bad.append({"summed_input": base, "variable_named_like_a_label": shadow, "declared_as": decl, "vectorize": vec, "raise": f"{type(e).__name__}: {str(e)[:160]}"})
                            clear_frontend_caches()
    return {"done": done, "bad": bad}


# ------------------------------------------------------------------ float stream (registry functions and constants)
FLOAT_CASES = [
    ("sin(a) + cos(b)", lambda a, b: math.sin(a) + math.cos(b)), ("exp(-a) * b", lambda a, b: math.exp(-a) * b), ("tanh(a - b)", lambda a, b: math.tanh(a - b)),
    ("sigmoid(a)", lambda a, b: 1 / (1 + math.exp(-a))), ("sqrt(a*a + 1.0)", lambda a, b: math.sqrt(a * a + 1)), ("log(a*a + 2.0)", lambda a, b: math.log(a * a + 2)),
    ("absv(a - 2*b)", lambda a, b: abs(a - 2 * b)), ("maxi(a, b)", lambda a, b: max(a, b)), ("mini(a, b)", lambda a, b: min(a, b)), ("pi * a", lambda a, b: math.pi * a),
    ("a / b", lambda a, b: a / b), ("a / (b * 2.0)", lambda a, b: a / (b * 2)), ("a ^ 2 / b ** 2", lambda a, b: a ** 2 / b ** 2), ("2.0 ^ a", lambda a, b: 2.0 ** a),
    ("sinh(a) - cosh(b)", lambda a, b: math.sinh(a) - math.cosh(b)), ("arctan(a * b)", lambda a, b: math.atan(a * b)), ("sign(a - b)", lambda a, b: (a > b) - (a < b)),
    ("exp(a)^2", lambda a, b: math.exp(a) ** 2), ("sin(a)^2 + cos(a)^2", lambda a, b: 1.0), ("sigmoid(a) * sigmoid(-a)", lambda a, b: (1 / (1 + math.exp(-a))) * (1 / (1 + math.exp(a)))),
    ("E * a", lambda a, b: math.e * a), ("tan(a / 4.0)", lambda a, b: math.tan(a / 4)),
    ("sigmoid(800.0 + a*a)", lambda a, b: 1.0), ("sigmoid(-800.0 - a*a) + b", lambda a, b: 0.0 + b), ("sigmoid(40.0*a)", lambda a, b: 1 / (1 + math.exp(-40 * a)) if a > -17 else math.exp(40 * a)),
]


def float_stream(_):
    from pyrates.backend.parser import ExpressionParser
    from pyrates.backend.computegraph import ComputeGraph
    from pyrates import OperatorTemplate, NodeTemplate, CircuitTemplate
    rng = random.Random(_)
    bad, done = [], 0
    with M.Scratch():
        with warnings.catch_warnings():
            warnings.simplefilter("ignore")
            for s, f in FLOAT_CASES:
                a, b = rng.uniform(-1.5, 1.5), rng.choice([-1, 1]) * rng.uniform(0.3, 1.5)
                want = f(a, b)
                got = {}
                try:
                    cg = ComputeGraph(backend="default", float_precision="float64")
                    args = {k: {"vtype": "constant", "value": val, "dtype": "float64", "shape": ()} for k, val in (("a", a), ("b", b)) if k in s.replace("absv", "").replace("tanh", "").replace("arctan", "").replace("maxi", "")
                            or True}
                    ExpressionParser(expr_str=s, args=args, cg=cg).parse_expr()
                    got["direct"] = float(np.asarray(cg.eval_node(cg.var_updates["non-DEs"]["x"])).reshape(-1)[0])
                except Exception as e:
                    got["direct"] = f"raise:{type(e).__name__}:{str(e)[:60]}"
                try:
                    op = OperatorTemplate(name="fop", equations=[f"q_' = {s}"], variables={"q_": "output(0.0)", "a": a, "b": b}, path=None)
                    c = CircuitTemplate(name="net", nodes={"p": NodeTemplate(name="n", operators=[op], path=None)}, edges=[], path=None)
                    func, args2, names, smap = c.get_run_func("ff", step_size=1e-3, vectorize=False, float_precision="float64", verbose=False, in_place=False, clear=True)
                    got["generated"] = float(np.asarray(func(0, np.zeros(1), np.zeros(1), *args2[3:]))[0])
                except Exception as e:
                    got["generated"] = f"raise:{type(e).__name__}:{str(e)[:60]}"
                done += 1
                for k, g in got.items():
                    if isinstance(g, str) or not (abs(g - want) <= 1e-9 * max(1.0, abs(want))):
                        bad.append({"expr": s, "a": a, "b": b, "path": k, "got": g, "expected": want})
    return {"done": done, "bad": bad}


INDEX_CASES = [
    ("index(v, 2)", lambda v, A: v[2]), ("index(v, 0) + index(v, 3)", lambda v, A: v[0] + v[3]), ("index_range(v, 1, 3)", lambda v, A: v[1:3]),
    ("index_2d(A, 1, 2)", lambda v, A: A[1, 2]), ("index_axis(A, 1)", lambda v, A: A[1]), ("index_axis(A, 1, 1)", lambda v, A: A[:, 1]),
    ("index(v, i)", lambda v, A: v[1]), ("2.0 * index(v, 1) - index_2d(A, 0, 0)", lambda v, A: 2 * v[1] - A[0, 0]), ("vsum(v)", lambda v, A: v.sum()),
    ("matvec(A, index_range(v, 0, 3))", lambda v, A: A @ v[0:3]),
]


def index_stream(_):
    from pyrates.backend.parser import ExpressionParser
    from pyrates.backend.computegraph import ComputeGraph
    bad, done = [], 0
    v = np.array([3.0, 5.0, 7.0, 11.0])
    A = np.array([[1.0, 2.0, 4.0], [8.0, 16.0, 32.0]])
    with warnings.catch_warnings():
        warnings.simplefilter("ignore")
        for s, f in INDEX_CASES:
            want = np.asarray(f(v, A), dtype=float)
            try:
                cg = ComputeGraph(backend="default", float_precision="float64")
                args = {"v": {"vtype": "constant", "value": v.copy(), "dtype": "float64", "shape": v.shape}, "A": {"vtype": "constant", "value": A.copy(), "dtype": "float64", "shape": A.shape},
                        "i": {"vtype": "constant", "value": 1, "dtype": "int32", "shape": ()}}
                ExpressionParser(expr_str=s, args=args, cg=cg).parse_expr()
                got = np.asarray(cg.eval_node(cg.var_updates["non-DEs"]["x"]), dtype=float)
                done += 1
                if got.shape != want.shape and got.size == want.size:
                    got = got.reshape(want.shape)
                if got.shape != want.shape or not np.array_equal(got, want):
                    bad.append({"expr": s, "got": got.tolist(), "expected": want.tolist()})
            except Exception as e:
                bad.append({"expr": s, "raise": f"{type(e).__name__}: {str(e)[:80]}"})
    return {"done": done, "bad": bad}


def label_stream(rng, n):
    """U stream: the real ComputeGraph._generate_unique_label vs the Lean model on random request sequences of names that look generated"""
    from pyrates.backend.computegraph import ComputeGraph
    pool = ["x", "x_v1", "x_v2", "x_v1_v1", "r", "r_v1", "weight", "x_v", "x_v10"]
    reqs, impl = [], []
    for _ in range(n):
        seq = [rng.choice(pool) for _ in range(rng.randint(1, 12))]
        cg = ComputeGraph(backend="default")
        base = dict(cg._node_names)
        out = [cg._generate_unique_label(l) for l in seq]
        reqs.append({"comp": "str", "op": "labels", "reqs": seq, "_preexisting": sorted(base)})
        impl.append(out)
    return reqs, impl


def check(tier, seed, replay=None):
    rep = C.Report(PID, tier, seed)
    rng = random.Random(seed)
    proof_ok, detail = C.prepare_lean(rep)
    rep.cov["rule"] = ("exact stream: random expression ASTs (depth 1-4, +, -, *, unary minus, integer powers; variables from a hostile pool: prefixes/suffixes of each other, x_v1, weight, "
                       "r_in0, in_edge_0; literals written as int / float / trailing dot / exponent form) x 3 renderings each (spacing, ^ vs **, redundant parentheses, commuted and "
                       "re-associated operands, d/dt * q vs q', 25% through a parent template whose state variable is renamed by a replace edit) x 2 evaluation paths (eval_node on the parsed expression, generated function); float stream: 22 expressions over "
                       "the registry functions and constants at random points (1e-9); index stream: 10 index-helper forms on a vector and a matrix; R stream: a variable carrying each of 43 names that sympy or the registry pre-defines is rejected, fails loudly, or means its declared value.  distinct = distinct (AST, "
                       "environment); non-trivial = AST depth >= 2 and >= 2 distinct variables")
    if replay:
        cases = [json.load(open(replay))["case"]]
    else:
        cases = [json.load(open(f))["case"] for f in sorted(glob.glob(os.path.join(C.VERIF, "corpus", PID, "*.json")))]
        cases += [gen_case(rng, tier) for _ in range(220 if tier == "quick" else 4000)]
    # chunk cases per child to amortise the fork
    chunks = [cases[i:i + 10] for i in range(0, len(cases), 10)]
    res = C.run_forked(lambda ch: [impl_eval(c) for c in ch], chunks, timeout=600)
    drv = C.Driver()
    bad = []
    for ch, rr in zip(chunks, res):
        if isinstance(rr, dict) and "crash" in rr:
            raise C.HarnessError("harness child crashed: " + str(rr)[:600])
        for case, outs in zip(ch, rr):
            nvars = len(M.fvars(case["expr"]))
            rep.count("exact", json.dumps([case["expr"], case["env"]], sort_keys=True), nontrivial=(nvars >= 2))
            # Lean model value of the AST
            flat = {"nodes": [{"path": "p", "ops": [{"name": "o", "output": None, "vars": [{"name": "q_", "decl": "other", "value": "0"}] +
                                                      [{"name": k, "decl": "other", "value": v} for k, v in case["env"].items()],
                                                      "eqs": [{"lhs": "q_", "de": True, "rhs": case["expr"]}]}]}], "edges": []}
            mr = drv.ask(dict(comp="net", fuel=10, points=[{"p/o/q_": "0"}], interp={}, **flat))["results"][0]
            if mr.get("dy", {}).get("p/o/q_") != case["value"]:
                raise C.HarnessError("Lean model and oracle disagree on an expression value: " + json.dumps(case)[:300])
            ok = True
            for v, o in zip(case["variants"], outs):
                for path in ("direct", "generated"):
                    if o[path] != case["value"]:
                        ok = False
                        bad.append({"string": v["string"], "path": path, "got": o[path], "expected": case["value"], "env": case["env"], "ast": case["expr"], "case": case})
                if case.get("env2") and o.get("direct2") != case["value2"]:
                    ok = False
                    bad.append({"string": v["string"], "path": "direct, re-evaluated after set_value", "got": o.get("direct2"), "expected": case["value2"], "env": case["env2"],
                                "ast": case["expr"], "case": case})
            if ok:
                rep.validated()
    drv.close()
    if not replay:
        lreq, limpl = label_stream(rng, 300 if tier == "quick" else 5000)
        drv3 = C.Driver()
        lmod = drv3.ask_many([{k: v for k, v in r.items() if not k.startswith("_")} for r in lreq])
        drv3.close()
        lbad = []
        for r, im, mo in zip(lreq, limpl, lmod):
            rep.count("U-unique-label", json.dumps(r["reqs"]), nontrivial=len(set(r["reqs"])) < len(r["reqs"]))
            if len(set(im)) != len(im):
                lbad.append({"requests": r["reqs"], "labels": im, "what": "two requests received the same backend label"})
            elif not r["_preexisting"] and im != mo.get("labels"):
                lbad.append({"requests": r["reqs"], "labels": im, "lean_model": mo.get("labels"), "what": "differs from the Lean model (labels are distinct)", "no_input": True})
            else:
                rep.validated()
        real = [b for b in lbad if not b.get("no_input")]
        if real:
            rep.violation("generated backend labels collide", real[0])
        elif lbad:
            rep.violation("C05: correspondence _generate_unique_label impl-vs-Lean-model broken (labels still distinct)", lbad[0], no_input=True, name="unproved")
    rs = C.run_forked(reserved_stream, [RESERVED_CANDIDATES], timeout=900)[0] if not replay else {}
    if "crash" in rs:
        raise C.HarnessError("reserved-name stream crashed: " + str(rs)[:600])
    rbad = []
    for nm, r in rs.items():
        rep.count("R-reserved-name", nm, nontrivial=True)
        if r["generated"] == "rejected" or r["generated"].startswith("raise:") or r["generated"] == r["expected"]:
            rep.validated()
        else:
            rbad.append({"variable_name": nm, "equation": f"q_' = -q_/b2 + {nm}*a2", "values": {"q_": 0.5, "b2": 2.0, "a2": 0.25, nm: 3.0}, "got": r["generated"], "expected": r["expected"]})
    if rbad:
        rep.violation(f"a variable named `{rbad[0]['variable_name']}` is accepted but does not mean its declared value in the generated code", {"reserved": rbad})
    fl = C.run_forked(float_stream, [seed])[0] if not replay else {"done": 0, "bad": []}
    ix = C.run_forked(index_stream, [0])[0] if not replay else {"done": 0, "bad": []}
    sh = C.run_forked(shadow_stream, [0], timeout=900)[0] if not replay else {"done": 0, "bad": []}
    for nm, st in (("float", fl), ("index", ix), ("shadow-label", sh)):
        if "crash" in st:
            raise C.HarnessError(f"{nm} stream crashed: " + str(st)[:600])
        rep.count(nm + "-stream", None, n=st["done"])
        rep.cov["streams"][nm + "_stream_failures"] = len(st["bad"])
    rep.sample({"string": cases[-1]["variants"][0]["string"], "env": cases[-1]["env"], "value": cases[-1]["value"]})
    rep.cov["streams"]["exact_stream_failures"] = len(bad)
    if bad:
        b = min(bad, key=lambda x: len(x["string"]))
        rep.violation(f"the equation string `{b['string']}` does not evaluate to the value its arithmetic denotes ({b['path']} path)", b)
    if fl["bad"]:
        rep.violation(f"registry function/constant deviates from its NumPy meaning: {fl['bad'][0]['expr']}", {"float_stream": fl["bad"][:4]})
    if sh["bad"]:
        rep.violation(f"a variable named `{sh['bad'][0]['variable_named_like_a_label']}` is confused with the label of a summed source", {"shadow_stream": sh["bad"][:4]})
    if ix["bad"]:
        rep.violation(f"index helper deviates from NumPy indexing: {ix['bad'][0]['expr']}", {"index_stream": ix["bad"][:4]})
    if not (bad or fl["bad"] or ix["bad"] or rbad or sh["bad"]) and not proof_ok:
        why = {"proof_ok": proof_ok, "build_log_tail": detail["build_log_tail"], "forbidden": detail["forbidden"],
               "audit_failures": (detail["audit"] or {}).get("failures"), "broken": "theorems of PyRatesModel.Props.C05 (build/audit)"}
        rep.violation("C05 is no longer shown to hold: " + why["broken"], why, no_input=True, name="unproved")
    return rep.finish()
