"""C12 — get_jacobian_func returns the derivative of get_run_func.

Proof: lean/PyRatesModel/Props/C12.lean — the formal derivative `D` used by the model is sound: over the reals `HasDerivAt` holds for
`v ↦ evalR e (ρ[x ↦ v])` with derivative `evalR (D x e) ρ` for every expression (polynomial part unconditionally, named functions under the
hypothesis that `f'` denotes the derivative of `f`), by Mathlib's calculus library; Jacobian entries are addressed by the same layout as the state.
Correspondence: (E) exact stream: random polynomial networks (algebraic intermediates, edges, in-node feeders, hierarchy), J from the real
get_jacobian_func evaluated at dyadic points and compared exactly, entry by entry through the returned state layout, with the Lean symbolic
Jacobian (inline + D) and with forward-mode dual numbers over Fractions; (F) float stream: sigmoid / absv / tanh / exp / sin / cos / sqrt models vs dual
numbers (1e-9); (D) delayed models with the delayed variable in the 2nd/3rd state position: J0 and every delay matrix; sparse=True vs dense."""
import random, json, os, glob, warnings, math
from fractions import Fraction as F
import numpy as np
from .. import common as C
from .. import mdl as M, gen_net as G, netcheck as N

PID = "C12"


class Dual:
    """forward-mode AD number a + b·ε (ε² = 0) over any field type"""
    __slots__ = ("a", "b")

    def __init__(self, a, b=0):
        self.a, self.b = a, b

    def _c(self, o):
        return o if isinstance(o, Dual) else Dual(o, 0 * self.a)

    def __add__(self, o): o = self._c(o); return Dual(self.a + o.a, self.b + o.b)
    __radd__ = __add__
    def __sub__(self, o): o = self._c(o); return Dual(self.a - o.a, self.b - o.b)
    def __rsub__(self, o): return self._c(o) - self
    def __mul__(self, o): o = self._c(o); return Dual(self.a * o.a, self.a * o.b + self.b * o.a)
    __rmul__ = __mul__
    def __neg__(self): return Dual(-self.a, -self.b)
    def __truediv__(self, o): o = self._c(o); return Dual(self.a / o.a, (self.b * o.a - self.a * o.b) / (o.a * o.a))

    def __pow__(self, k):
        if k == 0:
            return Dual(self.a ** 0, 0 * self.a)
        return Dual(self.a ** k, k * self.a ** (k - 1) * self.b)


def dual_jacobian(flat, sigma, funcs=None):
    """exact/float Jacobian of the specification by forward-mode AD: {(row_path, col_path): value}"""
    sp = M.state_paths(flat)
    J = {}
    for pj in sp:
        sig = {p: Dual(sigma[p], (1 if p == pj else 0) * (sigma[p] * 0 + 1)) for p in sp}
        vals, dy = oracle_eval_generic(flat, sig, funcs or {})
        for pi in sp:
            d = dy[pi]
            J[(pi, pj)] = d.b if isinstance(d, Dual) else d * 0
    return J


def oracle_eval_generic(flat, sigma, funcs):
    """M.oracle_eval over an arbitrary number type (here: Dual)"""
    nodes = {n["path"]: n for n in flat["nodes"]}
    memo = {}
    one = next(iter(sigma.values())).a * 0 + 1

    def cv(q):
        return F(q) * one if isinstance(one, F) else float(F(q))

    def evg(e, env):
        t = e[0]
        if t == "num": return Dual(cv(e[1]), cv(0))
        if t == "var": return env(e[1])
        if t == "add": return evg(e[1], env) + evg(e[2], env)
        if t == "sub": return evg(e[1], env) - evg(e[2], env)
        if t == "mul": return evg(e[1], env) * evg(e[2], env)
        if t == "neg": return -evg(e[1], env)
        if t == "pow": return evg(e[1], env) ** e[2]
        if t == "call":
            a = evg(e[2][0], env)
            f, df = funcs[e[1]]
            return Dual(f(a.a), df(a.a) * a.b)
        raise ValueError(t)

    def val(n, o, v):
        key = f"{n}/{o}/{v}"
        if key in memo:
            return memo[key]
        node = nodes[n]
        op = next(x for x in node["ops"] if x["name"] == o)
        d = next(x for x in op["vars"] if x["name"] == v)
        k = M.kind_of(op, d)
        if k == "state":
            r = sigma[key]
        elif k == "const":
            r = Dual(cv(d["value"]), cv(0))
        elif k == "alg":
            e = next(x for x in op["eqs"] if x["lhs"] == v and not x["de"])
            r = evg(e["rhs"], lambda x: val(n, o, x))
        else:
            feeders = [x for x in node["ops"] if x["output"] == v]
            es = [e for e in flat["edges"] if e["tgt"] == [n, o, v]]
            if not feeders and not es:
                r = Dual(cv(d["value"]), cv(0))
            else:
                r = Dual(cv(0), cv(0))
                for f in feeders:
                    r = r + val(n, f["name"], v)
                for e in es:
                    r = r + Dual(cv(e["w"]), cv(0)) * val(*e["src"])
        memo[key] = r
        return r
    dy = {}
    for n in flat["nodes"]:
        for o in n["ops"]:
            for e in o["eqs"]:
                if e["de"]:
                    dy[f"{n['path']}/{o['name']}/{e['lhs']}"] = evg(e["rhs"], lambda x: val(n["path"], o["name"], x))
    return memo, dy


FUNCS = {"sigmoid": (lambda a: 1 / (1 + math.exp(-a)), lambda a: math.exp(-a) / (1 + math.exp(-a)) ** 2),
         "tanh": (math.tanh, lambda a: 1 - math.tanh(a) ** 2), "exp": (math.exp, math.exp), "sin": (math.sin, math.cos), "cos": (math.cos, lambda a: -math.sin(a)),
         "absv": (abs, lambda a: (a > 0) - (a < 0)), "sqrt": (math.sqrt, lambda a: 0.5 / math.sqrt(a))}


def gen_alg_chain(rng):
    """a dependency that passes through several edges: the state of a source node enters the algebraic variable of node 1, which enters the algebraic
    variable of node 2, ..., which drives a state equation (one chain-rule factor per edge in the Jacobian entry)"""
    k = rng.randint(2, 3)
    c1, c2, c3 = (F(rng.choice([1, 2, 3, -2]), rng.choice([1, 2])) for _ in range(3))
    op0 = {"name": "aop", "eqs": [{"lhs": "mm", "de": False, "rhs": M.add(M.mul(M.num(c1), M.var("tau")), M.mul(M.num(c2), M.var("m_in2")))},
                                  {"lhs": "xx", "de": True, "rhs": M.add(M.mul(M.num(F(-7, 2)), M.var("m_in2")), M.var("xx"))}],
           "vars": {"xx": {"decl": "output", "value": "1"}, "mm": {"decl": "var", "value": "0"}, "m_in2": {"decl": "input", "value": "0"}, "tau": {"decl": "const", "value": "1"}}}
    op1 = {"name": "sop", "eqs": [{"lhs": "v", "de": True, "rhs": M.sub(M.mul(M.num(c3), M.var("m_in")), M.mul(M.num(3), M.var("kk")))}],
           "vars": {"v": {"decl": "output", "value": "1/2"}, "m_in": {"decl": "input", "value": "0"}, "kk": {"decl": "const", "value": "2"}}}
    nts = {"S": {"name": "snode", "ops": ["P"]}, "A": {"name": "anode", "ops": ["P", "Q"]}}
    nodes = {"src": "S"}
    edges = []
    prev = "src/sop/v"
    for i in range(k):
        nodes[f"n{i}"] = "A"
        edges.append({"src": prev, "tgt": f"n{i}/aop/m_in2", "w": str(F(rng.choice([1, 2, -1, 3]), rng.choice([1, 2])))})
        prev = f"n{i}/aop/mm"
    edges.append({"src": prev, "tgt": f"n{k - 1}/sop/m_in", "w": str(F(rng.choice([1, 2, -3]), 1))})
    return {"ops": {"P": op1, "Q": op0}, "node_templates": nts, "circuit": {"name": "net", "nodes": nodes, "edges": edges}}


def gen_case(rng, tier, floaty=False):
    for _ in range(80):
        if not floaty and rng.random() < 0.12:
            mdl = gen_alg_chain(rng)
        else:
            mdl = G.gen_model(rng, max_nodes=3, min_nodes=1, depth=rng.choice([0, 0, 1]), hostile=rng.random() < 0.3,
                              funcs=(["sigmoid", "tanh", "exp", "sin", "cos", "absv"] if floaty else None))
        flat = M.flatten(mdl)
        sp = M.state_paths(flat)
        if len(set(sp)) != len(sp) or len(sp) > 8:
            continue
        pts = [{p: C.q2s(F(rng.randint(-3, 3), rng.choice([1, 2]))) for p in sp} for _ in range(2)]
        case = {"mdl": mdl, "points": pts, "float": floaty, "sparse": rng.random() < 0.3, "in_place": rng.random() < 0.5, "prelude": rng.random() < 0.3}
        consts = sorted(M.const_paths(flat))
        if consts and not floaty and rng.random() < 0.6:
            # second point: some parameters get other values at call time than the declared ones
            case["pis"] = [{}, {p: C.q2s(F(rng.randint(-3, 3), rng.choice([1, 2]))) for p in rng.sample(consts, min(len(consts), rng.randint(1, 2)))}]
        try:
            if floaty:
                J = dual_jacobian(flat, {p: float(F(v)) for p, v in pts[0].items()}, FUNCS)
                if any(not math.isfinite(v) or abs(v) > 1e8 for v in J.values()):
                    continue
            else:
                o = N.oracle_case({"mdl": mdl, "points": pts, "pis": case.get("pis") or [{}, {}], "interp": {}})
                if "error" in o or o["bits"] > 40:
                    continue
        except (ValueError, RecursionError, OverflowError, ZeroDivisionError, KeyError):
            continue
        return case
    raise C.HarnessError("generator could not produce an admissible case")


def impl_jac(case):
    with M.Scratch():
        with warnings.catch_warnings():
            warnings.simplefilter("ignore")
            try:
                if case.get("prelude"):
                    # an earlier Jacobian compilation in the same process: the last node of the circuit on its own (its entries then sit at other positions)
                    try:
                        pm = json.loads(json.dumps(case["mdl"]))
                        if not pm["circuit"].get("circuits"):
                            last = list(pm["circuit"]["nodes"])[-1]
                            pm["circuit"]["nodes"] = {last: pm["circuit"]["nodes"][last]}
                            pm["circuit"]["edges"] = [e for e in pm["circuit"]["edges"] if e["src"].startswith(last + "/") and e["tgt"].startswith(last + "/")]
                            pc, _, _ = M.build_pyrates(pm)
                            pc.get_jacobian_func("jf0", step_size=1e-3, vectorize=False, float_precision="float64", verbose=False, in_place=False, clear=False)
                    except Exception:
                        pass
                c, _, _ = M.build_pyrates(case["mdl"])
                func, args, names, smap = c.get_jacobian_func("jf", step_size=1e-3, vectorize=False, float_precision="float64", verbose=False,
                                                              in_place=case.get("in_place", True), clear=False, sparse=case.get("sparse", False))
            except Exception as e:
                return {"error": type(e).__name__, "msg": str(e)[:300], "stage": "compile"}
            out = []
            n = len(np.asarray(args[1]))
            names = list(names)
            raw = []
            for pt, pi in zip(case["points"], case.get("pis") or [{}] * len(case["points"])):
                y = np.zeros(n)
                for p, idx in smap.items():
                    y[idx] = float(F(pt[p]))
                a2 = list(args)
                for pname, v in pi.items():          # parameters other than the declared ones, passed at call time
                    if pname in names:
                        i = names.index(pname)
                        a2[i] = np.full(np.shape(args[i]), float(F(v))) if np.shape(args[i]) else float(F(v))
                try:
                    raw.append(func(0.0, y, *a2[2:]))          # all calls first: a result must stay what it was when later calls are made
                except Exception as e:
                    raw.append(e)
            for J in raw:
                try:
                    if isinstance(J, Exception):
                        raise J
                    sparse_type = type(J).__name__
                    if hasattr(J, "toarray"):
                        J = J.toarray()
                    J = np.asarray(J, dtype=float)
                    ent = {}
                    for pi, i in smap.items():
                        for pj, j in smap.items():
                            ent[f"{pi}|{pj}"] = C.f2s(J[i, j]) if not case["float"] else float(J[i, j])
                    out.append({"J": ent, "shape": list(J.shape), "container": sparse_type})
                except Exception as e:
                    out.append({"error": type(e).__name__, "msg": str(e)[:200]})
            return {"res": out, "layout": {p: int(i) for p, i in smap.items()}}


# ------------------------------------------------------------------ auto-07p DFDU / DFDP blocks (fortran backend)
def gen_auto_case(rng, tier):
    """polynomial model, every parameter enters linearly (p * monomial of states): 1..14 parameters (>= 10 reaches the PAR slots beyond the reserved block)"""
    n = rng.choice([1, 2, 3, 5, 8, 9, 10, 11, 12, 14])
    pool = ["tau", "eta", "Delta", "k", "alpha", "g", "a1", "b_", "w", "cc", "J", "v_th", "d0", "s1", "mu", "nu", "rho", "kap", "lam", "om"]
    names = rng.sample(pool, n) if rng.random() < 0.5 else [f"q{i}" for i in range(n)]
    nstate = rng.randint(1, 3)
    states = ["x1", "x2", "x3"][:nstate]
    decl = list(names); rng.shuffle(decl)
    use = list(names); rng.shuffle(use)
    eqs = []
    for s, ch in zip(states, [use[i::nstate] for i in range(nstate)]):
        rhs = M.mul(M.num(F(-1, 2)), M.mul(M.var(s), M.var(rng.choice(states))) if rng.random() < 0.4 else M.var(s))
        for p_ in ch:
            k = rng.choice([0, 1, 1, 2, 2, 3])
            t = M.var(p_)
            for _ in range(k):
                t = M.mul(t, M.var(rng.choice(states)))
            rhs = M.add(rhs, t) if rng.random() < 0.7 else M.sub(rhs, t)
        eqs.append({"lhs": s, "de": True, "rhs": rhs})
    items = [(s, {"decl": "output" if i == 0 else "var", "value": str(F(rng.randint(-3, 3), rng.choice([1, 2, 4])))}) for i, s in enumerate(states)]
    pitems = [(p_, {"decl": "const", "value": str(F(rng.randint(1, 6) * rng.choice([-1, 1]), rng.choice([1, 2, 4])))}) for p_ in decl]
    allitems = items + pitems if rng.random() < 0.5 else pitems[:len(pitems) // 2] + items + pitems[len(pitems) // 2:]
    mdl = {"ops": {"O": {"name": "aop", "eqs": eqs, "vars": dict(allitems)}}, "node_templates": {"N": {"name": "n", "ops": ["O"]}},
           "circuit": {"name": "net", "nodes": {"p": "N"}, "edges": []}}
    pts = [{**{f"p/aop/{s}": C.q2s(F(rng.randint(-3, 3), rng.choice([1, 2]))) for s in states},
            **{f"p/aop/{p_}": C.q2s(F(rng.randint(-4, 4), rng.choice([1, 2]))) for p_ in names}} for _ in range(2)]
    return {"auto": True, "mdl": mdl, "params": names, "states": states, "points": pts}


def promote(flat, params):
    """the same circuit with the parameters turned into state variables with p' = 0: the Jacobian column of p is then d f / d p"""
    import copy
    fl = copy.deepcopy(flat)
    op = fl["nodes"][0]["ops"][0]
    for p_ in params:
        op["eqs"].append({"lhs": p_, "de": True, "rhs": ["num", "0"]})
    return fl


def impl_auto(case):
    import re, sys, importlib
    os.environ["PATH"] = "/venv/bin:" + os.environ.get("PATH", "")
    with M.Scratch() as wd:
        with warnings.catch_warnings():
            warnings.simplefilter("ignore")
            try:
                c, _, _ = M.build_pyrates(case["mdl"])
                func, args, names, smap = c.get_run_func("vfx", step_size=1e-3, file_name="ajmod", backend="fortran", float_precision="float64", auto=True,
                                                         auto_jac=True, vectorize=False, solver="scipy", verbose=False)
            except Exception as e:
                return {"error": type(e).__name__, "msg": str(e)[:300], "stage": "compile"}
            try:
                sys.path.insert(0, os.getcwd())
                mod = sys.modules.get("ajmod") or importlib.import_module("ajmod")
                cf = open("c.ivp").read()
                m = re.search(r"parnames\s*=\s*\{([^}]*)\}", cf)
                parnames = {int(i): nm for i, nm in re.findall(r"(\d+)\s*:\s*'([^']+)'", m.group(1))} if m else {}
                npar = max(36, max(parnames or [1]))
                ndim = len(case["states"])
                y0 = np.zeros(ndim); a0 = np.zeros(npar)
                mod.stpnt(y0, a0, 0.0)
                declared = {k: F(d["value"]) for k, d in case["mdl"]["ops"]["O"]["vars"].items()}
                # which slot does the wrapper read each parameter from?  taken from the wrapper itself: STPNT puts the (distinct-by-position) declared values there
                icp = np.array([1], dtype=np.int32)

                def call(yy, aa, ijac):
                    dfdu = np.zeros((ndim, ndim), order="F"); dfdp = np.zeros((ndim, npar), order="F")
                    dy = mod.func(yy.copy(), icp, aa.copy(), ijac, dfdu, dfdp)
                    return np.array(dy, dtype=float).copy(), dfdu, dfdp
                out = []
                for pt in case["points"]:
                    y = np.zeros(ndim)
                    for s in case["states"]:
                        y[smap[f"p/aop/{s}"]] = float(F(pt[f"p/aop/{s}"]))
                    aa = np.zeros(npar)
                    for slot, nm in parnames.items():
                        if f"p/aop/{nm}" in pt:
                            aa[slot - 1] = float(F(pt[f"p/aop/{nm}"]))
                    dy, dfdu, dfdp = call(y, aa, 2)
                    # every parameter enters linearly: the unit difference in slot k is exactly d dy / d PAR(k)
                    diffp = np.zeros((ndim, npar))
                    for k in range(npar):
                        if k == 10:      # PAR(11) carries the period / time for auto-07p
                            continue
                        ap = aa.copy(); ap[k] += 1.0
                        diffp[:, k] = call(y, ap, 0)[0] - dy
                    out.append({"dfdu": {f"{a}|{b}": C.f2s(dfdu[smap[f'p/aop/{a}'], smap[f'p/aop/{b}']]) for a in case["states"] for b in case["states"]},
                                "dfdp_by_name": {f"{a}|{nm}": C.f2s(dfdp[smap[f'p/aop/{a}'], slot - 1]) for a in case["states"] for slot, nm in parnames.items()},
                                "dfdp_cols": [[C.f2s(v) for v in dfdp[:, k]] for k in range(npar)],
                                "unit_diff_cols": [[C.f2s(v) for v in diffp[:, k]] for k in range(npar)],
                                "dy": [C.f2s(v) for v in dy]})
                return {"res": out, "parnames": {str(k): v for k, v in parnames.items()}, "layout": {p_: int(i) for p_, i in smap.items()}}
            except Exception as e:
                return {"error": type(e).__name__, "msg": str(e)[:300], "stage": "call"}


def auto_deviations(case, im, drv):
    if "error" in im:
        return [("auto-raises", im)]
    dev = []
    flat = promote(M.flatten(case["mdl"]), case["params"])
    for pt, r in zip(case["points"], im["res"]):
        J = dual_jacobian(flat, {p_: F(v) for p_, v in pt.items()})
        mr = drv.ask(dict(comp="netjac", fuel=60, points=[pt], interp={}, **flat))["results"][0]
        exp = {f"{pi}|{pj}": C.q2s(v) for (pi, pj), v in J.items()}
        if mr.get("jac") != exp:
            raise C.HarnessError("Lean symbolic Jacobian and dual-number oracle disagree (auto stream): " + json.dumps(case)[:400])
        for a in case["states"]:
            for b in case["states"]:
                e_ = exp[f"p/aop/{a}|p/aop/{b}"]
                if r["dfdu"][f"{a}|{b}"] != e_:
                    dev.append(("dfdu-entry", {"row": a, "col": b, "got": r["dfdu"][f"{a}|{b}"], "expected": e_}))
        # DFDP against the wrapper itself: column k must be the exact unit difference of the vector field in PAR(k+1)
        for k, (got, ud) in enumerate(zip(r["dfdp_cols"], r["unit_diff_cols"])):
            if k != 10 and got != ud:
                dev.append(("dfdp-column-is-not-the-derivative-wrt-that-PAR-slot", {"PAR": k + 1, "dfdp": got, "d dy / d PAR": ud, "parnames": im["parnames"]}))
        if dev:
            break
    return dev


# ------------------------------------------------------------------ delayed models
def dde_probe(_):
    """three state variables; delayed factors on the 2nd and 3rd state variable, two distinct delays, a product of an instantaneous and a delayed factor"""
    from pyrates import OperatorTemplate, NodeTemplate, CircuitTemplate
    bad, done = [], 0
    eqs = ["u' = -a*u + b*v(t-0.5)*u + w(t-1.5)", "v' = -v + c*u(t-0.5)", "w' = -2.0*w + v(t-1.5)*w(t-1.5)"]
    variables = {"u": "output(0.5)", "v": "variable(1.0)", "w": "variable(2.0)", "a": 2.0, "b": 3.0, "c": 5.0}
    with M.Scratch():
        with warnings.catch_warnings():
            warnings.simplefilter("ignore")
            for order in (["u", "v", "w"], ["w", "u", "v"]):
                vs = {k: variables[k] for k in order + ["a", "b", "c"]}
                try:
                    op = OperatorTemplate(name="dop", equations=eqs, variables=vs, path=None)
                    c = CircuitTemplate(name="net", nodes={"p": NodeTemplate(name="n", operators=[op], path=None)}, edges=[], path=None)
                    func, args, names, smap = c.get_jacobian_func("djf", step_size=1e-3, vectorize=False, float_precision="float64", verbose=False, clear=False, solver="scipy")
                    y = {"u": 0.5, "v": -1.25, "w": 2.0}
                    past = {0.5: {"u": 3.0, "v": 7.0, "w": 11.0}, 1.5: {"u": -2.0, "v": 0.25, "w": -4.0}}
                    n = 3
                    yv = np.zeros(n)
                    for k in "uvw":
                        yv[smap[f"p/dop/{k}"]] = y[k]

                    def hist(tq):
                        d = round(-tq, 6)
                        r = np.zeros(n)
                        for k in "uvw":
                            r[smap[f"p/dop/{k}"]] = past[d][k]
                        return r
                    a2 = list(args)
                    a2[2] = hist
                    J0, Jh = func(0.0, yv, *a2[2:])
                    J0 = np.asarray(J0.toarray() if hasattr(J0, "toarray") else J0, dtype=float)
                    Jh = [np.asarray(x.toarray() if hasattr(x, "toarray") else x, dtype=float) for x in Jh]
                    a, b, cc = 2.0, 3.0, 5.0
                    I = {k: smap[f"p/dop/{k}"] for k in "uvw"}
                    E0 = np.zeros((3, 3)); E05 = np.zeros((3, 3)); E15 = np.zeros((3, 3))
                    E0[I["u"], I["u"]] = -a + b * past[0.5]["v"]
                    E0[I["v"], I["v"]] = -1.0
                    E0[I["w"], I["w"]] = -2.0
                    E05[I["u"], I["v"]] = b * y["u"]
                    E05[I["v"], I["u"]] = cc
                    E15[I["u"], I["w"]] = 1.0
                    E15[I["w"], I["v"]] = past[1.5]["w"]
                    E15[I["w"], I["w"]] = past[1.5]["v"]
                    done += 1
                    got = {"J0": J0.tolist(), "Jh": [x.tolist() for x in Jh]}
                    ok = np.allclose(J0, E0) and len(Jh) == 2 and ((np.allclose(Jh[0], E05) and np.allclose(Jh[1], E15)) or (np.allclose(Jh[0], E15) and np.allclose(Jh[1], E05)))
                    if not ok:
                        bad.append({"declaration_order": order, "layout": I, "got": got, "expected": {"J0": E0.tolist(), "J_0.5": E05.tolist(), "J_1.5": E15.tolist()}})
                except Exception as e:
                    bad.append({"declaration_order": order, "raise": f"{type(e).__name__}: {str(e)[:200]}"})
                from pyrates import clear_frontend_caches
                clear_frontend_caches()
    return {"done": done, "bad": bad}


def check(tier, seed, replay=None):
    rep = C.Report(PID, tier, seed)
    rng = random.Random(seed)
    proof_ok, detail = C.prepare_lean(rep)
    rep.cov["rule"] = ("E: random polynomial networks (1-3 nodes, algebraic intermediates, in-node feeders, weighted edges incl. parallel ones, hierarchy) - J from get_jacobian_func at 2 dyadic "
                       "points compared exactly entry by entry (through the returned state layout) with the Lean symbolic Jacobian and dual numbers over Fractions; sparse=True on 30% of the "
                       "cases; F: the same with sigmoid/tanh/exp/sin/cos/absv terms vs float dual numbers (1e-9); D: delayed model (3 state variables, delays on the 2nd/3rd variable, two "
                       "delays, product of instantaneous and delayed factor) in two declaration orders; A: fortran auto=True export (1-14 parameters, each entering linearly), compiled func called with ijac=2: DFDU exactly vs the Lean Jacobian, every DFDP column k exactly vs the unit difference of the compiled vector field in PAR(k).  distinct = distinct cases; non-trivial = >= 2 state variables and an edge/feeder")
    if replay:
        cases = [json.load(open(replay))["case"]]
    else:
        cases = [json.load(open(f))["case"] for f in sorted(glob.glob(os.path.join(C.VERIF, "corpus", PID, "*.json")))]
        nE, nF = (110, 50) if tier == "quick" else (1600, 700)
        cases += [gen_case(rng, tier) for _ in range(nE)] + [gen_case(rng, tier, floaty=True) for _ in range(nF)]
    jcases = [c for c in cases if not c.get("auto")]
    impl = C.run_forked(impl_jac, jcases, timeout=300)
    drv = C.Driver()
    bad = []
    for case, im in zip(jcases, impl):
        if "crash" in im:
            raise C.HarnessError("harness child crashed: " + str(im)[:800])
        flat = M.flatten(case["mdl"])
        sp = M.state_paths(flat)
        f = G.features(case["mdl"])
        rep.count(("F" if case["float"] else "E") + ("-sparse" if case["sparse"] else "") + ("-callparams" if case.get("pis") else "") + ("-prelude" if case.get("prelude") else ""), json.dumps(case, sort_keys=True), nontrivial=(len(sp) >= 2 and (f["n_edges"] > 0 or f["feeders"])))
        if "error" in im:
            bad.append((case, im, [("raises", im)]))
            continue
        dev = []
        if sorted(im["layout"].values()) != list(range(len(sp))) or set(im["layout"]) != set(sp):
            dev.append(("layout", im["layout"]))
        flat0 = flat
        for k_pt, (pt, r) in enumerate(zip(case["points"], im["res"])):
            pi_k = (case.get("pis") or [{}] * len(case["points"]))[k_pt]
            flat = flat0
            if pi_k:
                # the model with the parameter values that were passed at call time
                flat = json.loads(json.dumps(flat0))
                for n_ in flat["nodes"]:
                    for o_ in n_["ops"]:
                        for d_ in o_["vars"]:
                            key_ = f"{n_['path']}/{o_['name']}/{d_['name']}"
                            if key_ in pi_k:
                                d_["value"] = pi_k[key_]
            if "error" in r:
                dev.append(("raises-at-call", r))
                continue
            if r["shape"] != [len(sp), len(sp)]:
                dev.append(("shape", r["shape"]))
            if case["sparse"] and "csr" not in r["container"].lower():
                dev.append(("sparse-container", r["container"]))
            if case["float"]:
                J = dual_jacobian(flat, {p: float(F(v)) for p, v in pt.items()}, FUNCS)
                for (pi, pj), v in J.items():
                    g = r["J"].get(f"{pi}|{pj}")
                    if g is None or not (abs(g - v) <= 1e-9 * max(1.0, abs(v))):
                        dev.append(("entry", {"row": pi, "col": pj, "got": g, "expected": v}))
                        break
            else:
                J = dual_jacobian(flat, {p: F(v) for p, v in pt.items()})
                mr = drv.ask(dict(comp="netjac", fuel=60, points=[pt], interp={}, **flat))["results"][0]
                mj = mr.get("jac")
                exp = {f"{pi}|{pj}": C.q2s(v) for (pi, pj), v in J.items()}
                if mj != exp:
                    raise C.HarnessError("Lean symbolic Jacobian and dual-number oracle disagree: " + json.dumps(case)[:400])
                diff = {k: (r["J"].get(k), v) for k, v in exp.items() if r["J"].get(k) != v}
                if diff:
                    k0 = sorted(diff)[0]
                    dev.append(("entry", {"entry": k0, "got": diff[k0][0], "expected": diff[k0][1], "n_wrong": len(diff)}))
        if dev:
            bad.append((case, im, dev))
        else:
            rep.validated()
    # auto-07p blocks
    if replay:
        acases = [c for c in cases if c.get("auto")]
    else:
        acases = [json.load(open(f))["case"] for f in sorted(glob.glob(os.path.join(C.VERIF, "corpus", PID, "auto", "*.json")))]
        acases += [gen_auto_case(rng, tier) for _ in range(6 if tier == "quick" else 48)]
    aimpl = C.run_forked(impl_auto, acases, timeout=600)
    for case, im in zip(acases, aimpl):
        if "crash" in im:
            raise C.HarnessError("harness child crashed (auto stream): " + str(im)[:800])
        rep.count("A-auto-dfdu-dfdp" + ("-ge10-params" if len(case["params"]) >= 10 else ""), json.dumps(case, sort_keys=True), nontrivial=len(case["params"]) >= 2)
        dev = auto_deviations(case, im, drv)
        if dev:
            bad.append((case, im, dev))
        else:
            rep.validated()
    drv.close()
    dd = C.run_forked(dde_probe, [0], timeout=300)[0] if not replay else {"done": 0, "bad": []}
    if "crash" in dd:
        raise C.HarnessError("dde probe crashed: " + str(dd)[:600])
    rep.count("D-delayed", None, n=dd["done"])
    rep.cov["streams"].update({"jacobian_cases_with_deviations": len(bad), "dde_probe_failures": len(dd["bad"])})
    if jcases:
        rep.sample({"n_state": len(M.state_paths(M.flatten(jcases[-1]["mdl"]))), "point": jcases[-1]["points"][0], "impl": (impl[-1].get("res") or [{}])[0].get("J")})
    if acases and "res" in aimpl[-1]:
        rep.sample({"auto_params": acases[-1]["params"], "parnames": aimpl[-1]["parnames"], "dfdu": aimpl[-1]["res"][0]["dfdu"]})
    if bad:
        case, im, dev = min(bad, key=lambda x: len(json.dumps(x[0]["mdl"])))
        rep.violation(f"the Jacobian returned by get_jacobian_func is not the derivative of the vector field ({dev[0][0]})", {"case": case, "deviations": dev[:4], "layout": im.get("layout")})
    if dd["bad"]:
        rep.violation("delayed model: J0 / delay Jacobians are not the partial derivatives w.r.t. the (delayed) state in the state ordering", {"dde": dd["bad"][0]})
    if not bad and not dd["bad"] and not proof_ok:
        why = {"proof_ok": proof_ok, "build_log_tail": detail["build_log_tail"], "forbidden": detail["forbidden"],
               "audit_failures": (detail["audit"] or {}).get("failures"), "broken": "theorems of PyRatesModel.Props.C12 (build/audit)"}
        rep.violation("C12 is no longer shown to hold: " + why["broken"], why, no_input=True, name="unproved")
    return rep.finish()
