"""C07 — parameter and initial-value overrides reach exactly their targets.

Proof: lean/PyRatesModel/Props/C07.lean — the front-end store (node labels -> template objects -> per-operator variations, with sharing,
copy-on-write `update_var`, apply-time `node_values`) refines an abstract map Path -> Value: after any history of writes the value at a path is
the last write addressed to it, else the default; paths not addressed keep their value (frame).
Correspondence: random models with deliberately shared NodeTemplate/OperatorTemplate objects and random histories of update_var (scalar, array,
wildcard), edge updates, derived circuits and apply-time node_values; the compiled arguments, the initial state and dy are compared with the
specification evaluated on the MDL to which the history has been applied by the abstract-map semantics (Lean model + oracle)."""
import random, json, os, glob, copy
from fractions import Fraction as F
from .. import common as C
from .. import mdl as M, gen_net as G, netcheck as N
from . import c01

PID = "C07"


def node_paths(circ, prefix=""):
    out = []
    for l in circ.get("nodes", {}):
        out.append(prefix + l)
    for l, sub in circ.get("circuits", {}).items():
        out += node_paths(sub, prefix + l + "/")
    return out


def resolve(mdl, flat, key):
    """wildcard resolution by the documented meaning: 'all' at any level; nodes must declare op/var; declaration order"""
    *npath, op, var = key.split("/")
    out = []
    for n in flat["nodes"]:
        if n.get("is_edge"):
            continue
        parts = n["path"].split("/")
        if len(npath) == 1 and npath[0] == "all":
            ok = True
        elif len(parts) != len(npath):
            ok = False
        else:
            ok = all(a == "all" or a == b for a, b in zip(npath, parts))
        if ok and any(o["name"] == op and any(d["name"] == var for d in o["vars"]) for o in n["ops"]):
            out.append(n["path"])
    return out


def apply_history_spec(mdl, history):
    """abstract-map semantics: returns (post_values: path -> value, edge weights updated in a copy of the mdl)"""
    m = copy.deepcopy(mdl)
    flat = M.flatten(m)
    post = {}
    for h in history:
        if h[0] in ("update_var", "node_values"):
            for key, val in h[1].items():
                tg = resolve(m, flat, key)
                *_, op, var = key.split("/")
                for i, n in enumerate(tg):
                    v = val[i] if isinstance(val, list) and len(val) == len(tg) else val
                    post[f"{n}/{op}/{var}"] = v
        elif h[0] == "update_edge":
            def walk(c, prefix=""):
                for e in c.get("edges", []):
                    if prefix + e["src"] == h[1] and prefix + e["tgt"] == h[2]:
                        e["w"] = h[3]["weight"]
                        return True
                for l, sub in c.get("circuits", {}).items():
                    if walk(sub, prefix + l + "/"):
                        return True
                return False
            walk(m["circuit"])
        elif h[0] == "derive_edges":
            base_edges = copy.deepcopy(m["circuit"]["edges"])
            derived_edges = copy.deepcopy(m["circuit"]["edges"]) + copy.deepcopy(h[1])
            if h[3]:
                tgt_list = derived_edges if h[3][0] == "derived" else base_edges
                for e in tgt_list:
                    if e["src"] == h[3][1] and e["tgt"] == h[3][2]:
                        e["w"] = h[3][3]
                        break
            m["circuit"]["edges"] = derived_edges if h[2] == "derived" else base_edges
    m["post_values"] = dict(m.get("post_values", {}), **{k: v for k, v in post.items()})
    return m


def gen_case(rng, tier):
    for _ in range(80):
        mdl = G.gen_model(rng, max_nodes=5, min_nodes=2, clones=False, depth=rng.choice([0, 0, 1]), hostile=rng.random() < 0.4)
        # force sharing: few node templates, many nodes (gen_model already maps several labels to one template id)
        flat = M.flatten(mdl)
        sp = M.state_paths(flat)
        if len(set(sp)) != len(sp):
            continue
        cand = sorted(M.const_paths(flat)) + sp
        hist = []
        for _k in range(rng.randint(1, 4)):
            r = rng.random()
            if r < 0.45:
                p = rng.choice(cand)
                hist.append(["update_var", {p: C.q2s(F(rng.choice([0, 0, 1, -2, 3, 5, 7]), rng.choice([1, 2])))}])
            elif r < 0.7:
                p = rng.choice(cand)
                *_, op, var = p.split("/")
                key = f"all/{op}/{var}"
                tg = resolve(mdl, flat, key)
                if rng.random() < 0.6 and len(tg) >= 2:
                    hist.append(["update_var", {key: [C.q2s(F(rng.randint(-6, 6), rng.choice([1, 2]))) for _ in tg]}])
                else:
                    hist.append(["update_var", {key: C.q2s(F(rng.choice([0, 2, -3, 4])))}])
            elif r < 0.85:
                p = rng.choice(cand)
                *_, op, var = p.split("/")
                if rng.random() < 0.5:
                    hist.append(["node_values", {p: C.q2s(F(rng.choice([0, 1, -1, 6, 9]), rng.choice([1, 2])))}])
                else:
                    key = f"all/{op}/{var}"
                    tg = resolve(mdl, flat, key)
                    if len(tg) != len([n for n in flat["nodes"] if not n.get("is_edge")]):
                        continue       # apply(node_values) resolves wildcards without looking at the variable: it raises (loudly) unless every node has it
                    hist.append(["node_values", {key: [C.q2s(F(rng.randint(-6, 6))) for _ in tg] if len(tg) >= 2 else C.q2s(F(3))}])
            else:
                es = mdl["circuit"].get("edges", [])
                if es and not mdl["circuit"].get("circuits"):
                    e = rng.choice(es)
                    if sum(1 for x in es if x["src"] == e["src"] and x["tgt"] == e["tgt"]) == 1:
                        if rng.random() < 0.5:
                            hist.append(["update_edge", e["src"], e["tgt"], {"weight": C.q2s(F(rng.choice([0, 2, -3, 7]), rng.choice([1, 2])))}])
                        else:
                            others = [x for x in es if (x["src"], x["tgt"]) != (e["src"], e["tgt"])]
                            extra = [{"src": x["src"], "tgt": x["tgt"], "w": C.q2s(F(rng.choice([1, 2, 3])))} for x in rng.sample(others, min(len(others), rng.randint(0, 2)))]
                            hist.append(["derive_edges", extra, rng.choice(["derived", "base"]), [rng.choice(["derived", "base"]), e["src"], e["tgt"], C.q2s(F(rng.choice([4, -5, 9])))]])
        # only one node_values op, and it must be last (it is an argument of the compilation)
        nv = [h for h in hist if h[0] == "node_values"]
        hist = [h for h in hist if h[0] != "node_values"] + nv[-1:]
        if any(h[0] == "derive_edges" for h in hist):
            hist = [h for h in hist if h[0] != "update_edge"]
            d = [h for h in hist if h[0] == "derive_edges"]
            hist = [h for h in hist if h[0] != "derive_edges"] + d[-1:]
            if nv:
                hist = [h for h in hist if h[0] != "node_values"] + nv[-1:]
        if not hist:
            continue
        exp = apply_history_spec(mdl, hist)
        pts = [{p: C.q2s(F(rng.randint(-3, 3), rng.choice([1, 2]))) for p in sp} for _ in range(2)]
        case = {"mdl": mdl, "history": hist, "points": pts, "pis": [{}, {}], "style": {}, "in_place": rng.random() < 0.5, "interp": {}, "expected_mdl": exp,
                "other_holder": rng.random() < 0.4 and not mdl["circuit"].get("circuits")}
        o = N.oracle_case(dict(case, mdl=exp))
        if "error" in o or o["bits"] > 46:
            continue
        return case
    raise C.HarnessError("generator could not produce an admissible case")


def impl(case):
    c = dict(case)
    c["mdl"] = dict(case["mdl"])
    c["mdl"].pop("post_values", None)
    return N.impl_vector_field(c)


def check(tier, seed, replay=None):
    rep = C.Report(PID, tier, seed)
    rng = random.Random(seed)
    proof_ok, detail = C.prepare_lean(rep)
    rep.cov["rule"] = ("random models whose nodes share NodeTemplate/OperatorTemplate objects + a history of 1-4 override operations: update_var on a single node, on 'all' "
                       "(scalar and per-node array values), values exactly 0, edge weight updates, circuits derived with update_template(edges=...) followed by an edge update on "
                       "base or derived, apply-time node_values (scalar/array) on top of template-level values; observables: compiled argument values, initial state, dy at 2 points; "
                       "V stream: the update_var/node_values histories observed through run(vectorize=True) trajectories. "
                       "distinct = distinct (model, history); non-trivial = a shared template object is involved (some template id used by >= 2 nodes)")
    if replay:
        cases = [json.load(open(replay))["case"]]
    else:
        cases = [json.load(open(f))["case"] for f in sorted(glob.glob(os.path.join(C.VERIF, "corpus", PID, "*.json")))]
        cases += [gen_case(rng, tier) for _ in range(160 if tier == "quick" else 2500)]
    exp_cases = [dict(c, mdl=c["expected_mdl"]) for c in cases]
    orcs = [N.oracle_case(c) for c in exp_cases]
    res = C.run_forked(impl, cases, timeout=180)
    drv = C.Driver()
    bad = []
    for case, ec, im, orc in zip(cases, exp_cases, res, orcs):
        if "crash" in im:
            raise C.HarnessError("harness child crashed: " + str(im)[:800])
        ids = list(case["mdl"]["circuit"].get("nodes", {}).values())
        rep.count("history-" + "+".join(sorted({h[0] for h in case["history"]})), json.dumps(case, sort_keys=True), nontrivial=len(ids) != len(set(ids)) or bool(case["mdl"]["circuit"].get("circuits")))
        mres = [drv.ask(r)["results"][0] for r in N.model_request(ec, orc["flat"])]
        if [m.get("dy") for m in mres] != orc["dy"]:
            raise C.HarnessError("Lean model and oracle disagree: " + json.dumps(case)[:400])
        dev = c01.compare(ec, im, orc)
        if im.get("other_holder_changed"):
            dev = list(dev) + [("override-reached-a-template-held-by-another-circuit", {"nodes": im["other_holder_changed"]})]
        if dev:
            bad.append((case, im, dev))
        else:
            rep.validated()
    # V stream: the same histories observed through run(vectorize=True) - per-node values travel as vectors there
    vbad = []
    if not replay:
        from . import c04
        vc_all = []
        for case in cases:
            if all(h[0] in ("update_var", "node_values") for h in case["history"]) and not case["mdl"]["circuit"].get("circuits") and len(vc_all) < (60 if tier == "quick" else 800):
                flat_e = M.flatten(case["expected_mdl"])
                sp = M.state_paths(flat_e)
                vc = {"mdl": {k: v for k, v in case["mdl"].items() if k != "post_values"}, "history": case["history"], "expected_mdl": case["expected_mdl"],
                      "run": {"T": "1", "dt": "1/2", "solver": "euler", "vectorize": True, "outputs": {f"v{i}": p for i, p in enumerate(sp)}}, "style": {}, "in_place": case.get("in_place", True)}
                vo = N.oracle_traj(dict(vc, mdl=case["expected_mdl"]))
                if "error" not in vo and vo["bits"] <= 46:
                    vc_all.append((vc, vo))
        vres = C.run_forked(N.impl_run, [v[0] for v in vc_all], timeout=240)
        kf_on = any(f.get("id") == "C07-inherits-C04-regions" and f.get("status") == "known" for f in C.load_known_findings())
        for (vc, vo), vi in zip(vc_all, vres):
            if "crash" in vi:
                raise C.HarnessError("harness child crashed (V stream): " + str(vi)[:600])
            rep.count("V-vectorized-run-history-" + "+".join(sorted({h[0] for h in vc["history"]})), json.dumps(vc, sort_keys=True), nontrivial=True)
            vdev = c04.deviations(vc, vi, vo)
            if not vdev:
                rep.validated()
            elif kf_on and any(pred(dict(vc, mdl=vc["expected_mdl"]), "vec", vi, vdev) for pred, _ in c04.KNOWN.values()):
                rep.known_finding("C07-inherits-C04-regions: vectorize=True inside a region of a C04 known finding")
            else:
                vbad.append((vc, vi, vdev))
    drv.close()
    rep.sample({"history": cases[-1]["history"], "nodes": cases[-1]["mdl"]["circuit"].get("nodes"), "impl_args": res[-1].get("args")})
    rep.cov["streams"]["impl_vs_spec_disagreements"] = len(bad)
    if bad:
        case, im, dev = min(bad, key=lambda x: len(json.dumps(x[0]["mdl"])) + 50 * len(x[0]["history"]))
        rep.violation(f"an override did not reach exactly its targets ({dev[0][0]})", {"case": {k: v for k, v in case.items() if k != 'expected_mdl'}, "impl": im, "deviations": dev[:4]})
    if vbad:
        vc, vi, vdev = min(vbad, key=lambda x: len(json.dumps(x[0]["mdl"])))
        rep.violation(f"vectorize=True: an override did not reach exactly its targets ({vdev[0][0]})", {"case": {k: v for k, v in vc.items() if k != "expected_mdl"}, "impl": vi, "deviations": vdev[:4]})
    if not bad and not vbad and not proof_ok:
        why = {"proof_ok": proof_ok, "build_log_tail": detail["build_log_tail"], "forbidden": detail["forbidden"],
               "audit_failures": (detail["audit"] or {}).get("failures"), "broken": "theorems of PyRatesModel.Props.C07 (build/audit)"}
        rep.violation("C07 is no longer shown to hold: " + why["broken"], why, no_input=True, name="unproved")
    return rep.finish()
