"""C16 — Population/Connectivity equals the explicit node-and-edge network.

Proof: lean/PyRatesModel/Props/C16.lean over lean/PyRatesModel/Pop/Matrix.lean - a weight matrix delivers to every target unit exactly what the scalar
edges of the non-zero entries of its row deliver (any shape, zeros, signs), also with a coupling function per (target, source) pair; a scalar weight is the
all-to-all network.
Correspondence (exact, dyadic data, float64): random circuits of 1-3 populations (1-4 units, per-unit parameters and initial values given as scalars or
lists) connected by Connectivity objects (rectangular sparse signed matrices, scalar weights, several connections into one target variable, self
connections, algebraic coupling edge templates reading the source and a post-synaptic variable, discrete delays, delay+spread, dde_approx); run(euler);
every unit's trajectory is compared exactly with the Lean trajectory (and a Fraction oracle) of the explicitly written network: one node per unit, one
scalar edge per non-zero matrix entry (one edge node per pair for coupling templates), delays as on scalar edges (C09), spreads as gamma chains (C11)."""
import random, json, os, glob, warnings, copy
from fractions import Fraction as F
import numpy as np
from .. import common as C
from .. import mdl as M, netcheck as N
from . import c11

PID = "C16"


def gen_case(rng, tier, stage=None):
    for _ in range(300):
        # operators: leaky integrator with 1-2 inputs, optionally a second state variable
        ops, nts = {}, {}
        n_t = rng.randint(1, 2)
        for k in range(n_t):
            two = rng.random() < 0.4
            vars_ = {"x": {"decl": "output", "value": str(F(rng.randint(-3, 3), 2))}, "a": {"decl": "const", "value": str(F(rng.randint(0, 3), 2))},
                     "k": {"decl": "const", "value": str(F(rng.choice([1, 2, -1]), rng.choice([1, 2])))}, "r_in": {"decl": "input", "value": "0"}}
            eqs = [{"lhs": "x", "de": True, "rhs": M.add(M.mul(M.num(-1), M.mul(M.var("a"), M.var("x"))), M.mul(M.var("k"), M.var("r_in")))}]
            if two:
                vars_["z"] = {"decl": "var", "value": str(F(rng.randint(-2, 2), 2))}
                vars_["s_in"] = {"decl": "input", "value": "0"}
                eqs.append({"lhs": "z", "de": True, "rhs": M.add(M.sub(M.var("x"), M.var("z")), M.var("s_in"))})
            ops[f"O{k}"] = {"name": f"li{k}", "eqs": eqs, "vars": vars_}
            nts[f"N{k}"] = {"name": f"nt{k}", "ops": [f"O{k}"]}
        n_p = rng.randint(1, 3)
        pops = {}
        for name in rng.sample(["p", "q", "e", "inh"], n_p):
            ntid = rng.choice(sorted(nts))
            op = ops[nts[ntid]["ops"][0]]
            n = rng.choice([1, 2, 3, 4])
            params = {}
            for v, d in op["vars"].items():
                if d["decl"] in ("const", "output", "var") and rng.random() < 0.5:
                    if rng.random() < 0.6:
                        params[f"{op['name']}/{v}"] = [str(F(rng.randint(-3, 3), rng.choice([1, 2]))) for _ in range(n)]
                    else:
                        params[f"{op['name']}/{v}"] = str(F(rng.randint(-3, 3), rng.choice([1, 2])))
            pops[name] = {"nt": ntid, "n": n, "params": params}
        cross = stage == "edge-cross"
        if cross:
            # two populations built from the same node template with the same number of units: a coupling edge between them reads the
            # pre-synaptic x of one and the post-synaptic x of the other (same operator and variable name on both sides)
            a_, b_ = rng.sample(["p", "q", "e", "inh"], 2)
            ntid = rng.choice(sorted(nts))
            op = ops[nts[ntid]["ops"][0]]
            n = rng.choice([2, 3])
            pops = {nm: {"nt": ntid, "n": n, "params": {f"{op['name']}/x": [str(F(rng.randint(-3, 3), rng.choice([1, 2]))) for _ in range(n)]}} for nm in (a_, b_)}
            if pops[a_]["params"] == pops[b_]["params"]:
                continue
        conns = []
        used_pairs = set()
        if cross:
            conns.append({"src": f"{a_}/{op['name']}/x", "tgt": f"{b_}/{op['name']}/r_in",
                          "W": [[str(F(rng.choice([0, 1, 2, -1, 3]), rng.choice([1, 2]))) for _ in range(n)] for _ in range(n)]})
            used_pairs.add((conns[0]["src"], conns[0]["tgt"]))
        for _ in range(rng.randint(0 if cross else 1, 1 if cross else 4)):
            sp_, tp_ = rng.choice(sorted(pops)), rng.choice(sorted(pops))
            sop, top = ops[nts[pops[sp_]["nt"]]["ops"][0]], ops[nts[pops[tp_]["nt"]]["ops"][0]]
            svar = rng.choice([v for v, d in sop["vars"].items() if d["decl"] in ("output", "var")])
            tvar = rng.choice([v for v, d in top["vars"].items() if d["decl"] == "input"])
            key = (f"{sp_}/{sop['name']}/{svar}", f"{tp_}/{top['name']}/{tvar}")
            if key in used_pairs:
                continue        # two Connectivity objects between the same pair of variables are refused by PyRates
            used_pairs.add(key)
            ns, nt_ = pops[sp_]["n"], pops[tp_]["n"]
            cn = {"src": key[0], "tgt": key[1]}
            if rng.random() < 0.3:
                cn["scalar"] = str(F(rng.choice([-2, -1, 1, 2, 3]), rng.choice([1, 2])))
            else:
                cn["W"] = [[str(F(rng.choice([0, 0, 1, 2, -1, 3]), rng.choice([1, 2]))) for _ in range(ns)] for _ in range(nt_)]
            conns.append(cn)
        same_src = stage is None and rng.random() < 0.25
        if same_src:
            # 2-3 connections leave ONE source variable (towards different target variables): each must keep its own delay / kernel
            sp_ = rng.choice(sorted(pops))
            sop = ops[nts[pops[sp_]["nt"]]["ops"][0]]
            svar = "x"
            tgts = []
            for tp_ in sorted(pops):
                top = ops[nts[pops[tp_]["nt"]]["ops"][0]]
                for tv in [v for v, d in top["vars"].items() if d["decl"] == "input"]:
                    tgts.append((tp_, top["name"], tv))
            rng.shuffle(tgts)
            conns = []
            for tp_, ton, tv in tgts[:rng.choice([2, 3, 3])]:
                ns, nt_ = pops[sp_]["n"], pops[tp_]["n"]
                conns.append({"src": f"{sp_}/{sop['name']}/{svar}", "tgt": f"{tp_}/{ton}/{tv}",
                              "W": [[str(F(rng.choice([0, 1, 2, -1, 3]), rng.choice([1, 2]))) for _ in range(ns)] for _ in range(nt_)]})
            if len(conns) < 2:
                continue
        if not conns:
            continue
        dt = F(1, 8)
        steps = rng.choice([3, 4, 5])
        case = {"ops": ops, "node_templates": nts, "pops": pops, "conns": conns, "dde": 0,
                "run": {"T": C.q2s(dt * steps), "dt": C.q2s(dt), "solver": "euler"}}
        st = stage or rng.choice(["plain", "plain", "edge", "dynedge", "delay", "delay", "gamma"])
        if same_src:
            st = rng.choice(["delay", "gamma", "chain"])
        case["stage"] = st
        case["second_run"] = rng.random() < 0.3
        if st in ("edge", "edge-cross"):
            # algebraic coupling template reading the pre-synaptic value and a post-synaptic variable
            cn = conns[0] if cross else rng.choice([c for c in conns if "W" in c] or [None])
            if cn is None:
                continue
            tp_ = cn["tgt"].split("/")[0]
            top = ops[nts[pops[tp_]["nt"]]["ops"][0]]
            post = f"{tp_}/{top['name']}/x"
            cw = str(F(rng.choice([1, 2, -1]), rng.choice([1, 2])))
            ops["E"] = {"name": "cpl", "eqs": [{"lhs": "s", "de": False, "rhs": M.sub(M.mul(M.var("g"), M.var("pre")), M.var("post"))}],
                        "vars": {"s": {"decl": "output", "value": "0"}, "pre": {"decl": "input", "value": "0"}, "post": {"decl": "input", "value": "0"}, "g": {"decl": "const", "value": cw}}}
            cn["edge"] = {"op": "E", "name": "cpl_edge", "var_map": {"pre": "source", "post": post}}
        elif st == "dynedge":
            # dynamic coupling templates: one low-pass state per (target, source) pair; two connections use the SAME operator with different constants
            mats = [c for c in conns if "W" in c]
            if not mats:
                continue
            ops["D"] = {"name": "lp", "eqs": [{"lhs": "u", "de": True, "rhs": M.mul(M.var("kk"), M.sub(M.var("pre"), M.var("u")))}, {"lhs": "s", "de": False, "rhs": M.var("u")}],
                        "vars": {"u": {"decl": "var", "value": "0"}, "pre": {"decl": "input", "value": "0"}, "kk": {"decl": "const", "value": "2"}, "s": {"decl": "output", "value": "0"}}}
            same_name = rng.random() < 0.5          # two re-parametrised copies of one edge template that keep its name
            k0 = rng.randint(0, 3)
            for k, cn in enumerate(mats[:2]):
                cn["edge"] = {"op": "D", "name": (f"lp_edge{k}" if not same_name else "lp_edge"), "var_map": {"pre": "source"}, "values": {"kk": str(F([1, 2, 4, 6][(k0 + 2 * k) % 4], 1))}}
        elif st == "delay" and same_src:
            ds_ = rng.sample([2, 3, 4, 5], 2)
            pattern = [ds_[0], ds_[1], ds_[1]]          # a repeated delay that is not the first one's
            for cn, k_ in zip(conns, pattern):
                cn["delay"] = C.q2s(dt * k_)
            case["stage"] = "delay-same-source"
        elif st == "chain" and same_src:
            # chains of a fixed order (dde_approx) keep their delay in time units: two delays that round to the same number of steps are two kernels
            case["dde"] = 3
            dt = F(1, 4)
            case["run"] = {"T": C.q2s(dt * steps), "dt": C.q2s(dt), "solver": "euler"}
            for cn, d in zip(conns, rng.sample([F(1, 2), F(3, 8)], 2) + [F(3, 4)]):
                cn["delay"] = C.q2s(d)
            case["stage"] = "chain-same-source"
        elif st == "gamma" and same_src:
            for cn, (d, s_) in zip(conns, rng.sample(c11.DS, len(conns))):
                cn["delay"], cn["spread"] = C.q2s(d), C.q2s(s_)
            case["stage"] = "gamma-same-source"
        elif st == "delay":
            if rng.random() < 0.4:
                case["dde"] = rng.choice([2, 3])
            for cn in conns:
                if rng.random() < 0.7:
                    # whole and fractional numbers of steps (round(d/dt) >= 2, incl. values in [1.5, 2) steps and half-even ties)
                    cn["delay"] = C.q2s(dt * rng.choice([2, 3, 4, F(7, 4), F(9, 4), F(5, 2), F(7, 2)]))
                    if rng.random() < 0.3:
                        cn["spread"] = "0"          # an explicit spread of zero is a pure delay, as on scalar edges
        elif st == "gamma":
            for cn in conns:
                if rng.random() < 0.7:
                    d, s = rng.choice(c11.DS)
                    cn["delay"], cn["spread"] = C.q2s(d), C.q2s(s)
        try:
            flat = explicit_flat(case)
            aug, info = c11.expand(flat, case["dde"], path="matrix")
            rows, mb = c11.oracle_traj_flat(aug, case["run"])
        except (ValueError, RecursionError):
            continue
        if mb > 50:
            continue
        return case
    raise C.HarnessError("C16 generator could not produce an admissible case")


def explicit_flat(case):
    """the explicitly written network: one node per unit, one scalar edge per non-zero entry (an edge node per pair for coupling templates)"""
    ops, nts = case["ops"], case["node_templates"]
    nodes, edges = [], []
    for pname, p in case["pops"].items():
        op = ops[nts[p["nt"]]["ops"][0]]
        for i in range(p["n"]):
            vs, output = [], None
            for v, d in op["vars"].items():
                val = d["value"]
                pv = p["params"].get(f"{op['name']}/{v}")
                if pv is not None:
                    val = pv[i] if isinstance(pv, list) else pv
                vs.append({"name": v, "decl": "input" if d["decl"] == "input" else "other", "value": str(F(val))})
                if d["decl"] == "output":
                    output = v
            nodes.append({"path": f"{pname}#{i}", "ops": [{"name": op["name"], "output": output, "vars": vs, "eqs": op["eqs"]}]})
    for ci, cn in enumerate(case["conns"]):
        sp_, so, sv = cn["src"].split("/")
        tp_, to, tv = cn["tgt"].split("/")
        ns, nt_ = case["pops"][sp_]["n"], case["pops"][tp_]["n"]
        W = [[F(cn["scalar"])] * ns for _ in range(nt_)] if "scalar" in cn else [[F(w) for w in row] for row in cn["W"]]
        for i in range(nt_):
            for j in range(ns):
                if W[i][j] == 0:
                    continue
                if cn.get("edge"):
                    eo = ops[cn["edge"]["op"]]
                    epath = f"__cpl{ci}_{i}_{j}"
                    vs, output = [], None
                    for v, d in eo["vars"].items():
                        vs.append({"name": v, "decl": "input" if d["decl"] == "input" else "other", "value": str(F((cn["edge"].get("values") or {}).get(v, d["value"])))})
                        if d["decl"] == "output":
                            output = v
                    nodes.append({"path": epath, "ops": [{"name": eo["name"], "output": output, "vars": vs, "eqs": eo["eqs"]}], "is_edge": True})
                    for inp, srcspec in cn["edge"]["var_map"].items():
                        if srcspec == "source":
                            edges.append({"src": [f"{sp_}#{j}", so, sv], "tgt": [epath, eo["name"], inp], "w": "1"})
                        else:
                            pp, po, pv = srcspec.split("/")
                            edges.append({"src": [f"{pp}#{i}", po, pv], "tgt": [epath, eo["name"], inp], "w": "1"})
                    edges.append({"src": [epath, eo["name"], output], "tgt": [f"{tp_}#{i}", to, tv], "w": str(W[i][j])})
                else:
                    e = {"src": [f"{sp_}#{j}", so, sv], "tgt": [f"{tp_}#{i}", to, tv], "w": str(W[i][j])}
                    if cn.get("delay") is not None:
                        e["delay"] = cn["delay"]
                    if cn.get("spread") is not None and F(cn["spread"]) != 0:
                        e["spread"] = cn["spread"]
                    edges.append(e)
    return {"nodes": nodes, "edges": edges}


def impl_pop(case):
    from pyrates import OperatorTemplate, NodeTemplate, CircuitTemplate, EdgeTemplate
    from pyrates.frontend.template.population import PopulationTemplate, Connectivity
    with M.Scratch():
        with warnings.catch_warnings():
            warnings.simplefilter("ignore")
            try:
                ops = {k: OperatorTemplate(name=o["name"], equations=[M.eq_string(e) for e in o["eqs"]], variables={v: M.var_spec(d) for v, d in o["vars"].items()}, path=None)
                       for k, o in case["ops"].items()}
                nts = {k: NodeTemplate(name=t["name"], operators=[ops[o] for o in t["ops"]], path=None) for k, t in case["node_templates"].items()}
                pops = {}
                for name, p in case["pops"].items():
                    params = {k: ([float(F(x)) for x in v] if isinstance(v, list) else float(F(v))) for k, v in p["params"].items()}
                    pops[name] = PopulationTemplate(name=name, node=nts[p["nt"]], n=p["n"], params=params)
                conns = []
                for cn in case["conns"]:
                    kw = {}
                    if cn.get("edge"):
                        vals = {k: float(F(v)) for k, v in (cn["edge"].get("values") or {}).items()}
                        kw["edge"] = EdgeTemplate(name=cn["edge"]["name"], operators=({ops[cn["edge"]["op"]]: vals} if vals else [ops[cn["edge"]["op"]]]), path=None)
                        kw["edge_var_map"] = dict(cn["edge"]["var_map"])
                    if cn.get("delay") is not None:
                        kw["delays"] = float(F(cn["delay"]))
                    if cn.get("spread") is not None:
                        kw["spread"] = float(F(cn["spread"]))
                    w = float(F(cn["scalar"])) if "scalar" in cn else np.array([[float(F(x)) for x in row] for row in cn["W"]])
                    conns.append(Connectivity(source=cn["src"], target=cn["tgt"], weights=w, **kw))
                c = CircuitTemplate(name="net", populations=pops, connections=conns)
                outputs, okeys = {}, {}
                for name, p in case["pops"].items():
                    op = case["ops"][case["node_templates"][p["nt"]]["ops"][0]]
                    for v, d in op["vars"].items():
                        if any(e["lhs"] == v and e["de"] for e in op["eqs"]):
                            key = f"o_{name}_{v}"
                            outputs[key] = f"{name}/{op['name']}/{v}"
                            okeys[key] = [name, op["name"], v]
                rc = case["run"]
                kw = {}
                if case.get("dde"):
                    kw["dde_approx"] = case["dde"]
                res = c.run(simulation_time=float(F(rc["T"])), step_size=float(F(rc["dt"])), solver=rc["solver"], outputs=outputs, verbose=False,
                            float_precision="float64", clear=True, **kw)
                if case.get("second_run"):
                    # the same template objects compiled and simulated once more in the same process: the populations keep their per-unit values
                    res = c.run(simulation_time=float(F(rc["T"])), step_size=float(F(rc["dt"])), solver=rc["solver"], outputs=outputs, verbose=False,
                                float_precision="float64", clear=True, **kw)
                cols = []
                for j, col in enumerate(res.columns):
                    label = [str(x) for x in col] if isinstance(col, tuple) else [str(col)]
                    cols.append([label, [C.f2s(x) for x in res.values[:, j]]])
                return {"cols": cols, "okeys": okeys, "index": [C.f2s(t) for t in res.index.values]}
            except Exception as e:
                return {"error": type(e).__name__, "msg": str(e)[:300]}


def check(tier, seed, replay=None):
    rep = C.Report(PID, tier, seed)
    rng = random.Random(seed)
    proof_ok, detail = C.prepare_lean(rep)
    rep.cov["rule"] = __doc__.split("Correspondence")[1][:1400]
    if replay:
        cases = [json.load(open(replay))["case"]]
    else:
        cases = [json.load(open(f))["case"] for f in sorted(glob.glob(os.path.join(C.VERIF, "corpus", PID, "*.json")))]
        cases += [gen_case(rng, tier) for _ in range(80 if tier == "quick" else 1200)]
        cases += [gen_case(rng, tier, stage="edge-cross") for _ in range(6 if tier == "quick" else 80)]
    impl = C.run_forked(impl_pop, cases, timeout=300)
    drv = C.Driver()
    bad = []
    active_kf = {f["id"] for f in C.load_known_findings() if f.get("property") == PID and f.get("status") == "known"}
    for case, im in zip(cases, impl):
        if "crash" in im:
            raise C.HarnessError("harness child crashed: " + str(im)[:800])
        flat = explicit_flat(case)
        aug, info = c11.expand(flat, case.get("dde", 0), drv, path="matrix")
        rows, _ = c11.oracle_traj_flat(aug, case["run"])
        rc = {"mdl": None, "run": case["run"], "ext_inputs": [], "interp": {}}
        mo = drv.ask(N.model_traj_request(rc, aug))
        if mo.get("rows") != rows:
            raise C.HarnessError("Lean trajectory of the explicit network and the Fraction oracle disagree: " + json.dumps(case)[:400])
        kinds = sorted({"scalar" if "scalar" in c else "matrix" for c in case["conns"]})
        nmax = max(p["n"] for p in case["pops"].values())
        rep.count(case.get("stage", "plain") + "-" + "+".join(kinds) + ("-2ndrun" if case.get("second_run") else ""), json.dumps(case, sort_keys=True), nontrivial=nmax >= 2 and len(case["conns"]) >= 2)
        if "error" in im:
            kf = [k for k, (pred, _) in KNOWN.items() if k in active_kf and pred(case, im, None)]
            if kf:
                rep.known_finding(f"{kf[0]}: {KNOWN[kf[0]][1]}")
                continue
            bad.append((case, [("raises", im)]))
            continue
        dev = []
        got = {}
        for label, vals in im["cols"]:
            got.setdefault(label[0], {})[int(float(label[1])) if len(label) > 1 and label[1] not in ("nan", "") else 0] = vals
        for key, (pn, on, vn) in im["okeys"].items():
            n = case["pops"][pn]["n"]
            for i in range(n):
                exp = [r[f"{pn}#{i}/{on}/{vn}"] for r in rows]
                g = got.get(key, {}).get(i)
                if g != exp:
                    k0 = next((k for k in range(min(len(exp), len(g or []))) if g[k] != exp[k]), None)
                    dev.append(("unit-trajectory-differs-from-the-explicit-network", {"population": pn, "unit": i, "variable": f"{on}/{vn}", "first_wrong_sample": k0,
                                                                                      "got": (g or [None])[k0] if k0 is not None else g, "expected": exp[k0] if k0 is not None else exp}))
                    break
            if dev:
                break
        if dev:
            kf = [k for k, (pred, _) in KNOWN.items() if k in active_kf and pred(case, im, dev)]
            if kf:
                rep.known_finding(f"{kf[0]}: {KNOWN[kf[0]][1]}")
                continue
            bad.append((case, dev))
        else:
            rep.validated()
    drv.close()
    rep.cov["streams"]["cases_with_deviations"] = len(bad)
    if os.environ.get("VERIF_DEBUG"):
        for case, dev in bad:
            json.dump({"case": case}, open(f"/tmp/lt/c16/bad_{dev[0][0][:6]}_{abs(hash(json.dumps(case, sort_keys=True))) % 10000}.json", "w"))
            print("DEBUG", case.get("stage"), dev[0][0], json.dumps(dev[0][1])[:160], [(("scalar" if "scalar" in c else "W"), c.get("delay"), c.get("spread"), bool(c.get("edge"))) for c in case["conns"]],
                  {k: p["n"] for k, p in case["pops"].items()})
    if cases:
        rep.sample({"pops": {k: p["n"] for k, p in cases[-1]["pops"].items()}, "conns": [{k: v for k, v in c.items() if k != "edge"} for c in cases[-1]["conns"]][:2]})
    if bad:
        case, dev = min(bad, key=lambda x: len(json.dumps(x[0])))
        rep.violation(f"a population circuit does not behave as the explicit node-and-edge network ({dev[0][0]})", {"case": case, "deviations": dev[:4]})
    elif not proof_ok:
        why = {"proof_ok": proof_ok, "build_log_tail": detail["build_log_tail"], "forbidden": detail["forbidden"],
               "audit_failures": (detail["audit"] or {}).get("failures"), "broken": "theorems of PyRatesModel.Props.C16 (build/audit)"}
        rep.violation("C16 is no longer shown to hold: " + why["broken"], why, no_input=True, name="unproved")
    return rep.finish()


def _n(case, path):
    return case["pops"][path.split("/")[0]]["n"]


# all findings of this property have been repaired in /repo (see known_findings.json, status fixed): nothing is suppressed
KNOWN = {}
