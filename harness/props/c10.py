"""C10 — delayed terms read the true past of the trajectory.

Proof: lean/PyRatesModel/Props/C10.lean over the model lean/PyRatesModel/Delay/DDE.lean (generated function = one history read per delayed term, then the
body; _solve_euler/_solve_heun with the history update after every step) on top of the DDEHistory model of C19: after i Euler steps the history holds
exactly the computed states at the grid times (invariant), a read `m` steps back is component idx of y_{i-m} (y_0 before the start), off-grid reads are
the linear interpolant of the neighbouring computed states, the whole run equals the explicitly written recurrence (method of steps); the time-unit
convention of the emitted history read is a regenerated table.
Correspondence (exact, dyadic data, float64):
  R  run(): random delayed networks (past(x,d) and x(t-d) terms, products with delayed factors, delayed edges are not used with fixed-step solvers here -
     that is C09) under euler and heun, sampling step = 1x / 2x the step, delays on and off the grid and below one step; every stored sample compared with
     the Lean model run (driver `dde`) and an independent Fraction oracle; optional user-supplied history (run(hist=...)).
  F  get_run_func(solver='scipy') on networks with delayed terms AND delayed edges: the compiled function is called with a prepared history (records at
     dyadic times, queried before the first, at, between and after the records) - dy compared exactly with the Lean model's `compiled`; the history is
     passed through the documented hist= keyword in half of the cases.
  A  adaptive run (solver='scipy'): trajectories of delayed networks vs a fine-step reference integration of the same delay equation (tolerance), incl.
     tiny delays that make the adaptive step exceed the lag."""
import random, json, os, glob, warnings, math, copy
from fractions import Fraction as F
import numpy as np
from .. import common as C
from .. import mdl as M, netcheck as N

PID = "C10"
VARS = ["x", "z", "r", "v", "u1", "w_"]
DT = F(1, 8)
DELAYS = [F(1, 8), F(1, 4), F(3, 8), F(1, 2), F(3, 16), F(1, 16), F(5, 16), F(3, 4)]


# ------------------------------------------------------------------ generator
def gen_model(rng, edges_delayed, linear):
    n_nodes = rng.choice([1, 1, 2, 3])
    n_tmpl = rng.randint(1, n_nodes)
    ops, nts = {}, {}
    for k in range(n_tmpl):
        svars = rng.sample(VARS, rng.choice([1, 1, 2, 2, 3]))
        vars_ = {}
        for i, s in enumerate(svars):
            vars_[s] = {"decl": "output" if i == 0 else "var", "value": str(F(rng.randint(-4, 4), rng.choice([1, 2, 4])))}
        vars_["inp"] = {"decl": "input", "value": "0"}
        consts = [f"c{j}" for j in range(rng.randint(1, 2))]
        for c in consts:
            vars_[c] = {"decl": "const", "value": str(F(rng.randint(-3, 3), rng.choice([1, 2])))}
        if rng.random() < 0.5:      # declaration order differs from the order of the equations
            items = list(vars_.items())
            rng.shuffle(items)
            vars_ = dict(items)
        eqs = []
        for i, s in enumerate(svars):
            rhs = M.mul(M.num(F(rng.randint(-2, 1), rng.choice([1, 2]))), M.var(s))
            for _ in range(rng.randint(1, 3)):
                u = rng.choice(svars)
                d = rng.choice(DELAYS)
                pt = M.call("past_t" if rng.random() < 0.5 else "past", M.var(u), M.num(d))
                kind = rng.random()
                coef = M.var(rng.choice(consts)) if rng.random() < 0.5 else M.num(F(rng.randint(-3, 3) or 1, rng.choice([1, 2])))
                if kind < 0.6 or linear:
                    t = M.mul(coef, pt)
                elif kind < 0.8:
                    t = M.mul(M.mul(coef, M.var(rng.choice(svars))), pt)        # instantaneous x delayed factor
                else:
                    t = M.mul(coef, M.mul(pt, M.call("past", M.var(rng.choice(svars)), M.num(rng.choice(DELAYS)))))   # two delayed factors
                rhs = M.add(rhs, t) if rng.random() < 0.7 else M.sub(rhs, t)
            if i == 0:
                rhs = M.add(rhs, M.var("inp"))
            eqs.append({"lhs": s, "de": True, "rhs": rhs})
        ops[f"O{k}"] = {"name": f"op{k}", "eqs": eqs, "vars": vars_}
        nts[f"N{k}"] = {"name": f"nt{k}", "ops": [f"O{k}"]}
    labels = rng.sample(["p", "q", "e1", "pop"], n_nodes)
    nodes = {lb: f"N{rng.randrange(n_tmpl) if i else 0}" for i, lb in enumerate(labels)}
    edges = []
    for _ in range(rng.randint(0, 2 * n_nodes)):
        s, t = rng.choice(labels), rng.choice(labels)
        so = ops["O" + nodes[s][1:]]
        to = ops["O" + nodes[t][1:]]
        sv = next(k for k, d in so["vars"].items() if d["decl"] == "output")
        e = {"src": f"{s}/{so['name']}/{sv}", "tgt": f"{t}/{to['name']}/inp", "w": str(F(rng.randint(-3, 3) or 2, rng.choice([1, 2])))}
        if edges_delayed and rng.random() < 0.7:
            e["delay"] = str(rng.choice(DELAYS))
            # two delayed edges between the same pair of variables are refused by PyRates (IndexError at compile time): not generated
            if any(x.get("delay") is not None and x["src"] == e["src"] and x["tgt"] == e["tgt"] for x in edges):
                continue
        edges.append(e)
    # PyRates refuses (IndexError while compiling) a pair of variables connected by a delayed edge and further parallel edges: such pairs keep the delayed edge only
    dsrc = {e["src"] for e in edges if e.get("delay") is not None}
    dpairs = {(e["src"], e["tgt"]) for e in edges if e.get("delay") is not None}
    seen, kept = set(), []
    for e in edges:
        k = (e["src"], e["tgt"])
        if e["src"] in dsrc:          # all edges leaving a variable with a delayed edge share one buffer: one edge per target there
            if (k in dpairs and e.get("delay") is None) or k in seen:
                continue
            seen.add(k)
        kept.append(e)
    return {"ops": ops, "node_templates": nts, "circuit": {"name": "net", "nodes": nodes, "edges": kept}}


def depast(flat):
    """flat circuit without delayed constructs + the list of delayed reads that feed it:
    past(x,d) -> a fresh input variable of the operator fed by the read (x, d, 1); delayed edge -> read (src, d, w) feeding the edge's target"""
    fl = copy.deepcopy(flat)
    reads = []
    for n in fl["nodes"]:
        for o in n["ops"]:
            k = [0]

            def walk(e):
                if e[0] == "call" and e[1] in ("past", "past_t"):
                    ph = f"{e[2][0][1]}__p{k[0]}"
                    k[0] += 1
                    o["vars"].append({"name": ph, "decl": "input", "value": "0"})
                    reads.append({"tgt": [n["path"], o["name"], ph], "src": [n["path"], o["name"], e[2][0][1]], "delay": e[2][1][1], "w": "1"})
                    return ["var", ph]
                if e[0] in ("add", "sub", "mul"):
                    return [e[0], walk(e[1]), walk(e[2])]
                if e[0] == "neg":
                    return ["neg", walk(e[1])]
                if e[0] == "pow":
                    return ["pow", walk(e[1]), e[2]]
                return e
            o["eqs"] = [dict(q, rhs=walk(q["rhs"])) for q in o["eqs"]]
    keep = []
    for e in fl["edges"]:
        if e.get("delay") is not None:
            reads.append({"tgt": e["tgt"], "src": e["src"], "delay": e["delay"], "w": e["w"]})
        else:
            keep.append(e)
    fl["edges"] = keep
    return fl, reads


# ------------------------------------------------------------------ independent oracle
def interp_hist(recs, tq):
    """piecewise-linear continuation of the records [(t, {path: F})], constant outside"""
    if tq <= recs[0][0]:
        return recs[0][1]
    if tq >= recs[-1][0]:
        return recs[-1][1]
    lo, hi = 0, len(recs) - 1
    while hi - lo > 1:
        mid = (lo + hi) // 2
        if recs[mid][0] <= tq:
            lo = mid
        else:
            hi = mid
    (t0, a), (t1, b) = recs[lo], recs[lo + 1]
    al = (tq - t0) / (t1 - t0)
    return {p: a[p] + al * (b[p] - a[p]) for p in a}


def field_with_reads(fl, reads, sigma, recs, t):
    f2 = dict(fl, nodes=list(fl["nodes"]), edges=list(fl["edges"]))
    for i, r in enumerate(reads):
        val = F(r["w"]) * interp_hist(recs, t - F(r["delay"]))["/".join(r["src"])]
        f2["nodes"].append({"path": f"__rd{i}", "ops": [{"name": "e", "output": "u", "vars": [{"name": "u", "decl": "other", "value": str(val)}], "eqs": []}]})
        f2["edges"].append({"src": [f"__rd{i}", "e", "u"], "tgt": r["tgt"], "w": "1"})
    return M.oracle_eval(f2, sigma, {})[1]


def oracle_run(flat, solver, dt, steps, pre=None, num=F):
    fl, reads = depast(flat)
    sp = M.state_paths(fl)
    init = {}
    for n in fl["nodes"]:
        for o in n["ops"]:
            for d in o["vars"]:
                init[f"{n['path']}/{o['name']}/{d['name']}"] = F(d["value"])
    sigma = {p: init[p] for p in sp}
    recs = [(F(0), dict(sigma) if pre is None else {p: F(pre[p]) for p in sp})]
    rows, mb = [], 0
    for i in range(steps):
        rows.append(dict(sigma))
        t = i * dt
        k1 = field_with_reads(fl, reads, sigma, recs, t)
        if solver == "euler":
            sigma = {p: sigma[p] + dt * k1[p] for p in sp}
        else:
            s1 = {p: sigma[p] + dt * k1[p] for p in sp}
            k2 = field_with_reads(fl, reads, s1, recs, t)
            sigma = {p: sigma[p] + dt / 2 * (k1[p] + k2[p]) for p in sp}
        recs.append(((i + 1) * dt, dict(sigma)))
        mb = max([mb] + [N.bits(v) for v in sigma.values()] + [N.bits(v) for v in k1.values()])
    return rows, mb


def gen_run_case(rng, tier):
    for _ in range(200):
        linear = rng.random() < 0.7
        mdl = gen_model(rng, edges_delayed=False, linear=linear)
        vectorize = rng.random() < 0.5
        flat = M.flatten(mdl)
        sp = M.state_paths(flat)
        if vectorize:
            # edges that leave algebraic variables are inside C04's known region for merged groups (stale value): vectorized cases keep edges from state variables only
            mdl["circuit"]["edges"] = [e for e in mdl["circuit"]["edges"] if e["src"] in sp]
            flat = M.flatten(mdl)
        if len(set(sp)) != len(sp):
            continue
        solver = rng.choice(["euler", "euler", "heun"])
        steps = rng.choice([4, 6, 8]) if linear else rng.choice([2, 3])
        mult = rng.choice([1, 1, 2]) if steps % 2 == 0 else 1     # (two steps sampled every second step: a single stored row)
        pre = None
        if rng.random() < 0.25:
            pre = {p: C.q2s(F(rng.randint(-4, 4), rng.choice([1, 2]))) for p in sp}
        try:
            rows, mb = oracle_run(flat, solver, DT, steps, pre)
        except (ValueError, RecursionError):
            continue
        if mb > 48:
            continue
        return {"kind": "run", "mdl": mdl, "solver": solver, "steps": steps, "dts_mult": mult, "pre": pre, "vectorize": vectorize and pre is None,
                "in_place": rng.random() < 0.5}
    raise C.HarnessError("C10 generator could not produce an admissible run case")


def gen_func_case(rng, tier):
    for _ in range(200):
        mdl = gen_model(rng, edges_delayed=True, linear=rng.random() < 0.5)
        flat = M.flatten(mdl)
        sp = M.state_paths(flat)
        if len(set(sp)) != len(sp):
            continue
        fl, reads = depast(flat)
        if not reads:
            continue
        # a prepared history: records at increasing dyadic times
        nrec = rng.randint(1, 5)
        ts = [F(0)]
        for _ in range(nrec - 1):
            ts.append(ts[-1] + rng.choice([F(1, 8), F(1, 4), F(1, 2), F(1, 4)]))   # powers of two: the interpolation weight is exact in float64
        recs = [[C.q2s(t), {p: C.q2s(F(rng.randint(-6, 6), rng.choice([1, 2]))) for p in sp}] for t in ts]
        calls = []
        for _ in range(3):
            t = rng.choice([ts[-1] + F(1, 4), ts[-1], ts[0], ts[0] + F(1, 16), rng.choice(ts) + rng.choice(DELAYS), ts[-1] + F(3, 2), rng.choice(ts) + F(1, 16),
                            ts[-1] + rng.choice(DELAYS)])
            calls.append({"t": C.q2s(t), "y": {p: C.q2s(F(rng.randint(-4, 4), rng.choice([1, 2]))) for p in sp}})
        return {"kind": "func", "mdl": mdl, "records": recs, "calls": calls, "via_kwarg": rng.random() < 0.5, "vectorize": rng.random() < 0.3, "hist_wrapper": rng.random() < 0.4}
    raise C.HarnessError("C10 generator could not produce an admissible function case")


# ------------------------------------------------------------------ implementation side
def layout_positions(c, smap, sp):
    """frontend state-variable path -> position in the state vector (vectorized layouts return ranges per merged variable)"""
    if all(isinstance(v, (int, np.integer)) for v in smap.values()) and set(smap) == set(sp):
        return {p: int(i) for p, i in smap.items()}
    omap, _ = c.get_variable_positions({p: p for p in sp})
    out = {}
    for p in sp:
        v = omap.get(p)
        v = np.asarray(v).reshape(-1)
        if len(v) != 1:
            raise C.HarnessError("cannot resolve the position of " + p)
        out[p] = int(v[0])
    return out


def impl_case(case):
    from pyrates.backend.base.base_backend import DDEHistory
    mdl = case["mdl"]
    flat = M.flatten(mdl)
    sp = M.state_paths(flat)
    with M.Scratch():
        with warnings.catch_warnings():
            warnings.simplefilter("ignore")
            try:
                c, _, _ = M.build_pyrates(mdl)
                if case["kind"] == "run":
                    steps, dt = case["steps"], float(DT)
                    kw = dict(simulation_time=steps * dt, step_size=dt, sampling_step_size=dt * case["dts_mult"], solver=case["solver"],
                              outputs={p: p for p in sp}, vectorize=case["vectorize"], float_precision="float64", verbose=False, clear=True,
                              in_place=case.get("in_place", True))
                    if case.get("pre"):
                        # the documented way to supply a history: hist=DDEHistory(pre-history state in the order of the state vector)
                        f0, a0, n0, smap = c.get_run_func("probe", step_size=dt, solver=case["solver"], vectorize=case["vectorize"], float_precision="float64", verbose=False,
                                                          clear=True, in_place=case.get("in_place", True))
                        y_pre = np.zeros(len(np.asarray(a0[1])))
                        for p, idx in smap.items():
                            if isinstance(idx, (tuple, list)):
                                raise C.HarnessError("vector-valued layout entry")
                            y_pre[idx] = float(F(case["pre"][p]))
                        from pyrates import clear_frontend_caches
                        clear_frontend_caches()
                        c, _, _ = M.build_pyrates(mdl)
                        kw["hist"] = DDEHistory(y_pre)
                    res = c.run(**kw)
                    cols = {}
                    for j, col in enumerate(res.columns):
                        label = col[0] if isinstance(col, tuple) else col
                        cols[str(label)] = [C.f2s(x) for x in res.values[:, j]]
                    return {"cols": cols, "index": [C.f2s(t) for t in res.index.values]}
                # function level
                recs = case["records"]
                kwargs = {}
                func, args, names, smap = c.get_run_func("ff", step_size=float(DT), solver="scipy", vectorize=case["vectorize"], float_precision="float64", verbose=False,
                                                         clear=False, in_place=True)
                n = len(np.asarray(args[1]))

                pos = layout_positions(c, smap, sp)

                def vec(d):
                    v = np.zeros(n)
                    for p, idx in pos.items():
                        v[idx] = float(F(d[p]))
                    return v
                h = DDEHistory(vec(recs[0][1]), t0=float(F(recs[0][0])))
                for t, d in recs[1:]:
                    h.update(float(F(t)), vec(d))
                if case["via_kwarg"]:
                    from pyrates import clear_frontend_caches
                    clear_frontend_caches()
                    c, _, _ = M.build_pyrates(mdl)
                    hsup = h
                    if case.get("hist_wrapper"):
                        class SizedHistory:
                            """a user's own history object: callable, and a sized container that is still empty (falsy) when the function is compiled"""
                            def __init__(self, inner): self.inner = inner
                            def __call__(self, t): return self.inner(t)
                            def __len__(self): return 0
                        hsup = SizedHistory(h)
                    func, args, names, smap = c.get_run_func("ff", step_size=float(DT), solver="scipy", vectorize=case["vectorize"], float_precision="float64", verbose=False,
                                                             clear=False, in_place=True, hist=hsup)
                    hist_arg = args[list(names).index("hist")]
                    if hist_arg is not h:
                        # a wrapper would be fine as long as it answers like the supplied history; it is used as returned
                        pass
                    call_args = list(args)
                else:
                    call_args = list(args)
                    call_args[list(names).index("hist")] = h
                out = []
                for cl in case["calls"]:
                    a = list(call_args)
                    y = vec(cl["y"])
                    r = func(float(F(cl["t"])), y, *a[2:])
                    r = np.asarray(r, dtype=float)
                    out.append({p: C.f2s(r[idx]) for p, idx in pos.items()})
                return {"dy": out, "names": list(names)}
            except C.HarnessError:
                raise
            except Exception as e:
                return {"error": type(e).__name__, "msg": str(e)[:300]}


# ------------------------------------------------------------------ adaptive runs against a fine-step reference
def adaptive_probe(seed):
    """scalar and two-variable delay equations under solver='scipy' vs a fine-step reference"""
    from pyrates import OperatorTemplate, NodeTemplate, CircuitTemplate, clear_frontend_caches
    rng = random.Random(seed)
    bad, done = [], 0
    specs = []
    for k_spec in range(4):
        a = rng.choice([0.5, 1.0, 2.0]); b = rng.choice([-2.0, -1.0, 1.0]); d1 = rng.choice([0.25, 0.5, 1.0, 1e-4, 0.75]); d2 = rng.choice([0.25, 0.5, 1.25])
        specs.append((a, b, d1, d2, rng.choice([0.05, 0.1, 0.25]), rng.choice(["past", "t", "edge"]), ["Radau", "LSODA", rng.choice([None, "RK45", "DOP853"]), "BDF"][k_spec]))
    # sampling much coarser than the delays: the history must hold the solver's own steps, not only the returned samples
    specs.append((1.0, -2.0, 0.25, 0.25, 0.5, "past", None))
    specs.append((2.0, 1.0, 0.25, 0.5, 1.0, rng.choice(["t", "edge"]), rng.choice(["RK45", "Radau"])))
    with M.Scratch():
        with warnings.catch_warnings():
            warnings.simplefilter("ignore")
            for (a, b, d1, d2, dts, form, meth) in specs:
                T = 3.0
                x0, z0 = 1.0, 0.5
                try:
                    if form == "edge":
                        op = OperatorTemplate(name="ao", equations=["x' = -a*x + inp", "z' = -z + b*x"], variables={"x": f"output({x0})", "z": f"variable({z0})", "inp": "input(0.0)", "a": a, "b": b}, path=None)
                        nt = NodeTemplate(name="an", operators=[op], path=None)
                        c = CircuitTemplate(name="net", nodes={"p": nt}, edges=[("p/ao/x", "p/ao/inp", None, {"weight": b, "delay": d1})], path=None)

                        def f(y, past):
                            return np.array([-a * y[0] + b * past(d1)[0], -y[1] + b * y[0]])
                    else:
                        t1 = f"past(x, {d1})" if form == "past" else f"x(t-{d1})"
                        t2 = f"past(z, {d2})" if form == "past" else f"z(t-{d2})"
                        op = OperatorTemplate(name="ao", equations=[f"x' = -a*x + b*{t1}", f"z' = -z + {t2}*x"], variables={"x": f"output({x0})", "z": f"variable({z0})", "a": a, "b": b}, path=None)
                        nt = NodeTemplate(name="an", operators=[op], path=None)
                        c = CircuitTemplate(name="net", nodes={"p": nt}, edges=[], path=None)

                        def f(y, past):
                            return np.array([-a * y[0] + b * past(d1)[0], -y[1] + past(d2)[1] * y[0]])
                    res = c.run(simulation_time=T, step_size=1e-3, sampling_step_size=dts, solver="scipy", outputs={"x": "p/ao/x", "z": "p/ao/z"}, vectorize=False,
                                float_precision="float64", verbose=False, clear=True, **({"method": meth} if meth else {}))
                    # reference: Heun, h = 1/4096, linear interpolation of its own history
                    h = 1.0 / 4096
                    n = int(round(T / h))
                    Hh = np.zeros((n + 1, 2)); Hh[0] = [x0, z0]
                    for k in range(n):
                        def past(d, k=k):
                            tq = k * h - d
                            if tq <= 0:
                                return Hh[0]
                            q = tq / h
                            j = int(math.floor(q))
                            if j >= k:
                                return Hh[k]
                            return Hh[j] + (q - j) * (Hh[j + 1] - Hh[j])
                        k1 = f(Hh[k], past)
                        k2 = f(Hh[k] + h * k1, past)
                        Hh[k + 1] = Hh[k] + h / 2 * (k1 + k2)
                    got = np.column_stack([res["x"].values.reshape(-1), res["z"].values.reshape(-1)])
                    times = res.index.values
                    ref = np.array([Hh[int(round(t / h))] for t in times])
                    err = float(np.max(np.abs(got - ref) / (1.0 + np.abs(ref))))
                    done += 1
                    if not np.all(np.isfinite(got)) or err > 2e-2:
                        k = int(np.argmax(np.max(np.abs(got - ref) / (1.0 + np.abs(ref)), axis=1)))
                        bad.append({"a": a, "b": b, "d1": d1, "d2": d2, "sampling": dts, "form": form, "method": meth, "max_rel_err": err, "t": float(times[k]), "got": got[k].tolist(), "reference": ref[k].tolist()})
                except Exception as e:
                    bad.append({"a": a, "b": b, "d1": d1, "d2": d2, "sampling": dts, "form": form, "method": meth, "raise": f"{type(e).__name__}: {str(e)[:200]}"})
                clear_frontend_caches()
    return {"done": done, "bad": bad}


def param_delay_probe(_):
    """a delay given by a constant of the operator (`past(x, dly)`): the compiled function must read the history at t - <the value of its dly argument>,
    also when that argument is changed after compilation (a sweep over the delay)"""
    from pyrates import OperatorTemplate, NodeTemplate, CircuitTemplate, clear_frontend_caches
    from pyrates.backend.base.base_backend import DDEHistory
    bad, done = [], 0
    with M.Scratch():
        with warnings.catch_warnings():
            warnings.simplefilter("ignore")
            # two merged nodes whose delay parameters differ (known finding C10-vectorized-delay-parameter when wrong)
            try:
                op = OperatorTemplate(name="pd", equations=["x' = -x + c*past(x, dly)"], variables={"x": "output(1.0)", "c": 2.0, "dly": 0.25}, path=None)
                n1 = NodeTemplate(name="pdt1", operators=[op], path=None)
                n2 = NodeTemplate(name="pdt2", operators={op: {"dly": 0.5}}, path=None)
                cc = CircuitTemplate(name="pdn2", nodes={"a": n1, "b": n2}, edges=[], path=None)
                func, args, names, smap = cc.get_run_func("pdf2", step_size=0.125, solver="scipy", vectorize=True, float_precision="float64", verbose=False, clear=False, in_place=False)
                names = list(names)
                h = DDEHistory(np.array([4.0, 8.0]), t0=0.0)
                for t_, v_ in ((0.25, [1.0, 2.0]), (0.5, [-3.0, 6.0]), (1.0, [5.0, -2.0])):
                    h.update(t_, np.array(v_))
                a = list(args)
                a[names.index("hist")] = h
                got = np.asarray(func(0.75, np.array([0.5, 0.5]), *a[2:]), dtype=float).ravel().tolist()
                exp = [-0.5 + 2 * (-3.0), -0.5 + 2 * 2.0]          # node a reads t - 0.25 = 0.5, node b reads t - 0.5 = 0.25
                done += 1
                if got != exp:
                    bad.append({"known": "C10-vectorized-delay-parameter", "what": "merged nodes with different delay parameters", "got": got, "expected": exp})
            except Exception as e:
                bad.append({"what": "merged nodes with different delay parameters", "raise": f"{type(e).__name__}: {str(e)[:200]}"})
            clear_frontend_caches()
            for vec in (False,):          # (a single node compiled with vectorize=True indexes a 0-d delay argument and raises - loud, not probed)
                try:
                    op = OperatorTemplate(name="pd", equations=["x' = -x + c*past(x, dly)"], variables={"x": "output(1.0)", "c": 2.0, "dly": 0.25}, path=None)
                    cc = CircuitTemplate(name="pdn", nodes={"p": NodeTemplate(name="pdt", operators=[op], path=None)}, edges=[], path=None)
                    func, args, names, smap = cc.get_run_func("pdf", step_size=0.125, solver="scipy", vectorize=vec, float_precision="float64", verbose=False, clear=False, in_place=False)
                    names = list(names)
                    h = DDEHistory(np.array([4.0]), t0=0.0)
                    for t_, v_ in ((0.25, 1.0), (0.5, -3.0), (1.0, 5.0)):
                        h.update(t_, np.array([v_]))
                    recs = [(F(0), {"x": F(4)}), (F(1, 4), {"x": F(1)}), (F(1, 2), {"x": F(-3)}), (F(1), {"x": F(5)})]
                    dname = [n for n in names if n.endswith("/dly")]
                    if not dname:
                        bad.append({"vectorize": vec, "what": "the delay parameter is not an argument of the compiled function", "names": names})
                        continue
                    for dval in (F(1, 4), F(1, 2), F(3, 8), F(1, 8)):
                        a = list(args)
                        a[names.index("hist")] = h
                        i = names.index(dname[0])
                        a[i] = np.full(np.shape(args[i]), float(dval)) if np.shape(args[i]) else float(dval)
                        for t_ in (F(3, 4), F(5, 8)):
                            got = float(np.asarray(func(float(t_), np.array([0.5]), *a[2:]), dtype=float).ravel()[0])
                            exp = -F(1, 2) + 2 * interp_hist(recs, t_ - dval)["x"]
                            done += 1
                            if C.f2s(got) != C.q2s(exp):
                                bad.append({"vectorize": vec, "delay_argument": str(dval), "t": str(t_), "got": got, "expected": float(exp)})
                except Exception as e:
                    bad.append({"vectorize": vec, "raise": f"{type(e).__name__}: {str(e)[:200]}"})
                clear_frontend_caches()
    return {"done": done, "bad": bad}


# ------------------------------------------------------------------ check
def model_request(case):
    flat = M.flatten(case["mdl"])
    fl, reads = depast(flat)
    base = dict(comp="dde", fuel=40, interp={}, reads=reads, **fl)
    if case["kind"] == "run":
        init = {}
        for n in fl["nodes"]:
            for o in n["ops"]:
                for d in o["vars"]:
                    init[f"{n['path']}/{o['name']}/{d['name']}"] = d["value"]
        req = dict(base, op="run", dt=C.q2s(DT), steps=case["steps"], heun=(case["solver"] == "heun"), init={p: init[p] for p in M.state_paths(fl)})
        if case.get("pre"):
            req["pre"] = case["pre"]
        return [req]
    sp = M.state_paths(fl)
    return [dict(base, op="func", records=[[t, [d[p] for p in sp]] for t, d in case["records"]], t=cl["t"], y=cl["y"]) for cl in case["calls"]]


def check(tier, seed, replay=None):
    rep = C.Report(PID, tier, seed)
    rng = random.Random(seed)
    proof_ok, detail = C.prepare_lean(rep)
    rep.cov["rule"] = __doc__.split("Correspondence")[1][:1500]
    if replay:
        cases = [json.load(open(replay))["case"]]
    else:
        cases = [json.load(open(f))["case"] for f in sorted(glob.glob(os.path.join(C.VERIF, "corpus", PID, "*.json")))]
        nR, nF = (60, 50) if tier == "quick" else (900, 700)
        cases += [gen_run_case(rng, tier) for _ in range(nR)] + [gen_func_case(rng, tier) for _ in range(nF)]
    impl = C.run_forked(impl_case, cases, timeout=300)
    drv = C.Driver()
    bad = []
    for case, im in zip(cases, impl):
        if "crash" in im:
            raise C.HarnessError("harness child crashed: " + str(im)[:800])
        flat = M.flatten(case["mdl"])
        fl, reads = depast(flat)
        sp = M.state_paths(fl)
        dset = sorted({r["delay"] for r in reads})
        offgrid = any((F(d) / DT).denominator != 1 for d in dset)
        rep.count(("R-" + case["solver"] + ("-userhist" if case.get("pre") else "")) if case["kind"] == "run" else ("F-func" + ("-kwarg" if case["via_kwarg"] else "")),
                  json.dumps(case, sort_keys=True), nontrivial=(len(reads) >= 2 and offgrid))
        if "error" in im:
            bad.append((case, [("raises", im)]))
            continue
        dev = []
        answers = drv.ask_many(model_request(case))
        if case["kind"] == "run":
            mo = answers[0]
            if "error" in mo:
                raise C.HarnessError("Lean model failed on a generated case: " + json.dumps(mo)[:300])
            order = mo["order"]
            rows = mo["rows"]
            orows, _ = oracle_run(flat, case["solver"], DT, case["steps"], case.get("pre"))
            for k, r in enumerate(rows):
                if [C.q2s(orows[k][p]) for p in order] != r:
                    raise C.HarnessError("Lean model and Fraction oracle disagree on a delayed run: " + json.dumps(case)[:400])
            mult = case["dts_mult"]
            exp_idx = [C.q2s(F(k) * DT * mult) for k in range(case["steps"] // mult)]
            if im["index"] != exp_idx:
                dev.append(("time-index", {"got": im["index"][:6], "expected": exp_idx[:6]}))
            for j, p in enumerate(order):
                exp = [rows[k * mult][j] for k in range(case["steps"] // mult)]
                got = im["cols"].get(p)
                if got != exp:
                    k0 = next((k for k in range(min(len(exp), len(got or []))) if got[k] != exp[k]), None)
                    dev.append(("trajectory", {"variable": p, "first_wrong_sample": k0, "got": (got or [None])[k0] if k0 is not None else got, "expected": exp[k0] if k0 is not None else exp}))
                    break
        else:
            for cl, mo, got in zip(case["calls"], answers, im["dy"]):
                if "error" in mo:
                    raise C.HarnessError("Lean model failed on a generated case: " + json.dumps(mo)[:300])
                exp = dict(zip(mo["order"], mo["dy"]))
                # independent oracle
                recs = [(F(t), {p: F(v) for p, v in d.items()}) for t, d in case["records"]]
                ody = field_with_reads(fl, reads, {p: F(cl["y"][p]) for p in sp}, recs, F(cl["t"]))
                if {p: C.q2s(v) for p, v in ody.items()} != exp:
                    raise C.HarnessError("Lean model and Fraction oracle disagree on a delayed function call: " + json.dumps(case)[:400])
                if got != exp:
                    p0 = sorted(p for p in exp if got.get(p) != exp[p])[0]
                    dev.append(("delayed-read", {"t": cl["t"], "variable": p0, "got": got.get(p0), "expected": exp[p0], "records_t": [r[0] for r in case["records"]],
                                                 "delays": dset}))
                    break
        if dev:
            bad.append((case, dev))
        else:
            rep.validated()
    drv.close()
    ad = C.run_forked(adaptive_probe, [seed], timeout=900)[0] if not replay else {"done": 0, "bad": []}
    if "crash" in ad:
        raise C.HarnessError("adaptive probe crashed: " + str(ad)[:600])
    rep.count("A-adaptive-run", None, n=ad["done"])
    pdp = C.run_forked(param_delay_probe, [0], timeout=600)[0] if not replay else {"done": 0, "bad": []}
    if "crash" in pdp:
        raise C.HarnessError("parameter-delay probe crashed: " + str(pdp)[:600])
    rep.count("P-delay-given-by-a-parameter", None, n=pdp["done"])
    rep.cov["streams"].update({"cases_with_deviations": len(bad), "adaptive_probe_failures": len(ad["bad"])})
    if cases:
        rep.sample({"kind": cases[-1]["kind"], "reads": depast(M.flatten(cases[-1]["mdl"]))[1][:3], "impl": {k: (v[:2] if isinstance(v, list) else v) for k, v in impl[-1].items() if k in ("dy", "index")}})
    if bad:
        case, dev = min(bad, key=lambda x: len(json.dumps(x[0]["mdl"])))
        rep.violation(f"a delayed term does not read the past of the trajectory ({dev[0][0]})", {"case": case, "deviations": dev[:4]})
    active_kf10 = {f["id"] for f in C.load_known_findings() if f.get("property") == PID and f.get("status") == "known"}
    kfb = [b for b in pdp["bad"] if b.get("known") in active_kf10]
    for b in kfb:
        rep.known_finding(b["known"] + ": vectorize=True, a delay given by an operator constant that differs between the merged nodes - every node reads the history with the first node's delay")
    pdp["bad"] = [b for b in pdp["bad"] if b not in kfb]
    if pdp["bad"]:
        rep.violation("a delay given by a parameter is not read from the function's delay argument", {"param_delay": pdp["bad"][:4]})
    if ad["bad"]:
        rep.violation("adaptive run of a delay equation deviates from the fine-step reference solution", {"adaptive": ad["bad"][:3]})
    if not bad and not ad["bad"] and not pdp["bad"] and not proof_ok:
        why = {"proof_ok": proof_ok, "build_log_tail": detail["build_log_tail"], "forbidden": detail["forbidden"],
               "audit_failures": (detail["audit"] or {}).get("failures"), "broken": "theorems of PyRatesModel.Props.C10 (build/audit)"}
        rep.violation("C10 is no longer shown to hold: " + why["broken"], why, no_input=True, name="unproved")
    return rep.finish()
