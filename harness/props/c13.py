"""C13 — results do not depend on what the process did before.

Proof: lean/PyRatesModel/Props/C13.lean — a keyed cache is *transparent* (lookup-or-compute returns compute k for every history of requests) iff
the key determines the value; the model of the operator cache keyed by the operator's content is proved transparent for every history, the one
keyed by name only is refuted by a two-request witness; counters that are reset at the start of a compilation yield history-independent labels.
Correspondence: random histories of public API calls over 2-4 models that deliberately share operator names (with different equations or
defaults), template objects, node structure and function/file names — construct, update_var, get_run_func/get_jacobian_func/run with clear
True/False and in_place True/False, clear(), clear_frontend_caches(); the results (vector field at exact points, declared argument values, run
trajectories) of the LAST model are compared exactly with the same model handled alone in a fresh (forked) process and with the Lean model/oracle;
functions returned earlier are re-evaluated at the end and must still compute their own model."""
import random, json, os, glob, copy, warnings
from fractions import Fraction as F
import numpy as np
from .. import common as C
from .. import mdl as M, gen_net as G, netcheck as N
from . import c01

PID = "C13"


def variant(rng, mdl):
    """a second model that merely *shares names/structure* with `mdl`: same operator names, other equations and defaults"""
    m = copy.deepcopy(mdl)
    for op in m["ops"].values():
        for e in op["eqs"]:
            if rng.random() < 0.7:
                e["rhs"] = M.add(e["rhs"], M.mul(M.num(F(rng.choice([1, 2, -3]))), M.var(rng.choice(sorted(M.fvars(e["rhs"])) or [e["lhs"]]))))
        for k, d in op["vars"].items():
            if rng.random() < 0.5:
                d["value"] = str(F(rng.randint(-4, 4), rng.choice([1, 2])))
    return m


def gen_case(rng, tier):
    for _ in range(60):
        base = G.gen_model(rng, max_nodes=3, min_nodes=1, depth=rng.choice([0, 0, 1]), hostile=rng.random() < 0.3, clones=rng.random() < 0.5)
        models = [base]
        for _k in range(rng.randint(1, 3)):
            r = rng.random()
            if r < 0.5:
                models.append(variant(rng, rng.choice(models)))
            elif r < 0.75:
                models.append(copy.deepcopy(rng.choice(models)))        # the very same model again
            else:
                models.append(G.gen_model(rng, max_nodes=3, min_nodes=1, depth=0, hostile=False))
        rng.shuffle(models)
        steps = []
        for i, m in enumerate(models):
            flat = M.flatten(m)
            sp = M.state_paths(flat)
            if len(set(sp)) != len(sp):
                break
            act = rng.choice(["get_run_func", "get_run_func", "run", "get_jacobian_func"]) if i < len(models) - 1 else rng.choice(["get_run_func", "run"])
            st = {"model": i, "action": act, "vectorize": rng.random() < 0.4, "clear": rng.choice([True, False, False]), "in_place": rng.choice([True, False]),
                  "fname": rng.choice(["vf", "vf", f"vf{i}"]), "points": [{p: C.q2s(F(rng.randint(-3, 3), rng.choice([1, 2]))) for p in sp} for _ in range(2)]}
            if act == "get_run_func" and rng.random() < 0.3:
                st["decorate"] = True          # user decorator (negates the vector field); the undecorated twin may be compiled before/after
            if rng.random() < 0.3:
                st["yaml"] = True              # the model is written to ymod/model.yaml (same path for all models of the history) and loaded from there
            if rng.random() < 0.3 and not st.get("yaml"):
                # (update_var on a template that came out of template_cache is the known finding C13-yaml-cache-mutated, probed separately)
                cand = sorted(M.const_paths(flat))
                if cand:
                    st["update_var"] = {rng.choice(cand): C.q2s(F(rng.randint(-5, 5)))}
            steps.append(st)
            if rng.random() < 0.25:
                steps.append({"action": rng.choice(["clear_frontend_caches", "clear_model"]), "model": i})
        else:
            case = {"models": models, "steps": steps}
            ok = True
            for st in steps:
                if "points" in st:
                    m = copy.deepcopy(models[st["model"]])
                    if st.get("update_var"):
                        m["post_values"] = st["update_var"]
                    o = N.oracle_case({"mdl": m, "points": st["points"], "pis": [{}, {}], "interp": {}})
                    if "error" in o or o["bits"] > 46:
                        ok = False
                    if st["action"] == "run":
                        ot = N.oracle_traj({"mdl": m, "run": {"T": "2", "dt": "1/2", "solver": "euler"}})
                        if "error" in ot or ot["bits"] > 44:
                            ok = False
            if ok:
                return case
    raise C.HarnessError("generator could not produce an admissible case")


def do_step(st, models, store):
    """execute one API step; returns the observable of that step"""
    from pyrates import clear_frontend_caches, clear
    if st["action"] == "clear_frontend_caches":
        clear_frontend_caches()
        store["__cleared_since_yaml"] = True
        return {"done": True}
    if st["action"] == "clear_model":
        c = store.get(st["model"])
        if c is not None:
            clear(c)
            store["__cleared_since_yaml"] = True
        return {"done": True}
    mdl = models[st["model"]]

    def build():
        if st.get("yaml"):
            from pyrates import CircuitTemplate
            from .c15_e2e import mdl_to_yaml
            os.makedirs("ymod", exist_ok=True)
            prev = store.get("__yaml_text")
            text = mdl_to_yaml(mdl)
            if prev is not None and prev != text and not store.get("__cleared_since_yaml", True):
                # the documented contract: templates are cached by path until clear()/clear_frontend_caches(); do not rewrite the file in between
                return M.build_pyrates(mdl)[0]
            open("ymod/model.yaml", "w").write(text)
            store["__yaml_text"] = text
            store["__cleared_since_yaml"] = False
            return CircuitTemplate.from_yaml(os.path.join(os.getcwd(), "ymod", "model", mdl["circuit"]["name"]))
        return M.build_pyrates(mdl)[0]
    c = build()
    store[st["model"]] = c
    if st.get("update_var"):
        c.update_var(node_vars={k: float(F(v)) for k, v in st["update_var"].items()})
    flat = M.flatten(mdl)
    sp = M.state_paths(flat)
    if st["action"] in ("get_run_func", "get_jacobian_func"):
        if st["action"] == "get_jacobian_func":
            c.get_jacobian_func("jac_" + st["fname"], step_size=1e-3, vectorize=False, float_precision="float64", verbose=False, in_place=False, clear=st["clear"])
            c = build()
            store[st["model"]] = c
            if st.get("update_var"):
                c.update_var(node_vars={k: float(F(v)) for k, v in st["update_var"].items()})
        kw = {}
        if st.get("decorate"):
            kw["decorator"] = lambda f: (lambda t, y, *a: -1.0 * np.array(f(t, y, *a)))
        func, args, names, smap = c.get_run_func(st["fname"], step_size=1e-3, vectorize=False, float_precision="float64", verbose=False,
                                                 in_place=st["in_place"], clear=st["clear"], **kw)
        if st.get("decorate"):
            inner = func
            func = lambda t, y, *a: -1.0 * np.array(inner(t, y, *a))        # undo the known decorator: the observable is the model's field
        return {"func": (func, args, names, smap)}
    if st["action"] == "run":
        r = c.run(simulation_time=2.0, step_size=0.5, solver="euler", outputs={f"v{j}": p for j, p in enumerate(sp)}, vectorize=st["vectorize"],
                  float_precision="float64", verbose=False, in_place=st["in_place"], clear=st["clear"])
        cols = [str(x) for x in r.columns]
        return {"run": {f"v{j}": [C.f2s(x) for x in r.values[:, cols.index(f"v{j}")]] for j in range(len(sp))}}


def eval_func(fobs, points):
    func, args, names, smap = fobs
    n = len(np.asarray(args[1]))
    out = []
    for pt in points:
        y = np.zeros(n)
        for p, idx in smap.items():
            y[idx] = float(F(pt[p]))
        a2 = list(args)
        a2[2] = np.zeros(n)
        dy = np.array(func(0, y, *a2[2:]), dtype=float)
        out.append({p: C.f2s(dy[idx]) for p, idx in smap.items()})
    argv = {nm: [C.f2s(x) for x in np.asarray(args[i]).reshape(-1)] for i, nm in enumerate(names) if i >= 3}
    return {"dy": out, "args": argv, "layout": dict(smap), "n": int(n), "y0": {}}


def impl_history(case):
    """whole history in one process; returns per compile-step observables (functions are evaluated at the very end)"""
    out = []
    store = {}
    with M.Scratch():
        with warnings.catch_warnings():
            warnings.simplefilter("ignore")
            obs = []
            for st in case["steps"]:
                try:
                    obs.append(do_step(st, case["models"], store))
                except Exception as e:
                    obs.append({"error": type(e).__name__, "msg": str(e)[:300]})
                    try:
                        from pyrates import clear_frontend_caches
                        clear_frontend_caches()
                    except Exception:
                        pass
            for st, ob in zip(case["steps"], obs):
                if "func" in ob:
                    try:
                        out.append(eval_func(ob["func"], st["points"]))
                    except Exception as e:
                        out.append({"error": type(e).__name__, "msg": str(e)[:300], "stage": "call"})
                else:
                    out.append(ob)
    return out


def impl_alone(args):
    """one step handled alone by a fresh process"""
    st, models = args
    with M.Scratch():
        with warnings.catch_warnings():
            warnings.simplefilter("ignore")
            try:
                ob = do_step(st, models, {})
                return eval_func(ob["func"], st["points"]) if "func" in ob else ob
            except Exception as e:
                return {"error": type(e).__name__, "msg": str(e)[:300]}


def probe_yaml_cache_mutation(_):
    """from_yaml -> update_var -> from_yaml(same path) without clear(): does the second load show the first one's update?"""
    from pyrates import CircuitTemplate
    with M.Scratch():
        with warnings.catch_warnings():
            warnings.simplefilter("ignore")
            os.makedirs("ymod", exist_ok=True)
            open("ymod/m.yaml", "w").write("%YAML 1.2\n---\nop:\n  base: OperatorTemplate\n  equations:\n    - \"x' = -a*x\"\n  variables:\n    x: output(1.0)\n    a: 2.0\n"
                                          "n:\n  base: NodeTemplate\n  operators:\n    - op\nc:\n  base: CircuitTemplate\n  nodes:\n    p: n\n  edges: []\n")
            path = os.path.join(os.getcwd(), "ymod", "m", "c")
            c1 = CircuitTemplate.from_yaml(path)
            c1.update_var(node_vars={"p/op/a": 7.0})
            c2 = CircuitTemplate.from_yaml(path)
            f, args, names, smap = c2.get_run_func("pv", step_size=1e-3, vectorize=False, float_precision="float64", verbose=False, in_place=False, clear=True)
            a = float(np.asarray(args[list(names).index("p/op/a")]))
            return {"a_seen_by_second_load": a}


def _long_input_model():
    from pyrates import OperatorTemplate, NodeTemplate, CircuitTemplate
    op = OperatorTemplate(name="lop", equations=["x' = -x/4 + u"], variables={"x": "output(0.0)", "u": "input(0.0)"}, path=None)
    return CircuitTemplate(name="lnet", nodes={"p": NodeTemplate(name="ln", operators=[op], path=None)}, edges=[], path=None)


def _long_input(pos):
    u = np.zeros(1200)
    u[pos:pos + 50] = 1.0          # pulses at different positions: identical shape, identical first and last samples
    return u


def probe_long_inputs(variant):
    """two runs in one process with extrinsic inputs of > 1000 samples that differ only in the middle; the second result vs the same run in a fresh process.
    variant = (api, clear): api in {'run', 'get_run_func'}"""
    api, clear, first = variant
    with M.Scratch():
        with warnings.catch_warnings():
            warnings.simplefilter("ignore")
            try:
                def go(pos):
                    c = _long_input_model()
                    if api == "run":
                        r = c.run(simulation_time=1200 * 0.125, step_size=0.125, solver="euler", outputs={"x": "p/lop/x"}, inputs={"p/lop/u": _long_input(pos)}, vectorize=False,
                                  float_precision="float64", verbose=False, clear=clear, in_place=False)
                        return [float(v) for v in np.asarray(r.values).ravel()[::100]]
                    f, args, names, smap = c.get_run_func("lf", step_size=0.125, solver="euler", inputs={"p/lop/u": _long_input(pos)}, vectorize=False, float_precision="float64",
                                                          verbose=False, clear=clear, in_place=False)
                    y = np.array([0.5])
                    return [float(np.asarray(f(k, y.copy(), *args[2:])).ravel()[0]) for k in (0, 310, 720, 1199)]
                if first:
                    go(300)
                return {"second": go(700)}
            except Exception as e:
                return {"error": type(e).__name__, "msg": str(e)[:200]}


def norm(ob):
    """observable restricted to frontend-named quantities (generated edge-operator argument names may legitimately differ)"""
    if "dy" in ob:
        return {"dy": ob["dy"], "args": {k: v for k, v in ob["args"].items() if "/in_edge_" not in k}, "layout_keys": sorted(ob["layout"])}
    return ob


def check(tier, seed, replay=None):
    rep = C.Report(PID, tier, seed)
    rng = random.Random(seed)
    proof_ok, detail = C.prepare_lean(rep)
    rep.cov["rule"] = ("random histories over 2-4 models per process: variants that share operator names but differ in equations/defaults, identical models again, unrelated models; "
                       "steps: (update_var,) get_run_func / get_jacobian_func / run with clear in {True, False}, in_place in {True, False}, vectorize on/off, shared or distinct "
                       "function names, interleaved clear(model) / clear_frontend_caches().  Every compile step's result (dy at 2 exact points, declared argument values, layout, "
                       "run trajectory) is compared with (a) the same step alone in a fresh process and (b) the Lean model/oracle; functions returned by earlier steps are "
                       "evaluated only after the whole history.  distinct = distinct histories; non-trivial = >= 2 compile steps of models sharing an operator name")
    if replay:
        cases = [json.load(open(replay))["case"]]
    else:
        cases = [json.load(open(f))["case"] for f in sorted(glob.glob(os.path.join(C.VERIF, "corpus", PID, "*.json")))]
        cases += [gen_case(rng, tier) for _ in range(100 if tier == "quick" else 1500)]
    impl = C.run_forked(impl_history, cases, timeout=400)
    alone_jobs = [(st, c["models"]) for c in cases for st in c["steps"] if "points" in st]
    alone = C.run_forked(impl_alone, alone_jobs, timeout=300)
    drv = C.Driver()
    bad = []
    ai = 0
    active_kf = {f["id"] for f in C.load_known_findings() if f.get("property") == PID and f.get("status") == "known"}
    for case, obs in zip(cases, impl):
        if isinstance(obs, dict) and "crash" in obs:
            raise C.HarnessError("harness child crashed: " + str(obs)[:800])
        ncomp = sum(1 for st in case["steps"] if "points" in st)
        names = [sorted(o["name"] for o in case["models"][st["model"]]["ops"].values()) for st in case["steps"] if "points" in st]
        share = any(set(a) & set(b) for i, a in enumerate(names) for b in names[i + 1:])
        rep.count("history", json.dumps(case, sort_keys=True), nontrivial=(ncomp >= 2 and share))
        problems = []
        for k, (st, ob) in enumerate(zip(case["steps"], obs)):
            if "points" not in st:
                continue
            al = alone[ai]
            ai += 1
            if "crash" in al:
                raise C.HarnessError("harness child crashed: " + str(al)[:800])
            m = copy.deepcopy(case["models"][st["model"]])
            if st.get("update_var"):
                m["post_values"] = st["update_var"]
            # (b) specification
            if "dy" in ob:
                oc = {"mdl": m, "points": st["points"], "pis": [{}, {}], "interp": {}}
                orc = N.oracle_case(oc)
                mres = [drv.ask(r)["results"][0] for r in N.model_request(oc, orc["flat"])]
                if [x.get("dy") for x in mres] != orc["dy"]:
                    raise C.HarnessError("Lean model and oracle disagree")
                dev = c01.compare(oc, ob, orc)
                if dev:
                    problems.append({"step": k, "kind": "differs-from-the-model's-equations", "deviation": dev[0], "alone_ok": not c01.compare(oc, al, orc) if "dy" in al else False})
            elif "run" in ob:
                ot = N.oracle_traj({"mdl": m, "run": {"T": "2", "dt": "1/2", "solver": "euler"}})
                sp = M.state_paths(ot["flat"])
                exp = {f"v{j}": [row[p] for row in ot["rows"]] for j, p in enumerate(sp)}
                if ob["run"] != exp:
                    problems.append({"step": k, "kind": "run-differs-from-the-model's-trajectory", "got": ob["run"], "expected": exp, "alone_ok": al.get("run") == exp})
            # (a) fresh process
            if norm(ob) != norm(al) and not problems:
                if "error" in ob and "error" not in al:
                    problems.append({"step": k, "kind": "raises-only-after-history", "error": ob, "alone": "ok"})
                elif "error" in al:
                    pass        # the step fails even alone: not a history effect (other properties' business)
                else:
                    problems.append({"step": k, "kind": "differs-from-fresh-process", "in_history": norm(ob), "alone": norm(al)})
            elif "error" in ob and "error" in al:
                problems = [p for p in problems if p["step"] != k]
        # steps that fail even alone are not history effects
        problems = [p for p in problems if p.get("alone_ok", True) or p["kind"] in ("raises-only-after-history", "differs-from-fresh-process")]
        if problems:
            bad.append((case, problems))
        else:
            rep.validated()
    drv.close()
    pr = C.run_forked(probe_yaml_cache_mutation, [0])[0] if not replay else {}
    rep.count("probe-yaml-cache-mutation", None, n=1)
    if pr.get("a_seen_by_second_load") not in (None, 2.0):
        if "C13-yaml-cache-mutated" in active_kf:
            rep.known_finding("C13-yaml-cache-mutated: from_yaml returns the cached template object; update_var on it is seen by every later from_yaml of the same path until clear()")
        else:
            bad.append(({"probe": "yaml-cache-mutation"}, [{"kind": "second from_yaml shows the first load's update_var", "observed": pr}]))
    if not replay:
        variants = [(api, clear) for api in ("run", "get_run_func") for clear in (True, False)]
        after = C.run_forked(probe_long_inputs, [v + (True,) for v in variants], timeout=600)
        fresh = C.run_forked(probe_long_inputs, [v + (False,) for v in variants], timeout=600)
        for v, a, f_ in zip(variants, after, fresh):
            rep.count("probe-long-inputs-" + v[0] + ("-clear" if v[1] else ""), None, n=1)
            if "crash" in a or "crash" in f_:
                raise C.HarnessError("long-input probe crashed: " + str((a, f_))[:400])
            if a != f_:
                bad.append(({"probe": "long-inputs", "api": v[0], "clear": v[1], "inputs": "1200 samples, pulse at 300 (first run) / 700 (second run)"},
                            [{"kind": "second run with another long input differs from the same run in a fresh process", "after_history": a, "fresh_process": f_}]))
            else:
                rep.validated()
    rep.sample({"steps": [{k: v for k, v in st.items() if k != "points"} for st in cases[-1]["steps"]], "n_models": len(cases[-1]["models"])})
    rep.cov["streams"]["histories_with_history_dependent_results"] = len(bad)
    if bad:
        case, problems = min(bad, key=lambda x: len(json.dumps(x[0])))
        rep.violation(f"the result of a model depends on what the process did before ({problems[0]['kind']})", {"case": case, "problems": problems[:3]})
    elif not proof_ok:
        why = {"proof_ok": proof_ok, "build_log_tail": detail["build_log_tail"], "forbidden": detail["forbidden"],
               "audit_failures": (detail["audit"] or {}).get("failures"), "broken": "theorems of PyRatesModel.Props.C13 (build/audit)"}
        rep.violation("C13 is no longer shown to hold: " + why["broken"], why, no_input=True, name="unproved")
    return rep.finish()
