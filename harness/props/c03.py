"""C03 — run() returns the numerical solution of the compiled system (fixed-step part; adaptive = labelled smoke stream).

Proof: lean/PyRatesModel/Props/C03.lean (storage loop rows = iterates, Heun step with the aliasing question made explicit,
time axis, end-to-end runFixed).  Correspondence: (A) the real _solve_euler/_solve_heun on exact polynomial vector fields in both
vector-field conventions, (B) CircuitTemplate.run end to end on exact one-node models (values, index, shape, cutoff).
Oracle: independent textbook Euler/Heun in Fractions."""
import random, json, os, glob, tempfile, shutil, warnings
from fractions import Fraction
import numpy as np
from .. import common as C
from ..common import q2s, fl2q
from .. import extract_tables

PID = "C03"
NAMES = ["x", "z", "w"]


def dy(rng, lo, hi, den):
    return Fraction(rng.randint(lo * den, hi * den), den)


def gen_field(rng, n, allow_quadratic=True, n_inputs=0, allow_t=False):
    fs = []
    for i in range(n):
        terms = []
        for _ in range(rng.randint(1, 3)):
            e = [0] * n
            k = rng.random()
            if k < 0.6:
                e[rng.randrange(n)] = 1
            elif k < 0.8 and allow_quadratic:
                e[rng.randrange(n)] += 1
                e[rng.randrange(n)] += 1
            c = dy(rng, -2, 2, 2)
            if c == 0:
                c = Fraction(1, 2)
            terms.append({"c": q2s(c), "tp": (1 if allow_t and rng.random() < 0.3 else 0), "e": e, "u": None})
        fs.append(terms)
    for j in range(n_inputs):
        fs[rng.randrange(n)].append({"c": q2s(Fraction(rng.choice([1, 2, -1]), rng.choice([1, 2]))), "tp": 0, "e": [0] * n, "u": j})
    return fs


def eval_field(fs, U, t, y):
    out = []
    for terms in fs:
        s = Fraction(0)
        for tm in terms:
            v = Fraction(tm["c"]) * Fraction(t) ** tm["tp"]
            for yi, k in zip(y, tm["e"]):
                v *= yi ** k
            if tm["u"] is not None:
                v *= U[tm["u"]][t]
            s += v
        out.append(s)
    return out


def py_round(q):
    return round(Fraction(q))        # Python's round on Fraction is half-even


def oracle(case):
    """the property's wording: row k = Euler/Heun iterate after k*s steps at time k*dts, rows with time < cutoff dropped"""
    T, dt, dts = Fraction(case["T"]), Fraction(case["dt"]), Fraction(case["dts"])
    s = dts / dt
    assert s.denominator == 1
    s = int(s)
    m = py_round(T / dts)          # "there are round(T/sampling_step_size) rows"
    fs, U = case["field"], [[Fraction(v) for v in u] for u in case["U"]]
    y = [Fraction(v) for v in case["y0"]]
    t0 = case["t0"]
    rows = []
    maxbits = 0
    for i in range(m * s):
        if i % s == 0:
            rows.append(list(y))
        k1 = eval_field(fs, U, i + t0, y)
        if case["method"] == "euler":
            y = [a + dt * b for a, b in zip(y, k1)]
        else:
            y0 = [a + dt * b for a, b in zip(y, k1)]
            k2 = eval_field(fs, U, i + t0, y0)
            y = [a + dt / 2 * (b + c) for a, b, c in zip(y, k1, k2)]
            k1 = k1 + k2 + y0
        for v in list(y) + k1:
            maxbits = max(maxbits, abs(v.numerator).bit_length() + v.denominator.bit_length())
            d = v.denominator
            if d & (d - 1):
                maxbits = 999
    return rows, [k * dts for k in range(m)], maxbits


def gen_case(rng, kind, jax_nonmultiple=False):
    """jax_nonmultiple: an end-to-end jax run whose T is not a multiple of the sampling step and whose step count is not store_steps * store_step"""
    n = rng.randint(1, 3)
    method = rng.choice(["euler", "heun"])
    s = rng.choice([1, 1, 2, 3, 4]) if not jax_nonmultiple else rng.choice([2, 3, 4])
    m = rng.randint(1, 6) if not jax_nonmultiple else rng.randint(2, 3)
    dt = rng.choice([Fraction(1), Fraction(1), Fraction(1, 2), Fraction(1, 4), Fraction(2)])
    dts = s * dt
    T = m * dts
    n_inputs = rng.choice([0, 0, 1])
    quad = m * s <= 4
    fs = gen_field(rng, n, allow_quadratic=quad, n_inputs=n_inputs, allow_t=(kind == "unit"))
    steps = m * s
    U = [[q2s(Fraction(rng.randint(-4, 4))) for _ in range(steps + 8)] for _ in range(n_inputs)]
    cut_choices = [Fraction(0), Fraction(0), dts, T, T + 1] + [dts * Fraction(k, 4) for k in range(0, 4 * m + 3)]
    backend = "default"
    if kind == "e2e" and (rng.random() < 0.25 or jax_nonmultiple):
        backend = "jax"
    Tq = T
    if jax_nonmultiple:
        # at least two stored rows, and round(T/dt) // round(T/dts) differs from dts/dt (a scheme that spreads the steps evenly over the rows shows)
        for fr in rng.sample([Fraction(-1, 4), Fraction(-3, 8), Fraction(3, 8), Fraction(-1, 2) + Fraction(1, 16)], 4):
            Tq = T + dts * fr
            if py_round(Tq / dts) >= 2 and py_round(Tq / dt) // py_round(Tq / dts) != s:
                break
    elif kind == "e2e" and rng.random() < 0.3:
        Tq = T + dts * rng.choice([Fraction(1, 4), Fraction(-1, 4), Fraction(3, 8), Fraction(-3, 8)])   # T not a multiple of the sampling step
    return {"kind": kind, "method": method, "inplace": rng.random() < 0.6, "field": fs, "U": U,
            "t0": (rng.choice([0, 0, 0, 1, 3]) if kind == "unit" and not n_inputs else 0),
            "T": q2s(Tq), "dt": q2s(dt), "dts": q2s(dts), "cutoff": q2s(rng.choice(cut_choices)), "backend": backend,
            "y0": [q2s(dy(rng, -2, 2, 2)) for _ in range(n)], "sampling_none": (s == 1 and rng.random() < 0.5),
            "vectorize": rng.random() < 0.5,
            "prior_scale": (rng.choice(["2", "1/2"]) if kind == "e2e" and rng.random() < (0.6 if backend == "jax" else 0.15) else None)}


# ---------------------------------------------------------------- real code: unit level
def run_unit(case):
    from pyrates.backend.base.base_backend import BaseBackend
    fs, U = case["field"], [np.array([float(Fraction(v)) for v in u]) for u in case["U"]]
    n = len(case["y0"])
    cfs = [[(float(Fraction(tm["c"])), tm["tp"], tm["e"], tm["u"]) for tm in terms] for terms in fs]
    buf = np.zeros(n)

    def f_vals(t, y):
        out = []
        for terms in cfs:
            s = 0.0
            for c, tp, e, u in terms:
                v = c * float(t) ** tp
                for yi, k in zip(y, e):
                    v *= yi ** k
                if u is not None:
                    v *= U[u][int(t)]
                s += v
            out.append(s)
        return out

    if case["inplace"]:
        def func(t, y, dy_):
            dy_[:] = f_vals(t, y)
            return dy_
        args = (buf,)
    else:
        def func(t, y):
            return np.array(f_vals(t, y))
        args = ()
    y0 = np.array([float(Fraction(v)) for v in case["y0"]])
    solver = BaseBackend._solve_euler if case["method"] == "euler" else BaseBackend._solve_heun
    try:
        rec = solver(func, args, float(Fraction(case["T"])), float(Fraction(case["dt"])), float(Fraction(case["dts"])), y0, case["t0"])
    except Exception as e:
        return {"error": type(e).__name__}
    return {"rows": [[C.f2s((v)) for v in row] for row in rec]}


# ---------------------------------------------------------------- real code: end to end
def fmt_num(q):
    q = Fraction(q)
    return repr(float(q))


def render_eq(i, terms, n):
    parts = []
    for tm in terms:
        fac = [fmt_num(tm["c"])]
        for name, k in zip(NAMES, tm["e"]):
            fac += [name] * k
        if tm["u"] is not None:
            fac.append(f"u{tm['u']}")
        parts.append("*".join(fac))
    return f"{NAMES[i]}' = " + " + ".join(parts)


def run_e2e(case):
    from pyrates import OperatorTemplate, NodeTemplate, CircuitTemplate
    n = len(case["y0"])
    eqs = [render_eq(i, terms, n) for i, terms in enumerate(case["field"])]
    variables = {}
    for i in range(n):
        variables[NAMES[i]] = ("output(%s)" if i == 0 else "variable(%s)") % fmt_num(case["y0"][i])
    for j in range(len(case["U"])):
        variables[f"u{j}"] = "input(0.0)"
    wd = tempfile.mkdtemp(prefix="c03_")
    cwd = os.getcwd()
    os.chdir(wd)
    try:
        with warnings.catch_warnings():
            warnings.simplefilter("ignore")
            op = OperatorTemplate(name="op", equations=eqs, variables=variables, path=None)
            node = NodeTemplate(name="n", operators=[op], path=None)
            c = CircuitTemplate(name="c", nodes={"p": node}, edges=[])
            steps = py_round(Fraction(case["T"]) / Fraction(case["dt"]))
            inputs = {f"p/op/u{j}": np.array([float(Fraction(v)) for v in u][:steps]) for j, u in enumerate(case["U"])}
            kw = dict(simulation_time=float(Fraction(case["T"])), step_size=float(Fraction(case["dt"])), solver=case["method"],
                      outputs={NAMES[i]: f"p/op/{NAMES[i]}" for i in range(n)}, float_precision="float64", verbose=False,
                      in_place=False, vectorize=case["vectorize"], cutoff=float(Fraction(case["cutoff"])), clear=True)
            if case.get("backend", "default") != "default":
                kw["backend"] = case["backend"]
            if inputs:
                kw["inputs"] = inputs
            if not case["sampling_none"]:
                kw["sampling_step_size"] = float(Fraction(case["dts"]))
            if case.get("prior_scale"):
                # the same equations simulated before in this process on a time axis scaled by a factor: equal numbers of steps and rows, another dt
                f_ = float(Fraction(case["prior_scale"]))
                kw0 = dict(kw, simulation_time=kw["simulation_time"] * f_, step_size=kw["step_size"] * f_, cutoff=0.0)
                if "sampling_step_size" in kw0:
                    kw0["sampling_step_size"] = kw0["sampling_step_size"] * f_
                try:
                    CircuitTemplate(name="c", nodes={"p": NodeTemplate(name="n", operators=[OperatorTemplate(name="op", equations=eqs, variables=variables, path=None)], path=None)}, edges=[]).run(**kw0)
                except Exception:
                    pass
            try:
                r = c.run(**kw)
            except Exception as e:
                return {"error": type(e).__name__, "msg": str(e)[:200]}
            cols = [str(x) for x in r.columns]
            order = [cols.index(NAMES[i]) for i in range(n)]
            vals = r.values
            return {"rows": [[C.f2s((t)), [C.f2s((vals[k, j])) for j in order]] for k, t in enumerate(r.index.values)],
                    "shape": list(vals.shape)}
    finally:
        os.chdir(cwd)
        shutil.rmtree(wd, ignore_errors=True)


def run_impl(case):
    return run_unit(case) if case["kind"] == "unit" else run_e2e(case)


def model_request(case, tables):
    r = {"comp": "solver", "method": case["method"], "inplace": case["inplace"] if case["kind"] == "unit" else True,
         "copy_rhs": bool(tables.get("heunCopiesRhs")), "guarded": bool(tables.get("storeGuarded")), "field": case["field"], "U": case["U"], "t0": case["t0"],
         "T": case["T"], "dt": case["dt"], "dts": case["dts"], "y0": case["y0"], "rows_only": case["kind"] == "unit"}
    if case["kind"] != "unit":
        r["cutoff"] = case["cutoff"]
        r["axis"] = "arange" if tables.get("timeAxisKind") == "arangeStep" else "linspace"
        r["scheme"] = "scan" if case.get("backend") == "jax" else "loop"
    return r


def spec_out(case):
    rows, times, bits = oracle(case)
    if case["kind"] == "unit":
        return {"rows": [[q2s(v) for v in row] for row in rows]}, bits
    cut = Fraction(case["cutoff"])
    return {"rows": [[q2s(t), [q2s(v) for v in row]] for t, row in zip(times, rows) if t >= cut]}, bits


class _PoisonNP:
    """numpy proxy for base_backend: np.empty returns NaN-filled arrays so that rows the solver never wrote are observable"""
    def __init__(self, np_):
        self._np = np_

    def __getattr__(self, k):
        return getattr(self._np, k)

    def empty(self, *a, **kw):
        arr = self._np.empty(*a, **kw)
        if arr.dtype.kind == "f":
            arr[...] = self._np.nan
        return arr


def float_grid(_):
    """non-dyadic (T, dt, dts): floats where T/dt is not exact.  Observables: row count, no unwritten (NaN) row, time index ~ k*dts,
    values ~ textbook Euler/Heun in float64 (1e-9 relative).  Unit level (poisoned np.empty) and end to end."""
    import pyrates.backend.base.base_backend as bb
    from pyrates.backend.base.base_backend import BaseBackend
    from pyrates import OperatorTemplate, NodeTemplate, CircuitTemplate
    bad, done = [], 0
    orig = bb.np
    bb.np = _PoisonNP(orig)
    try:
        for dt in (0.1, 0.2, 0.01, 0.3, 0.05):
            for sfac in (1, 2, 5):
                for m in (1, 2, 3, 6, 7, 9, 12):
                    dts = dt * sfac
                    T = m * dts
                    for meth in ("euler", "heun"):
                        def func(t, y):
                            return np.array([-0.5 * y[0] + 0.25 * y[1], 0.5 * y[0] - 0.1 * y[1] + 0.01 * t])
                        y = np.array([1.0, 2.0])
                        try:
                            rec = (BaseBackend._solve_euler if meth == "euler" else BaseBackend._solve_heun)(func, (), T, dt, dts, y.copy(), 0)
                        except Exception as e:
                            bad.append({"level": "unit", "T": T, "dt": dt, "dts": dts, "method": meth, "error": type(e).__name__})
                            continue
                        done += 1
                        exp_rows = round(T / dts)
                        ref, yy = [], np.array([1.0, 2.0])
                        for i in range(round(T / dt)):
                            if i % sfac == 0:
                                ref.append(yy.copy())
                            k1 = func(i, yy)
                            if meth == "euler":
                                yy = yy + dt * k1
                            else:
                                yy = yy + dt / 2 * (k1 + func(i, yy + dt * k1))
                        ref = np.array(ref[:exp_rows])
                        if rec.shape[0] != exp_rows or np.isnan(rec).any() or ref.shape != rec.shape or not np.allclose(rec, ref, rtol=1e-9, atol=1e-12):
                            bad.append({"level": "unit", "T": T, "dt": dt, "dts": dts, "method": meth, "rows": int(rec.shape[0]), "expected_rows": exp_rows,
                                        "nan_rows": [int(i) for i in np.where(np.isnan(rec).any(axis=1))[0]]})
        # end to end: index and row count on non-dyadic grids
        with warnings.catch_warnings():
            warnings.simplefilter("ignore")
            wd = tempfile.mkdtemp(prefix="c03g_")
            cwd = os.getcwd()
            os.chdir(wd)
            try:
                grid_cfgs = [(T_, dt_, dts_, "default") for (T_, dt_, dts_) in [(0.7, 0.1, 0.1), (0.3, 0.1, None), (0.6, 0.2, 0.2), (1.4, 0.1, 0.2), (0.9, 0.3, 0.3), (2.1, 0.1, 0.7), (0.35, 0.05, 0.05)]]
                # sampling steps whose quotient with the step lies just below an integer in floating point (0.3/0.1 = 2.9999999999999996), on every backend's own loop
                grid_cfgs += [(T_, dt_, dts_, be_) for be_ in ("default", "torch", "jax") for (T_, dt_, dts_) in [(0.9, 0.1, 0.3), (1.2, 0.1, 0.6), (1.4, 0.1, 0.7)]]
                for (T, dt, dts, be) in grid_cfgs:
                    op = OperatorTemplate(name="op", equations=["x' = -0.5*x + 0.25*z", "z' = 0.5*x"], variables={"x": "output(1.0)", "z": "variable(2.0)"}, path=None)
                    c = CircuitTemplate(name="c", nodes={"p": NodeTemplate(name="n", operators=[op], path=None)}, edges=[])
                    kw = dict(simulation_time=T, step_size=dt, solver="euler", outputs={"x": "p/op/x", "z": "p/op/z"}, float_precision="float64",
                              verbose=False, in_place=False)
                    if dts:
                        kw["sampling_step_size"] = dts
                    if be != "default":
                        kw["backend"] = be
                    bb.np = _PoisonNP(orig) if be == "default" else orig        # (the poisoned allocator is for the numpy loops only)
                    st = dts or dt
                    try:
                        r = c.run(**kw)
                    except Exception as e:
                        bad.append({"level": "e2e", "backend": be, "T": T, "dt": dt, "dts": dts, "error": type(e).__name__})
                        continue
                    done += 1
                    sf = round(st / dt)
                    yy = np.array([1.0, 2.0])
                    ref = []
                    for i in range(round(T / dt)):
                        if i % sf == 0:
                            ref.append(yy.copy())
                        yy = yy + dt * np.array([-0.5 * yy[0] + 0.25 * yy[1], 0.5 * yy[0]])
                    ref = np.array(ref[:round(T / st)])
                    vals = r[["x", "z"]].values if r.shape[1] == 2 else r.values
                    if vals.shape != ref.shape or np.isnan(vals).any() or not np.allclose(vals, ref, rtol=1e-9) \
                            or not np.allclose(r.index.values, np.arange(round(T / st)) * st, atol=1e-12):
                        bad.append({"level": "e2e", "backend": be, "T": T, "dt": dt, "dts": dts, "shape": list(vals.shape), "expected_shape": list(ref.shape),
                                    "index": r.index.values.tolist(), "nan": bool(np.isnan(vals).any())})
            finally:
                os.chdir(cwd)
                shutil.rmtree(wd, ignore_errors=True)
    finally:
        bb.np = orig
    return {"done": done, "bad": bad}


def cutoff_decimal_probe(seed):
    """cutoffs that lie ON a decimal sampling grid (step 0.01, 0.02, 0.005): exactly the rows whose index label is >= cutoff are returned"""
    from pyrates import OperatorTemplate, NodeTemplate, CircuitTemplate
    rng = random.Random(seed)
    bad, done = [], 0
    wd = tempfile.mkdtemp(prefix="c03c_")
    cwd = os.getcwd()
    os.chdir(wd)
    try:
        with warnings.catch_warnings():
            warnings.simplefilter("ignore")
            plans = [(0.01, [7, 14, 28, 56, 29, 57, 58] + rng.sample(range(1, 99), 4)), (0.02, [7, 14, 28] + rng.sample(range(1, 49), 2)), (0.005, [7, 14, 28, 56])]
            for step, ks in plans:
                T = step * 100 if step != 0.02 else 1.0
                n = int(round(T / step))
                times = np.arange(n) * step
                full = None
                for k in [0] + ks:
                    cutoff = float(repr(round(k * step, 6)))          # the decimal literal a user would write (0.07, not 7*0.01)
                    op = OperatorTemplate(name="op", equations=["x' = -x"], variables={"x": "output(1.0)"}, path=None)
                    c = CircuitTemplate(name="c", nodes={"p": NodeTemplate(name="n", operators=[op], path=None)}, edges=[])
                    r = c.run(simulation_time=T, step_size=step, solver="euler", outputs={"x": "p/op/x"}, float_precision="float64", verbose=False, clear=True, cutoff=cutoff)
                    idx = [float(t) for t in r.index.values]
                    vals = [float(v) for v in np.asarray(r.values).reshape(-1)]
                    if k == 0:
                        full = dict(zip(idx, vals))
                    want = [float(t) for t in times if t >= cutoff]
                    done += 1
                    if idx != want or any(full.get(t) != v for t, v in zip(idx, vals)):
                        bad.append({"step": step, "cutoff": cutoff, "rows": len(idx), "expected_rows": len(want), "first_label": idx[:1], "expected_first_label": want[:1]})
    finally:
        os.chdir(cwd)
        shutil.rmtree(wd, ignore_errors=True)
    return {"done": done, "bad": bad}


def same(a, b):
    if "crash" in a or "crash" in b:
        return False
    if "error" in a or "error" in b:
        return a.get("error") == b.get("error")
    return a["rows"] == b["rows"]


# the two loud findings of this stream (single stored row, T not a multiple of the sampling step) were repaired in /repo: nothing is suppressed here
KNOWN = {}


def explicit_t_probe(_):
    """time-dependent terms: `x' = c*t` under euler with dt != 1 must integrate the *time* t (the clause 'all solvers converge to the
    same trajectory, time-dependent terms included').  Returns list of failing probes."""
    from pyrates import OperatorTemplate, NodeTemplate, CircuitTemplate
    bad = []
    wd = tempfile.mkdtemp(prefix="c03t_")
    cwd = os.getcwd()
    os.chdir(wd)
    try:
        for solver, dt in [("euler", 0.5), ("heun", 0.25)]:
            with warnings.catch_warnings():
                warnings.simplefilter("ignore")
                op = OperatorTemplate(name="op", equations=["x' = 2.0*t"], variables={"x": "output(0.0)", "t": "variable(0.0)"}, path=None)
                c = CircuitTemplate(name="c", nodes={"p": NodeTemplate(name="n", operators=[op], path=None)}, edges=[])
                r = c.run(simulation_time=2.0, step_size=dt, sampling_step_size=1.0, solver=solver, outputs={"x": "p/op/x"},
                          float_precision="float64", verbose=False, in_place=False)
            # Euler on x' = 2t from 0 with step dt: x(1) = 2*dt^2 * sum_{i<1/dt} i
            n1 = int(1 / dt)
            exp1 = 2 * dt * dt * sum(range(n1))     # heun with same-step corrector = euler for a field that depends on t only
            vals = r.values.ravel()
            if len(vals) != 2:
                continue                             # row-count problems are the main stream's business
            got1 = float(vals[1])
            if abs(got1 - exp1) > 1e-12:
                bad.append({"solver": solver, "dt": dt, "x_at_1": got1, "expected_from_time_t": exp1})
    finally:
        os.chdir(cwd)
        shutil.rmtree(wd, ignore_errors=True)
    return bad


def smoke_adaptive(rng, n):
    """Labelled float-stream smoke comparison (NOT part of the proof claim): scipy RK45 on linear decay vs closed form."""
    from pyrates import OperatorTemplate, NodeTemplate, CircuitTemplate
    bad = []
    done = 0
    wd = tempfile.mkdtemp(prefix="c03s_")
    cwd = os.getcwd()
    os.chdir(wd)
    try:
        for _ in range(n):
            a = rng.choice([0.5, 1.0, 2.0])
            x0 = rng.choice([1.0, -2.0, 3.0])
            with warnings.catch_warnings():
                warnings.simplefilter("ignore")
                op = OperatorTemplate(name="op", equations=[f"x' = -{a}*x"], variables={"x": f"output({x0})"}, path=None)
                c = CircuitTemplate(name="c", nodes={"p": NodeTemplate(name="n", operators=[op], path=None)}, edges=[])
                r = c.run(simulation_time=2.0, step_size=0.01, sampling_step_size=0.25, solver="scipy", outputs={"x": "p/op/x"},
                          float_precision="float64", verbose=False, in_place=False, rtol=1e-8, atol=1e-10)
            done += 1
            if r.values.shape != (8, 1):
                bad.append({"a": a, "x0": x0, "shape": list(r.values.shape)})
                continue
            ref = x0 * np.exp(-a * r.index.values)
            if r.values.shape != (8, 1) or np.max(np.abs(r.values.ravel() - ref)) > 1e-5 or not np.allclose(r.index.values, np.arange(8) * 0.25):
                bad.append({"a": a, "x0": x0, "got": r.values.ravel().tolist(), "ref": ref.tolist(), "index": r.index.values.tolist()})
        # every scipy method against the closed form of a two-variable system (tight tolerances); integrators that keep the array the vector field returned
        # (DOP853's dense output) must not see it overwritten by later calls
        tt = np.arange(8) * 0.25
        ref2 = 2 * np.exp(-tt) - np.exp(-2 * tt)
        for backend in ("default", "torch", "jax"):
            for method in ("RK45", "DOP853", "Radau", "LSODA"):
                try:
                    with warnings.catch_warnings():
                        warnings.simplefilter("ignore")
                        op = OperatorTemplate(name="op2", equations=["x' = -a*x + z", "z' = -z"], variables={"x": "output(1.0)", "z": "variable(2.0)", "a": 2.0}, path=None)
                        c = CircuitTemplate(name="c2", nodes={"p": NodeTemplate(name="n2", operators=[op], path=None)}, edges=[])
                        r = c.run(simulation_time=2.0, step_size=0.01, sampling_step_size=0.25, solver="scipy", method=method, rtol=1e-10, atol=1e-12, outputs={"x": "p/op2/x"},
                                  float_precision="float64", verbose=False, in_place=rng.random() < 0.5, backend=backend, vectorize=False)
                    done += 1
                    err = float(np.max(np.abs(np.asarray(r.values).ravel() - ref2)))
                    if not (err < 1e-7):
                        bad.append({"adaptive_method": method, "backend": backend, "max_abs_error_vs_closed_form": err, "rtol": 1e-10, "atol": 1e-12})
                except Exception as e:
                    bad.append({"adaptive_method": method, "backend": backend, "raise": f"{type(e).__name__}: {str(e)[:200]}"})
        # wiring of the adaptive call: what the user asked for must reach scipy.integrate.solve_ivp unchanged
        import scipy.integrate as _si
        orig = _si.solve_ivp
        for backend in ("default", "jax", "torch"):
            seen = {}

            def spy(fun, t_span, y0, *a, **kw):
                seen.update({"t_span": [float(x) for x in t_span], "y0": [float(x) for x in np.asarray(y0).ravel()],
                             "kw": {k: (v.tolist() if hasattr(v, "tolist") else v) for k, v in kw.items() if k != "args"}})
                return orig(fun, t_span, y0, *a, **kw)
            user = {"method": rng.choice(["RK45", "RK23", "DOP853", "LSODA"]), "rtol": rng.choice([1e-7, 1e-9]), "atol": rng.choice([1e-11, 1e-13]), "max_step": rng.choice([0.05, 0.125])}
            try:
                _si.solve_ivp = spy
                with warnings.catch_warnings():
                    warnings.simplefilter("ignore")
                    op = OperatorTemplate(name="opw", equations=["x' = -0.5*x"], variables={"x": "output(2.0)"}, path=None)
                    c = CircuitTemplate(name="cw", nodes={"p": NodeTemplate(name="nw", operators=[op], path=None)}, edges=[])
                    c.run(simulation_time=2.0, step_size=0.01, sampling_step_size=0.25, solver="scipy", outputs={"x": "p/opw/x"}, float_precision="float64", verbose=False,
                          in_place=False, backend=backend, **user)
                done += 1
                kw = seen.get("kw", {})
                probs = [k for k, v in user.items() if kw.get(k) != v]
                if not seen:
                    bad.append({"wiring": backend, "what": "scipy.integrate.solve_ivp was not called"})
                elif probs or seen["t_span"] != [0.0, 2.0] or seen["y0"] != [2.0] or kw.get("first_step") != 0.01 or \
                        not np.allclose(np.asarray(kw.get("t_eval", []), dtype=float), np.arange(8) * 0.25, rtol=0, atol=1e-15):
                    bad.append({"wiring": backend, "what": "options given to run() did not reach solve_ivp unchanged", "lost_or_changed": probs, "requested": user, "received": kw,
                                "t_span": seen["t_span"], "y0": seen["y0"]})
            except Exception as e:
                bad.append({"wiring": backend, "raise": f"{type(e).__name__}: {str(e)[:200]}"})
            finally:
                _si.solve_ivp = orig
    finally:
        os.chdir(cwd)
        shutil.rmtree(wd, ignore_errors=True)
    return done, bad


def check(tier, seed, replay=None):
    rep = C.Report(PID, tier, seed)
    rng = random.Random(seed)
    proof_ok, detail = C.prepare_lean(rep)
    # (forked first: this stream uses jax and torch in the child, which does not survive a fork of a parent that has already started their threads)
    fg = C.run_forked(float_grid, [0], timeout=1200)[0] if not replay else {"done": 0, "bad": []}
    tables, _ = extract_tables.extract(C.REPO)
    rep.cov["rule"] = ("exact polynomial vector fields (dyadic coefficients, degree <= 2, optional integer input samples indexed by the step counter, "
                       "optional explicit step-counter dependence at unit level) integrated with (T, dt, dts, cutoff) where dts = s*dt, T = m*dts; "
                       "unit = real _solve_euler/_solve_heun with in-place-buffer and fresh-array vector fields; e2e = CircuitTemplate.run on a one-node model, "
                       "values + index + shape compared cell by cell.  distinct = distinct case descriptions; non-trivial = at least 2 integration steps")
    rep.assumptions += ["exact sample space: every case whose exact iterates need more than 44 bits or a non-dyadic value is discarded (counted)",
                        "adaptive solvers (scipy) are NOT covered by the theorems: labelled smoke stream only"]
    if replay:
        cases = [json.load(open(replay))["case"]]
    else:
        n_unit, n_e2e = (250, 120) if tier == "quick" else (4000, 1500)
        cases = [json.load(open(f))["case"] for f in sorted(glob.glob(os.path.join(C.VERIF, "corpus", PID, "*.json")))]
        cases += [gen_case(rng, "unit") for _ in range(n_unit)] + [gen_case(rng, "e2e") for _ in range(n_e2e)]
        cases += [gen_case(rng, "e2e", jax_nonmultiple=True) for _ in range(8 if tier == "quick" else 60)]
    # oracle first: discard inexact cases (and draw replacements so the budget is met)
    kept, specs, discarded = [], [], 0
    want = len(cases)
    queue = list(cases)
    while queue and len(kept) < want:
        c = queue.pop(0)
        sp, bits = spec_out(c)
        if bits > 44:
            discarded += 1
            if not replay and discarded < 20 * want:
                queue.append(gen_case(rng, c["kind"]))
            continue
        kept.append(c)
        specs.append(sp)
    rep.cov["streams"]["discarded_inexact"] = discarded
    impl = C.run_forked(run_impl, kept, timeout=120)
    drv = C.Driver()
    model = drv.ask_many([model_request(c, tables) for c in kept])
    drv.close()
    corr_bad, spec_bad = [], []
    active_kf = [f["id"] for f in C.load_known_findings() if f.get("property") == PID and f.get("status") == "known" and f["id"] in KNOWN]
    for c, im, mo, sp in zip(kept, impl, model, specs):
        steps = int(Fraction(c["T"]) / Fraction(c["dt"]))
        rep.count(f"{c['kind']}-{c['method']}" + ("-inplace" if c["inplace"] and c["kind"] == "unit" else "") + ("-jax" if c.get("backend") == "jax" else "")
                  + ("-Tnonmultiple" if (Fraction(c["T"]) / Fraction(c["dts"])).denominator != 1 else ""), json.dumps(c, sort_keys=True), steps >= 2)
        if "crash" in im:
            raise C.HarnessError("harness child crashed: " + str(im))
        if "error" in mo and mo["error"] not in ("IndexError", "ZeroDivisionError", "LengthMismatch"):
            raise C.HarnessError("model driver rejected a request: " + str(mo))
        if same(im, mo):
            rep.validated()
        else:
            corr_bad.append((c, im, mo))
        if not same(im, sp):
            kf = [k for k in active_kf if KNOWN[k][0](c, im)]
            if kf:
                rep.known_finding(f"{kf[0]}: {KNOWN[kf[0]][1]}")
                rep.cov["streams"]["known_finding_cases"] = rep.cov["streams"].get("known_finding_cases", 0) + 1
                if corr_bad and corr_bad[-1][0] is c:
                    corr_bad.pop()
            else:
                spec_bad.append((c, im, sp))
        rep.sample({"case": {k: c[k] for k in ("kind", "method", "T", "dt", "dts", "cutoff", "y0", "field")}, "impl": im if "error" in im else im["rows"][:3]})
    rep.cov["streams"].update({"impl_vs_model_disagreements": len(corr_bad), "impl_vs_spec_disagreements": len(spec_bad)})
    ns, sbad = smoke_adaptive(rng, 3 if tier == "quick" else 12) if not replay else (0, [])
    rep.cov["streams"]["adaptive_smoke_runs_not_part_of_proof"] = ns
    rep.cov["streams"]["adaptive_smoke_failures"] = len(sbad)
    if "crash" in fg:
        raise C.HarnessError("float-grid stream crashed or timed out: " + str(fg.get("crash"))[:300])
    rep.count("float-grid (non-dyadic T, dt, dts; poisoned np.empty)", None, n=fg["done"])
    rep.cov["streams"]["float_grid_runs"] = fg["done"]
    rep.cov["streams"]["float_grid_failures"] = len(fg["bad"])
    if fg["bad"]:
        rep.violation("fixed-step run on a non-dyadic (T, dt, dts) grid: wrong number of rows, an unwritten (garbage) row, wrong index or wrong values", {"float_grid": fg["bad"][:5]})
    tbad = C.run_forked(explicit_t_probe, [0])[0] if not replay else []
    if isinstance(tbad, dict):      # the probe itself raised inside PyRates: not this probe's question
        rep.notes.append("explicit-t probe raised: " + str(tbad.get("crash")))
        tbad = []
    cp = C.run_forked(cutoff_decimal_probe, [seed], timeout=600)[0] if not replay else {"done": 0, "bad": []}
    if "crash" in cp:
        raise C.HarnessError("cutoff probe crashed: " + str(cp)[:400])
    rep.count("cutoff-on-decimal-grid", None, n=cp["done"])
    if cp["bad"]:
        rep.violation(f"cutoff on a decimal grid: run() does not return exactly the rows with time >= cutoff (step {cp['bad'][0]['step']}, cutoff {cp['bad'][0]['cutoff']})", {"cutoff_probe": cp["bad"][:5]})
    else:
        for _ in range(cp["done"]):
            rep.validated()
    rep.count("explicit-t-probe", None, n=2)
    if tbad:
        if "C03-explicit-t" in [f["id"] for f in C.load_known_findings() if f.get("status") == "known"]:
            rep.known_finding("C03-explicit-t: an equation that mentions t sees the step counter (not time) under euler/heun, so fixed-step and adaptive solvers disagree for dt != 1")
        else:
            rep.violation("explicit time dependence: fixed-step solvers integrate the step counter instead of time", {"probe": tbad})
    # ---- verdict
    if sbad:
        rep.violation("adaptive solver result is far from the closed-form solution / wrong time index (smoke stream)", {"smoke": sbad[0]})
    if spec_bad:
        c, im, sp = min(spec_bad, key=lambda x: len(json.dumps(x[0])))
        rep.violation(f"{c['kind']} {c['method']}: returned rows/index are not the {c['method']} iterates at times k*dts",
                      {"case": c, "impl": im, "spec": sp})
    elif corr_bad or not proof_ok:
        why = {"proof_ok": proof_ok, "build_log_tail": detail["build_log_tail"], "forbidden": detail["forbidden"],
               "audit_failures": (detail["audit"] or {}).get("failures"),
               "correspondence_first_disagreement": corr_bad[0] if corr_bad else None,
               "broken": ("theorems of PyRatesModel.Props.C03 (build/audit) " if not proof_ok else "") + ("correspondence impl-vs-model" if corr_bad else "")}
        # escalated search with the oracle on the implementation
        extra = [gen_case(rng, k) for k in ["unit"] * 1500 + ["e2e"] * 300]
        extra = [c for c in extra if spec_out(c)[1] <= 44]
        res = C.run_forked(run_impl, extra, timeout=120)
        found = [(c, im) for c, im in zip(extra, res) if not same(im, spec_out(c)[0]) and not any(KNOWN[k][0](c, im) for k in active_kf)]
        if found:
            c, im = min(found, key=lambda x: len(json.dumps(x[0])))
            rep.violation(f"{c['kind']} {c['method']}: returned rows/index are not the iterates (escalated search)", {"case": c, "impl": im, "spec": spec_out(c)[0], "why_searched": why})
        else:
            rep.violation("C03 is no longer shown to hold: " + why["broken"], why, no_input=True, name="unproved")
    return rep.finish()
