"""C19 — DDEHistory returns the piecewise-linear interpolant of what it was given.

Proof: lean/PyRatesModel/Props/C19.lean (refinement of the buffer to the list of records; query clauses).
Correspondence: scripted update/query/mutate sequences run on the real class and on the Lean model (exact dyadic data).
Oracle (failing-input search): an independent Fraction implementation of the property's own wording."""
import random, json, copy
from fractions import Fraction
import numpy as np
from .. import common as C
from ..common import q2s, fl2q

PID = "C19"


def dyadic(rng, lo=-64, hi=64, den_pow=3):
    return Fraction(rng.randint(lo * 2 ** den_pow, hi * 2 ** den_pow), 2 ** den_pow)


def gen_case(rng, tier, profile=None):
    """a script: init + ops.  Times strictly increasing dyadics.  Profiles steer strata."""
    profile = profile or rng.choice(["small-cap", "small-cap", "bounded", "bounded-big", "true-cap", "scalar", "matrix", "f32", "complex", "int64"])
    shape = rng.choice([(1,), (2,), (3,), (5,)])
    dtype = "float64"
    init_cap = None      # None -> class default
    max_steps = None
    n_updates = rng.randint(0, 12)
    if profile == "small-cap":
        init_cap = rng.choice([1, 2, 3, 4])
        n_updates = rng.randint(init_cap, init_cap * 9 + 3)     # through 1-3 growth events
    elif profile == "bounded":
        max_steps = rng.choice([1, 2, 3, 5, 8])
        n_updates = rng.randint(max(0, max_steps - 2), max_steps + 3)
    elif profile == "bounded-big":
        # a bound above the default capacity that is not capacity * factor^k: the bound itself must hold
        max_steps = rng.choice([1025, 1030, 1500, 2049]) if tier == "thorough" or rng.random() < 0.5 else rng.choice([1025, 1100])
        n_updates = max_steps + rng.randint(0, 3)
        shape = rng.choice([(1,), (2,)])
    elif profile == "true-cap":
        n_updates = rng.choice([1022, 1023, 1024, 1025, 2047, 2048, 2050]) if tier == "thorough" or rng.random() < 0.5 else rng.choice([1023, 1024, 1030])
    elif profile == "scalar":
        shape = ()
    elif profile == "matrix":
        shape = rng.choice([(2, 2), (2, 3), (1, 4)])
    elif profile == "f32":
        dtype = "float32"
    elif profile in ("complex", "int64"):
        dtype = "complex128" if profile == "complex" else "int64"
        init_cap = rng.choice([1, 2, 3])
        n_updates = rng.randint(init_cap, init_cap * 5 + 3)
    size = int(np.prod(shape)) if shape else 1
    if dtype == "complex128":
        size *= 2            # wire format: interleaved (re, im)
    if dtype == "int64":
        _dy = lambda: Fraction(rng.randint(-2 ** 40, 2 ** 40))
    else:
        _dy = lambda: dyadic(rng)
    t = dyadic(rng, -4, 4)
    t0 = t
    y0 = [_dy() for _ in range(size)]
    ops = []
    times = [t0]
    for k in range(n_updates):
        t = t + Fraction(rng.randint(1, 24), 8)
        times.append(t)
        y = [_dy() for _ in range(size)]
        ops.append(["u", q2s(t), [q2s(v) for v in y], rng.random() < 0.4])   # last: mutate caller's array afterwards
        # interleaved queries
        nq = 0 if n_updates > 100 and rng.random() < 0.9 else rng.choice([0, 0, 1, 2])
        for _ in range(nq):
            ops.append(["q", q2s(gen_query_time(rng, times))])
    for _ in range(rng.randint(2, 8)):
        ops.append(["q", q2s(gen_query_time(rng, times))])
    ops.append(["abs"])
    return {"profile": profile, "shape": list(shape), "dtype": dtype, "init_cap": init_cap, "max_steps": max_steps,
            "mutate_y0": rng.random() < 0.5,       # the caller re-uses the array it passed as y0
            "t0": q2s(t0), "y0": [q2s(v) for v in y0], "ops": ops}


def gen_query_time(rng, times):
    k = rng.random()
    if k < 0.15:
        return times[0] - Fraction(rng.randint(0, 16), 8)          # at/before the initial time
    if k < 0.3:
        return times[-1] + Fraction(rng.randint(0, 16), 8)         # at/after the last
    if k < 0.5:
        return rng.choice(times)                                   # exactly at a record
    i = rng.randrange(len(times))
    j = min(i + 1, len(times) - 1)
    a, b = times[i], times[j]
    return a + (b - a) * Fraction(rng.randint(0, 8), 8)             # dyadic point in an interval


# ------------------------------------------------------------------ the three executions
def run_impl(case):
    """real class.  init_cap is applied through a subclass attribute (the code reads self._INITIAL_CAPACITY)."""
    from pyrates.backend.base.base_backend import DDEHistory
    cls = DDEHistory
    if case["init_cap"] is not None:
        cls = type("H", (DDEHistory,), {"_INITIAL_CAPACITY": case["init_cap"]})
    shape = tuple(case["shape"])
    dt = np.dtype(case["dtype"])
    def mk(vals):
        if dt.kind == "c":
            fl = [float(Fraction(v)) for v in vals]
            return np.array([complex(a, b) for a, b in zip(fl[0::2], fl[1::2])], dtype=dt).reshape(shape)
        if dt.kind == "i":
            return np.array([int(Fraction(v)) for v in vals], dtype=dt).reshape(shape)
        return np.array([float(Fraction(v)) for v in vals], dtype=dt).reshape(shape)

    def flat(v):
        v = np.asarray(v)
        if v.dtype.kind == "c":
            v = np.stack([v.real.reshape(-1), v.imag.reshape(-1)], axis=1).reshape(-1)
        return [C.f2s(x) for x in np.asarray(v, dtype=np.float64).reshape(-1)]
    y0 = mk(case["y0"])
    h = cls(y0, float(Fraction(case["t0"])), case["max_steps"])
    if case.get("mutate_y0") and y0.shape != ():
        y0 += 1000
    out = []
    for op in case["ops"]:
        if op[0] == "u":
            y = mk(op[2])
            try:
                h.update(float(Fraction(op[1])), y)
                out.append("ok")
            except IndexError as e:
                out.append("err:full" if "max_steps" in str(e) else "raise:IndexError")
            except Exception as e:
                out.append(f"raise:{type(e).__name__}")
            if op[3] and y.shape != ():
                y += 1000            # caller re-uses its array
        elif op[0] == "q":
            try:
                v = h(float(Fraction(op[1])))
                if dt.kind == "c" and np.asarray(v).dtype.kind != "c":
                    out.append("dtype-lost:" + str(np.asarray(v).dtype))
                else:
                    out.append(flat(v))
            except Exception as e:
                out.append(f"raise:{type(e).__name__}")
        elif op[0] == "abs":
            if h._y.dtype != dt:
                out.append("dtype-changed:%s->%s" % (dt, h._y.dtype))
            else:
                out.append([[C.f2s((h._t[i])), flat(h._y[i])] for i in range(h._n)])
    return out, int(type(h)._INITIAL_CAPACITY), int(type(h)._GROW_FACTOR)


def model_request(case, init_cap, gf):
    ops = [[o[0], o[1], o[2]] if o[0] == "u" else o for o in case["ops"]]
    return {"comp": "hist", "y0": case["y0"], "t0": case["t0"], "max_steps": case["max_steps"],
            "init_cap": init_cap, "gf": gf, "ops": ops}


def run_spec(case):
    """the property's wording, independently: records = list; bounded refuses beyond capacity"""
    recs = [(Fraction(case["t0"]), [Fraction(v) for v in case["y0"]])]
    cap = None if case["max_steps"] is None else max(int(case["max_steps"]), 1)
    out = []
    for op in case["ops"]:
        if op[0] == "u":
            if cap is not None and len(recs) >= cap:
                out.append("err:full")
            else:
                recs.append((Fraction(op[1]), [Fraction(v) for v in op[2]]))
                out.append("ok")
        elif op[0] == "q":
            t = Fraction(op[1])
            if t <= recs[0][0]:
                v = recs[0][1]
            elif t >= recs[-1][0]:
                v = recs[-1][1]
            else:
                v = None
                for (ta, ya), (tb, yb) in zip(recs, recs[1:]):
                    if ta == t:
                        v = ya
                        break
                    if ta < t < tb:
                        v = [a + (t - ta) / (tb - ta) * (b - a) for a, b in zip(ya, yb)]
                        break
            out.append([q2s(x) for x in v])
        elif op[0] == "abs":
            out.append([[q2s(t), [q2s(x) for x in y]] for t, y in recs])
    return out


def float_stream(rng, n):
    """The 'exactly y_i at t = t_i', 'y_0 before' and 'y_last after' clauses on arbitrary (non-dyadic) floats, bit for bit;
    in-between queries against the interpolant with a relative bound.  Pure property oracle on the real class."""
    from pyrates.backend.base.base_backend import DDEHistory
    bad = []
    done = 0
    for _ in range(n):
        k = rng.randint(2, 40)
        dim = rng.randint(1, 4)
        ts = np.cumsum(np.array([rng.uniform(1e-3, 3.0) for _ in range(k)]))
        ys = np.array([[rng.uniform(-1, 1) * 10 ** rng.randint(-3, 6) for _ in range(dim)] for _ in range(k)])
        cls = type("H", (DDEHistory,), {"_INITIAL_CAPACITY": rng.choice([1, 2, 5, 1024])})
        try:
            h = cls(ys[0].copy(), float(ts[0]))
            for i in range(1, k):
                h.update(float(ts[i]), ys[i].copy())
            for i in range(k):
                got = np.array(h(float(ts[i])))
                if not np.array_equal(got, ys[i]):
                    bad.append({"kind": "at-record", "i": i, "ts": ts.tolist(), "ys": ys.tolist(), "got": got.tolist()})
                    break
            if not np.array_equal(np.array(h(float(ts[0]) - 0.5)), ys[0]) or not np.array_equal(np.array(h(float(ts[-1]) + 0.5)), ys[-1]):
                bad.append({"kind": "outside", "ts": ts.tolist(), "ys": ys.tolist()})
            for _q in range(5):
                i = rng.randrange(k - 1)
                a = rng.random()
                t = float(ts[i] + a * (ts[i + 1] - ts[i]))
                if not (ts[i] < t < ts[i + 1]):
                    continue
                ref = [float(Fraction(float(y0)) + (Fraction(t) - Fraction(float(ts[i]))) / (Fraction(float(ts[i + 1])) - Fraction(float(ts[i]))) * (Fraction(float(y1)) - Fraction(float(y0))))
                       for y0, y1 in zip(ys[i], ys[i + 1])]
                got = np.array(h(t))
                scale = max(1e-300, float(np.max(np.abs(ys[i:i + 2]))))
                if np.max(np.abs(got - np.array(ref))) > 1e-9 * scale:
                    bad.append({"kind": "between", "i": i, "t": t, "ts": ts.tolist(), "ys": ys.tolist(), "got": got.tolist(), "ref": ref})
                    break
        except Exception as e:
            bad.append({"kind": "raise", "exc": f"{type(e).__name__}: {e}", "ts": ts.tolist(), "ys": ys.tolist()})
        done += 1
    return done, bad


def exact_ok(case):
    """float32 cases: all values must be exactly representable (dyadic with small numerators -> yes)"""
    return True


def first_diff(a, b):
    for i, (x, y) in enumerate(zip(a, b)):
        if x != y:
            return i, x, y
    if len(a) != len(b):
        return min(len(a), len(b)), None, None
    return None


def shrink(case, still_fails):
    """delta-debug the op list"""
    ops = case["ops"]
    changed = True
    while changed and len(ops) > 1:
        changed = False
        for i in range(len(ops) - 1, -1, -1):
            trial = dict(case, ops=ops[:i] + ops[i + 1:])
            try:
                if still_fails(trial):
                    ops = trial["ops"]
                    case = trial
                    changed = True
            except Exception:
                pass
    return case


def spec_fails(case):
    impl, _, _ = run_impl(case)
    return first_diff(impl, run_spec(case)) is not None


def check(tier, seed, replay=None):
    rep = C.Report(PID, tier, seed)
    rng = random.Random(seed)
    proof_ok, detail = C.prepare_lean(rep)
    rep.cov["rule"] = ("scripted DDEHistory sessions (init, updates with strictly increasing dyadic times, interleaved queries "
                       "before/after/at/between records, caller-array mutation after update, final record dump); profiles: small initial "
                       "capacity (1-3 growth events), bounded max_steps, the source's real capacity crossed (1024/2048), shapes (), (n,), (n,m), "
                       "float32/float64.  distinct = distinct scripts; non-trivial = at least one update and one query")
    rep.assumptions += ["floats are compared exactly: all data are dyadic rationals, every intermediate of the interpolation is exactly representable"
                        " or the case is compared against the oracle in float64 with exact rational arithmetic on both sides",
                        "state of any shape is flattened in C order"]
    if replay:
        cases = [json.load(open(replay))["case"]]
    else:
        n = 300 if tier == "quick" else 6000
        cases = []
        import glob, os
        for f in sorted(glob.glob(os.path.join(C.VERIF, "corpus", PID, "*.json"))):
            cases.append(json.load(open(f))["case"])
        cases += [gen_case(rng, tier) for _ in range(n)]
    drv = C.Driver()
    impl_results = []
    for case in cases:
        try:
            impl_results.append(run_impl(case))
        except Exception as e:  # an exception on a well-formed script is itself an observable
            impl_results.append(([f"raise:{type(e).__name__}:{e}"], 1024, 2))
    reqs = [model_request(c, ic, gf) for c, (_, ic, gf) in zip(cases, impl_results)]
    model_results = drv.ask_many(reqs)
    drv.close()
    corr_bad, spec_bad = [], []
    for case, (impl, ic, gf), mod in zip(cases, impl_results, model_results):
        key = json.dumps(case, sort_keys=True)
        nu = sum(1 for o in case["ops"] if o[0] == "u")
        nq = sum(1 for o in case["ops"] if o[0] == "q")
        rep.count(case["profile"], key, nontrivial=(nu > 0 and nq > 0))
        if "error" in mod:
            raise C.HarnessError("model driver rejected a request: " + str(mod))
        spec = run_spec(case)
        # float32 interpolation may round: compare only when exact (dyadic/8 inputs & 1/8 fractions fit float32's 24 bits here)
        d_corr = first_diff(impl, mod["out"])
        d_spec = first_diff(impl, spec)
        if d_corr is None:
            rep.validated()
        else:
            corr_bad.append((case, d_corr))
        if d_spec is not None:
            spec_bad.append((case, d_spec))
        rep.sample({"profile": case["profile"], "n_ops": len(case["ops"]), "first_ops": case["ops"][:4], "impl_out_head": impl[:4]})
    rep.cov["streams"] = {"impl_vs_model_disagreements": len(corr_bad), "impl_vs_spec_disagreements": len(spec_bad),
                          "growth_events_crossed_cases": sum(1 for c, (_, ic, gf) in zip(cases, impl_results)
                                                             if c["max_steps"] is None and sum(1 for o in c["ops"] if o[0] == "u") >= ic)}
    nfl, fl_bad = float_stream(rng, 200 if tier == "quick" else 4000) if not replay else (0, [])
    rep.cov["streams"]["float_stream_sessions"] = nfl
    rep.cov["streams"]["float_stream_failures"] = len(fl_bad)
    rep.count("float-stream", None, n=nfl)
    # ---------------- verdict (failure protocol)
    if fl_bad:
        rep.violation("DDEHistory does not return exactly the record / interpolant on general floats: " + fl_bad[0]["kind"],
                      {"float_case": fl_bad[0], "how_to_replay": "feed ts/ys to DDEHistory(ys[0], ts[0]).update(...) and query"})
    if spec_bad:
        case, d = spec_bad[0]
        small = shrink(case, spec_fails)
        impl, _, _ = run_impl(small)
        rep.violation("DDEHistory output differs from the piecewise-linear interpolant of the records it was given",
                      {"case": small, "impl_out": impl, "spec_out": run_spec(small), "first_diff_index": first_diff(impl, run_spec(small)),
                       "how_to_replay": "./check C19 --replay <this file>"})
    elif corr_bad or not proof_ok:
        # proof or correspondence broke but the oracle found no failing input on anything explored: escalate the search
        extra = [gen_case(rng, "thorough") for _ in range(3000)]
        found = None
        for case in extra:
            try:
                if spec_fails(case):
                    found = case
                    break
            except Exception as e:
                found = case
                break
        if found:
            small = shrink(found, spec_fails)
            impl, _, _ = run_impl(small)
            rep.violation("DDEHistory output differs from the piecewise-linear interpolant (found by escalated search)",
                          {"case": small, "impl_out": impl, "spec_out": run_spec(small)})
        else:
            why = {"proof_ok": proof_ok, "build_log_tail": detail["build_log_tail"], "forbidden": detail["forbidden"],
                   "audit_failures": (detail["audit"] or {}).get("failures"),
                   "correspondence_first_disagreement": (corr_bad[0][0], corr_bad[0][1]) if corr_bad else None,
                   "broken": ("theorems of PyRatesModel.Props.C19 (build/audit)" if not proof_ok else "") +
                             (" correspondence stream hist impl-vs-model" if corr_bad else "")}
            rep.violation("C19 is no longer shown to hold: " + why["broken"], why, no_input=True, name="unproved")
    return rep.finish()
