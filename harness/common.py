"""Shared plumbing for all property checks: paths, seeds, Lean build + axiom audit, the model driver,
forked case execution, evidence, known findings, the failure protocol (DESIGN.md section 4)."""
import os, sys, json, time, subprocess, fcntl, hashlib, random, re, traceback, tempfile, shutil, signal
from fractions import Fraction

VERIF = os.path.dirname(os.path.dirname(os.path.abspath(__file__)))
LEAN = os.path.join(VERIF, "lean")
REPO = os.environ.get("VERIF_REPO", "/repo")
DRIVER = os.path.join(LEAN, ".lake", "build", "bin", "pyrmodel")
EVID = os.path.join(VERIF, "evidence")
REPLAYS = os.path.join(VERIF, "replays")
GUARD = "PYRATES_VERIF"

ALLOWED_AXIOMS = {"propext", "Classical.choice", "Quot.sound"}
FORBIDDEN = re.compile(r"\b(sorry|admit|native_decide|bv_decide|implemented_by)\b|^\s*axiom\s|\bunsafe\s|maxHeartbeats\s+0")


def seed_from_env(default=20260925):
    try:
        return int(os.environ.get("VERIF_SEED", default))
    except ValueError:
        return default


class HarnessError(Exception):
    """internal problem of the machinery (exit 2), never a VIOLATION"""


# --------------------------------------------------------------------------------------------
# Lean side
# --------------------------------------------------------------------------------------------
def _lock():
    os.makedirs(os.path.join(LEAN, ".lake"), exist_ok=True)
    f = open(os.path.join(LEAN, ".lake", "verif.lock"), "w")
    fcntl.flock(f, fcntl.LOCK_EX)
    return f


def regenerate_tables():
    """Translator step (DESIGN 2.2a): rewrite Generated/Tables.lean from /repo's working tree."""
    from . import extract_tables
    return extract_tables.write_tables(REPO, os.path.join(LEAN, "PyRatesModel", "Generated", "Tables.lean"))


def lake_build(targets, timeout=1500):
    """Build the given lake targets.  Returns (ok, output)."""
    lk = _lock()
    try:
        p = subprocess.run(["lake", "build"] + list(targets), cwd=LEAN, stdout=subprocess.PIPE,
                           stderr=subprocess.STDOUT, text=True, timeout=timeout)
        return p.returncode == 0, p.stdout
    finally:
        lk.close()


def strip_comments(src):
    src = re.sub(r"/-.*?-/", "", src, flags=re.S)
    src = re.sub(r"--.*", "", src)
    return src


def scan_forbidden():
    """grep for sorry/admit/axiom/native_decide/... outside comments in every Lean source of the project"""
    hits = []
    for root, _, files in os.walk(LEAN):
        if ".lake" in root:
            continue
        for fn in files:
            if fn.endswith(".lean"):
                p = os.path.join(root, fn)
                for i, line in enumerate(strip_comments(open(p).read()).splitlines()):
                    if FORBIDDEN.search(line):
                        hits.append(f"{os.path.relpath(p, LEAN)}:{line.strip()[:80]}")
    return hits


def load_theorems(pid):
    th = json.load(open(os.path.join(LEAN, "theorems.json")))
    return th.get(pid, {"module": None, "theorems": []})


def audit(pid):
    """`#print axioms` for every theorem registered for the property.
    Returns dict(obligations, discharged, failures:[...], axioms:{thm:[...]})"""
    entry = load_theorems(pid)
    names = [t["name"] for t in entry["theorems"]]
    res = {"obligations": len(names), "discharged": 0, "failures": [], "axioms": {}, "module": entry["module"]}
    if not names:
        return res
    mods = entry["module"] if isinstance(entry["module"], list) else [entry["module"]]
    src = "".join(f"import {m}\n" for m in mods) + "".join(f"#print axioms {n}\n" for n in names)
    tmp = tempfile.mkdtemp(prefix="audit_")
    try:
        f = os.path.join(tmp, f"Audit_{pid}.lean")
        open(f, "w").write(src)
        lk = _lock()
        try:
            p = subprocess.run(["lake", "env", "lean", f], cwd=LEAN, stdout=subprocess.PIPE, stderr=subprocess.STDOUT,
                               text=True, timeout=900)
        finally:
            lk.close()
        out = p.stdout
    finally:
        shutil.rmtree(tmp, ignore_errors=True)
    # parse: "'Name' depends on axioms: [a, b]" or "'Name' does not depend on any axioms"
    flat = re.sub(r"\s+", " ", out)
    for n in names:
        m = re.search(r"'%s' depends on axioms: \[([^\]]*)\]" % re.escape(n), flat)
        if m:
            ax = [a.strip() for a in m.group(1).split(",") if a.strip()]
        elif re.search(r"'%s' does not depend on any axioms" % re.escape(n), flat):
            ax = []
        else:
            res["failures"].append(f"{n}: not found / not checked")
            continue
        res["axioms"][n] = ax
        bad = [a for a in ax if a not in ALLOWED_AXIOMS]
        if bad:
            res["failures"].append(f"{n}: forbidden axioms {bad}")
        else:
            res["discharged"] += 1
    if p.returncode != 0 and not res["failures"]:
        res["failures"].append("audit file failed: " + out[-400:])
    return res


class Driver:
    """persistent model-driver process speaking the one-JSON-line-per-case protocol"""

    def __init__(self):
        if not os.path.exists(DRIVER):
            raise HarnessError("model driver not built: " + DRIVER)
        self.p = subprocess.Popen([DRIVER], stdin=subprocess.PIPE, stdout=subprocess.PIPE, text=True, bufsize=1)

    def ask(self, req):
        self.p.stdin.write(json.dumps(req) + "\n")
        self.p.stdin.flush()
        line = self.p.stdout.readline()
        if not line:
            raise HarnessError("model driver died on " + json.dumps(req)[:300])
        return json.loads(line)

    def ask_many(self, reqs):
        """send all requests then read all answers (pipelined through a thread to avoid pipe deadlock)"""
        import threading
        out = []

        def reader():
            for _ in reqs:
                line = self.p.stdout.readline()
                if not line:
                    break
                out.append(json.loads(line))
        th = threading.Thread(target=reader)
        th.start()
        for r in reqs:
            self.p.stdin.write(json.dumps(r) + "\n")
        self.p.stdin.flush()
        th.join()
        if len(out) != len(reqs):
            raise HarnessError("model driver died (answered %d of %d)" % (len(out), len(reqs)))
        return out

    def close(self):
        try:
            self.p.stdin.close()
            self.p.wait(timeout=10)
        except Exception:
            self.p.kill()


# --------------------------------------------------------------------------------------------
# rationals on the wire
# --------------------------------------------------------------------------------------------
def q2s(x):
    f = x if isinstance(x, Fraction) else Fraction(x)
    return str(f.numerator) if f.denominator == 1 else f"{f.numerator}/{f.denominator}"


def s2q(s):
    return Fraction(s)


def fl2q(x):
    """exact rational value of a float (or numpy scalar)"""
    return Fraction(float(x))


def f2s(x):
    """wire form of a float computed by the implementation: exact rational, or a token for non-finite values"""
    try:
        x = float(x)
    except Exception:
        return "nonfloat:" + type(x).__name__
    if x != x:
        return "nan"
    if x in (float("inf"), float("-inf")):
        return "inf" if x > 0 else "-inf"
    return q2s(Fraction(x))


# --------------------------------------------------------------------------------------------
# forked execution of cases against the real code (PyRates keeps module-level state)
# --------------------------------------------------------------------------------------------
def run_forked(func, items, workers=None, timeout=120, init=None):
    """Run func(item) for every item, each in a forked child of this (pristine) process, `workers` at a time.
    Returns list of results in order; a result is {"ok":..} from func or {"crash":...}."""
    workers = workers or min(16, os.cpu_count() or 4)
    results = [None] * len(items)
    pending = list(enumerate(items))[::-1]
    running = {}  # pid -> (idx, rfd, start)
    import select
    while pending or running:
        while pending and len(running) < workers:
            idx, item = pending.pop()
            r, w = os.pipe()
            pid = os.fork()
            if pid == 0:
                os.close(r)
                try:
                    signal.alarm(timeout)
                    if init:
                        init()
                    res = func(item)
                    data = json.dumps(res)
                except BaseException as e:  # noqa
                    data = json.dumps({"crash": f"{type(e).__name__}: {e}", "tb": traceback.format_exc()[-1500:]})
                try:
                    with os.fdopen(w, "w") as f:
                        f.write(data)
                finally:
                    os._exit(0)
            os.close(w)
            running[pid] = (idx, r, time.time())
        # reap
        done_pid, status = os.wait()
        if done_pid in running:
            idx, r, _ = running.pop(done_pid)
            with os.fdopen(r) as f:
                data = f.read()
            try:
                results[idx] = json.loads(data) if data else {"crash": f"child exited with status {status} and no data"}
            except json.JSONDecodeError:
                results[idx] = {"crash": "undecodable child output", "raw": data[:300]}
    return results


# --------------------------------------------------------------------------------------------
# evidence / findings / verdict
# --------------------------------------------------------------------------------------------
def load_known_findings():
    p = os.path.join(VERIF, "known_findings.json")
    if not os.path.exists(p):
        return []
    return json.load(open(p))["findings"]


TRUSTED_BASE_COMMON = [
    "Lean 4.33 kernel; axioms of every listed theorem audited to be within {propext, Classical.choice, Quot.sound}",
    "no sorry/admit/native_decide/bv_decide/own axioms (grep over the Lean sources on every run)",
    "hand-written model's fidelity to the Python code: validated only by the differential correspondence run reported here",
    "harness: table extractor (ast), canonicalisation (float -> exact Fraction), JSON line protocol, model driver compiled by lean/leanc",
    "CPython, numpy and the other third-party libraries PyRates calls are trusted, exercised but not modelled",
]


class Report:
    """collects what a check run covered and turns it into evidence + exit status"""

    def __init__(self, pid, tier, seed, level="proof"):
        self.pid, self.tier, self.seed, self.level = pid, tier, seed, level
        self.t0 = time.time()
        self.cov = {"obligations": 0, "discharged": 0, "checker_cmd": "", "trusted_base": list(TRUSTED_BASE_COMMON),
                    "traces_validated_against_impl": 0, "evaluations": 0, "distinct_nontrivial": 0, "rule": "",
                    "samples": [], "strata": {}, "streams": {}}
        self.assumptions = []
        self.violations = []      # (what, replay_path, no_input)
        self.known = []           # strings
        self.notes = []
        self._distinct = set()

    def count(self, stratum, case_key=None, nontrivial=True, n=1):
        self.cov["evaluations"] += n
        self.cov["strata"][stratum] = self.cov["strata"].get(stratum, 0) + n
        if case_key is not None and nontrivial:
            self._distinct.add(hashlib.sha1(repr(case_key).encode()).hexdigest())

    def validated(self, n=1):
        self.cov["traces_validated_against_impl"] += n

    def sample(self, s, maxn=4):
        if len(self.cov["samples"]) < maxn:
            self.cov["samples"].append(s)

    def write_replay(self, name, payload):
        os.makedirs(REPLAYS, exist_ok=True)
        h = hashlib.sha1(json.dumps(payload, sort_keys=True, default=str).encode()).hexdigest()[:10]
        path = os.path.join(REPLAYS, f"{self.pid}-{name}-{h}.json")
        json.dump(payload, open(path, "w"), indent=1, default=str)
        return path

    def violation(self, what, payload, no_input=False, name="viol"):
        path = self.write_replay(name, dict(payload, what=what, property=self.pid, seed=self.seed,
                                             no_failing_input_found=no_input))
        self.violations.append((what, path, no_input))

    def known_finding(self, what):
        if what not in self.known:
            self.known.append(what)

    def finish(self):
        self.cov["distinct_nontrivial"] = len(self._distinct)
        ev = {"property_id": self.pid, "tier": self.tier, "seed": self.seed, "level": self.level,
              "coverage": self.cov, "assumptions": self.assumptions, "wall_s": round(time.time() - self.t0, 2),
              "violations": len(self.violations), "known_findings_reported": self.known, "notes": self.notes}
        os.makedirs(EVID, exist_ok=True)
        json.dump(ev, open(os.path.join(EVID, f"{self.pid}.json"), "w"), indent=1, default=str)
        for k in self.known:
            print(f"KNOWN-FINDING: property={self.pid} {k}")
        seen = set()
        for what, path, no_input in self.violations:
            if path in seen:
                continue
            seen.add(path)
            print(f"VIOLATION property={self.pid} replay={path}" + (" no-failing-input-found" if no_input else ""))
        if not self.violations:
            print(f"OK property={self.pid} tier={self.tier} seed={self.seed} obligations={self.cov['discharged']}/{self.cov['obligations']} "
                  f"evaluations={self.cov['evaluations']} validated_against_impl={self.cov['traces_validated_against_impl']} wall={ev['wall_s']}s")
        return 1 if self.violations else 0


def prepare_lean(rep, extra_targets=()):
    """Step 1 of the failure protocol: regenerate tables, build the property's theorem module and the driver,
    audit axioms.  Returns (proof_ok, detail).  A failing proof build is *not* yet a violation."""
    pid = rep.pid
    changed = regenerate_tables()
    entry = load_theorems(pid)
    mods = entry["module"] if isinstance(entry["module"], list) else [entry["module"]]
    targets = ["pyrmodel"] + [m for m in mods if m] + list(extra_targets)
    ok_drv, out_drv = lake_build(["pyrmodel"])
    if not ok_drv:
        raise HarnessError("model driver does not build:\n" + out_drv[-3000:])
    ok, out = lake_build(targets)
    rep.cov["checker_cmd"] = "cd lean && lake build " + " ".join(targets) + " && lake env lean <#print axioms of theorems.json[%s]>" % pid
    detail = {"tables_changed": changed, "build_ok": ok, "build_log_tail": "" if ok else out[-2500:], "forbidden": [], "audit": None}
    detail["forbidden"] = scan_forbidden()
    if ok:
        a = audit(pid)
        detail["audit"] = a
        rep.cov["obligations"] = a["obligations"]
        rep.cov["discharged"] = a["discharged"]
        rep.cov["theorems"] = [t["name"] + " (" + t.get("kind", "full") + ")" for t in entry["theorems"]]
        rep.cov["axioms_used"] = sorted({x for v in a["axioms"].values() for x in v})
    else:
        rep.cov["obligations"] = len(entry["theorems"])
        rep.cov["discharged"] = 0
    proof_ok = ok and not detail["forbidden"] and detail["audit"] and not detail["audit"]["failures"] \
        and detail["audit"]["discharged"] == detail["audit"]["obligations"] and detail["audit"]["obligations"] > 0
    if ok and rep.tier == "thorough":
        # independent re-check of the compiled theorem modules by the toolchain's external checker
        try:
            r = subprocess.run(["lake", "env", "leanchecker"] + [m for m in mods if m], cwd=LEAN, capture_output=True, text=True, timeout=1800)
            rep.cov["leanchecker"] = "ok" if r.returncode == 0 else ("FAILED: " + (r.stdout + r.stderr)[-400:])
            if r.returncode != 0:
                proof_ok = False
                detail["build_log_tail"] = "leanchecker: " + (r.stdout + r.stderr)[-1500:]
        except Exception as e:      # the external checker is an additional safeguard; its absence is recorded, not fatal
            rep.cov["leanchecker"] = f"not run: {type(e).__name__}"
    return proof_ok, detail
