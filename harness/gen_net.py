"""Stratified generator of network models (MDL) for the end-to-end correspondence streams (DESIGN.md 3.4)."""
import random
from fractions import Fraction as F
from .mdl import num, var, add, sub, mul, neg, pw, call

STATE_NAMES = ["x", "v", "xx", "x_v1", "r", "rr", "z", "q1", "x_v1_v1", "u2"]
ALG_NAMES = ["m", "r_out", "w1", "m_v1", "out"]
INPUT_NAMES = ["r_in", "r_in0", "m_in", "m_in2", "inp", "x_in", "weight_in0"]
CONST_NAMES = ["a", "k", "tau", "weight", "a1", "c_", "in_edge_0", "kk", "source", "index"]
NODE_LABELS = ["p1", "p2", "p3", "pop", "n_1", "a_", "b", "p10", "p1_v1", "node", "w1", "xx"]       # the last two coincide with variable names of the operator pool
CIRC_LABELS = ["c1", "c2", "sub", "lvl"]


def coef(rng, nonzero=True):
    c = F(rng.choice([-4, -3, -2, -1, 1, 2, 3, 4]), rng.choice([1, 1, 2]))
    return c


def gen_term(rng, pool_lin, pool_any, quadratic=True):
    k = rng.random()
    c = num(coef(rng))
    if k < 0.55 or not quadratic:
        return mul(c, var(rng.choice(pool_lin)))
    if k < 0.8:
        return mul(c, mul(var(rng.choice(pool_any)), var(rng.choice(pool_any))))
    if k < 0.9:
        return mul(var(rng.choice(pool_any)), pw(var(rng.choice(pool_any)), 2)) if rng.random() < 0.3 else mul(c, pw(var(rng.choice(pool_any)), 2))
    return sub(c, var(rng.choice(pool_lin)))


def sum_terms(rng, terms):
    e = terms[0]
    for t in terms[1:]:
        e = add(e, t) if rng.random() < 0.7 else sub(e, t)
    return e


def gen_op(rng, name, n_inputs=None, input_names=None, funcs=None, hostile=True, linear=False):
    """an operator: 1-2 state variables, optional algebraic (output) variable, inputs, constants; every declared name is used"""
    pick = (lambda pool, used: rng.choice([n for n in pool if n not in used]))
    used = set()
    n_state = rng.choice([1, 1, 2])
    states = []
    for _ in range(n_state):
        s = pick(STATE_NAMES if hostile else STATE_NAMES[:3], used); used.add(s); states.append(s)
    has_alg = rng.random() < 0.5
    algs = []
    if has_alg:
        a = pick(ALG_NAMES, used); used.add(a); algs.append(a)
        if rng.random() < 0.25:
            a2 = pick(ALG_NAMES, used); used.add(a2); algs.append(a2)
    if n_inputs is None:
        n_inputs = rng.choice([0, 1, 1, 2, 3])
    inputs = []
    for i in range(n_inputs):
        if input_names and i < len(input_names) and input_names[i] not in used:
            nm = input_names[i]
        else:
            nm = pick(INPUT_NAMES, used)
        used.add(nm); inputs.append(nm)
    consts = []
    for _ in range(rng.choice([1, 2])):
        c = pick(CONST_NAMES if hostile else CONST_NAMES[:3], used); used.add(c); consts.append(c)
    eqs = []
    pending = set(inputs + consts)       # names that must occur somewhere
    # algebraic variables: alg[0] from states/consts/inputs; alg[1] may use alg[0]
    for i, a in enumerate(algs):
        pool = states + consts + inputs + algs[:i]
        ts = [gen_term(rng, pool, states + consts + algs[:i], quadratic=not linear) for _ in range(rng.randint(1, 2))]
        if funcs and rng.random() < 0.5:
            f = rng.choice(funcs)
            ts.append(call(f, var(rng.choice(pool))))
        eqs.append({"lhs": a, "de": False, "rhs": sum_terms(rng, ts)})
    for s in states:
        pool = states + consts + inputs + algs
        ts = [gen_term(rng, pool, states + consts + algs, quadratic=not linear) for _ in range(rng.randint(1, 3))]
        eqs.append({"lhs": s, "de": True, "rhs": sum_terms(rng, ts)})
    # make sure every input/const is mentioned (PyRates would otherwise treat the declaration as unused)
    from .mdl import fvars
    mentioned = set()
    for e in eqs:
        mentioned |= fvars(e["rhs"])
    for nm in sorted(pending - mentioned):
        tgt = rng.choice([e for e in eqs if e["de"]])
        tgt["rhs"] = add(tgt["rhs"], mul(num(coef(rng)), var(nm))) if (nm in inputs or linear) else add(tgt["rhs"], mul(var(nm), var(rng.choice(states))))
    # a right-hand side in which every variable cancels (2*v - 2*v) is folded to a number by sympy; keep those out of the main stream
    from .mdl import ev
    for e in eqs:
        names_ = sorted(fvars(e["rhs"]))
        vals_ = set()
        for trial in range(4):
            env = {nm: F(rng.randint(-7, 7) * 2 + 1, 3) for nm in names_}
            try:
                vals_.add(ev(e["rhs"], lambda x: env[x], {f: ["1", "2", "0"] for f in (funcs or [])}))
            except Exception:
                vals_.add(trial)
        if len(vals_) == 1:
            e["rhs"] = add(e["rhs"], mul(num(F(3, 2)), var(states[0])))
    if rng.random() < 0.5:
        rng.shuffle(eqs)                  # operator declaration order of equations is arbitrary
        # algebraic chains must still be evaluable; PyRates sorts them itself
    out = algs[-1] if algs and rng.random() < 0.7 else states[0]
    vars_ = {}
    names = states + algs + inputs + consts
    order = list(names)
    if rng.random() < 0.5:
        rng.shuffle(order)
    for nm in order:
        if nm in inputs:
            vars_[nm] = {"decl": "input", "value": str(F(rng.randint(-3, 3), rng.choice([1, 2])))}
        elif nm in consts:
            vars_[nm] = {"decl": "const", "value": str(F(rng.choice([-3, -2, -1, 1, 2, 3, 5]), rng.choice([1, 2])))}
        else:
            vars_[nm] = {"decl": "output" if nm == out else "var", "value": str(F(rng.randint(-4, 4), rng.choice([1, 2])))}
    return {"name": name, "eqs": eqs, "vars": vars_, "_states": states, "_algs": algs, "_inputs": inputs, "_consts": consts, "_out": out}


def gen_model(rng, max_nodes=5, depth=None, funcs=None, hostile=True, overrides=True, linear=False, clones=False, min_nodes=1):
    n_ops = rng.randint(1, 4)
    ops = {}
    # operator names: prefix-related names (op / op_b / op1 / op10) are deliberately frequent
    name_pool = ["op", "op_b", "op1", "op10", "op1_slow", "li", "li_op", "in_edge_9", "op0", "op2", "op3"]
    rng.shuffle(name_pool)
    for i in range(n_ops):
        ops[f"O{i}"] = gen_op(rng, name_pool[i] if hostile else f"op{i}", funcs=funcs, hostile=hostile, linear=linear)
    # node templates: 1-3 operators, with in-node chaining: a later operator gets an input named like an earlier operator's output
    node_templates = {}
    n_nt = rng.randint(1, 3)
    extra = 0
    for j in range(n_nt):
        k = rng.choice([1, 1, 2, 3])
        chosen = rng.sample(sorted(ops), min(k, len(ops)))
        if len(chosen) >= 2 and rng.random() < 0.7:
            # build a dedicated consumer operator whose input is fed by the output(s) of the other operators of this node
            src = ops[chosen[0]]
            oid = f"C{extra}"; extra += 1
            cons = gen_op(rng, f"cop{oid}", n_inputs=rng.choice([1, 2]), input_names=[src["_out"]], funcs=funcs, hostile=hostile, linear=linear)
            if cons["_out"] not in [v for o in chosen for v in ops[o]["_inputs"]] and src["_out"] in cons["_inputs"]:
                ops[oid] = cons
                chosen = chosen[:rng.randint(1, len(chosen))] + [oid]
        if rng.random() < 0.5:
            rng.shuffle(chosen)
        nt = {"name": f"nt{j}", "ops": chosen}
        if overrides and rng.random() < 0.4:
            o = rng.choice(chosen)
            tgt = rng.choice(ops[o]["_consts"] + ops[o]["_states"])
            nt["overrides"] = {o: {tgt: str(F(rng.randint(-5, 5), rng.choice([1, 2])))}}
        node_templates[f"N{j}"] = nt
    # drop node templates whose operator graph is cyclic or ambiguous (two operators with the same name)
    def ok(nt):
        names = [ops[o]["name"] for o in nt["ops"]]
        if len(set(names)) < len(names):
            return False
        # feeders must not form a cycle: consumer ops only consume outputs of non-consumer ops by construction;
        # accidental name coincidences (an input named like some output of an op that itself consumes ...) are checked here
        outs = {ops[o]["name"]: ops[o]["_out"] for o in nt["ops"]}
        dep = {ops[o]["name"]: [ops[o2]["name"] for o2 in nt["ops"] if ops[o2]["_out"] in ops[o]["_inputs"]] for o in nt["ops"]}
        seen, stack = set(), set()

        def dfs(u):
            if u in stack: return False
            if u in seen: return True
            stack.add(u)
            for w in dep[u]:
                if not dfs(w): return False
            stack.discard(u); seen.add(u)
            return True
        return all(dfs(u) for u in dep)
    node_templates = {k: v for k, v in node_templates.items() if ok(v)}
    if not node_templates:
        node_templates = {"N0": {"name": "nt0", "ops": [sorted(ops)[0]]}}
    if clones:
        # structurally identical node templates with different per-node values: they are merged by vectorization
        for k in list(node_templates):
            for j in range(rng.choice([1, 2, 3])):
                nt = node_templates[k]
                cl = {"name": f"{nt['name']}c{j}", "ops": list(nt["ops"]), "overrides": {}}
                for o in nt["ops"]:
                    names = ops[o]["_consts"] + ops[o]["_states"] + ([i for i in ops[o]["_inputs"]] if rng.random() < 0.3 else [])
                    for nm in rng.sample(names, rng.randint(0, len(names))):
                        cl["overrides"].setdefault(o, {})[nm] = str(F(rng.randint(-4, 4), rng.choice([1, 2])))
                node_templates[f"{k}c{j}"] = cl
    depth = rng.choice([0, 0, 1, 2]) if depth is None else depth

    def gen_circ(level, name):
        if level == 0:
            n = rng.randint(min_nodes, max_nodes)
            pool = NODE_LABELS if hostile else NODE_LABELS[:7]
            if n > len(pool):
                pool = pool + [f"w{i}" for i in range(n)]      # (labels that coincide with variable names of the hostile pool, e.g. w1)
            labels = rng.sample(pool, n)
            return {"name": name, "nodes": {l: rng.choice(sorted(node_templates)) for l in labels}, "edges": []}
        k = rng.randint(1, 2)
        labels = rng.sample(CIRC_LABELS, k)
        return {"name": name, "circuits": {l: gen_circ(level - 1, f"{name}_{l}") for l in labels}, "edges": []}
    circ = gen_circ(depth, "net")

    # collect node paths per circuit level and add edges at every level
    def node_paths(c, prefix=""):
        out = []
        for l, ntid in c.get("nodes", {}).items():
            out.append((prefix + l, ntid))
        for l, sub in c.get("circuits", {}).items():
            out += node_paths(sub, prefix + l + "/")
        return out

    def add_edges(c):
        nps = node_paths(c)
        srcs, tgts = [], []
        for p, ntid in nps:
            for o in node_templates[ntid]["ops"]:
                op = ops[o]
                for s in op["_states"] + op["_algs"]:
                    srcs.append(f"{p}/{op['name']}/{s}")
                for i in op["_inputs"]:
                    tgts.append(f"{p}/{op['name']}/{i}")
        if srcs and tgts:
            ne = rng.choice([0, 1, 2, 3, 4, 6])
            for _ in range(ne):
                t = rng.choice(tgts)
                s = rng.choice(srcs)
                w = F(rng.choice([-3, -2, -1, 1, 2, 3, 5]), rng.choice([1, 1, 2]))
                c["edges"].append({"src": s, "tgt": t, "w": str(w)})
                r = rng.random()
                if r < 0.2:      # parallel edge
                    c["edges"].append({"src": s, "tgt": t, "w": str(F(rng.choice([1, 2, 3, 4])))})
                elif r < 0.4:    # another variable of the same source node into the same target
                    node = s.rsplit("/", 2)[0]
                    alts = [x for x in srcs if x.rsplit("/", 2)[0] == node and x != s]
                    if alts:
                        c["edges"].append({"src": rng.choice(alts), "tgt": t, "w": str(F(rng.choice([1, 2, 3])))})
        for sub in c.get("circuits", {}).values():
            add_edges(sub)
    add_edges(circ)
    clean_ops = {k: {kk: vv for kk, vv in v.items() if not kk.startswith("_")} for k, v in ops.items()}
    used_ops = {o for nt in node_templates.values() for o in nt["ops"]}
    return {"ops": {k: v for k, v in clean_ops.items() if k in used_ops}, "node_templates": node_templates, "circuit": circ}


def features(mdl):
    """stratum features of a model (for evidence + known-finding regions)"""
    from .mdl import flatten
    flat = flatten(mdl)
    f = {}
    tg = {}
    for e in flat["edges"]:
        tg.setdefault(tuple(e["tgt"]), []).append(tuple(e["src"]))
    f["n_nodes"] = len(flat["nodes"])
    f["n_edges"] = len(flat["edges"])
    f["parallel_edges"] = any(len(v) != len(set(v)) for v in tg.values())
    f["multi_var_same_node"] = any(len({s[:1] for s in v}) < len({s for s in v}) for v in tg.values())
    f["fan_in"] = max([len(v) for v in tg.values()] + [0])
    f["self_loop"] = any(e["src"][0] == e["tgt"][0] for e in flat["edges"])
    f["hierarchy"] = max(n["path"].count("/") for n in flat["nodes"])
    f["feeders"] = any(any(o2["output"] in [d["name"] for d in o["vars"] if d["decl"] == "input"] for o2 in n["ops"] if o2 is not o) for n in flat["nodes"] for o in n["ops"])
    f["multi_input_ops"] = any(sum(1 for d in o["vars"] if d["decl"] == "input") >= 2 for n in flat["nodes"] for o in n["ops"])
    return f
