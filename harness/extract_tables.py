"""Translator (DESIGN.md 2.2a): every constant/table the theorems depend on is read from /repo's *current working
tree* with Python's `ast` (no import of pyrates) and written to lean/PyRatesModel/Generated/Tables.lean.
The theorems are stated over these tables, so a changed table re-checks the proofs against what the code says now."""
import ast, os, json, re


def _parse(repo, rel):
    with open(os.path.join(repo, rel)) as f:
        return ast.parse(f.read())


def _class(tree, name):
    for n in ast.walk(tree):
        if isinstance(n, ast.ClassDef) and n.name == name:
            return n
    return None


def _func(node, name):
    for n in ast.walk(node):
        if isinstance(n, (ast.FunctionDef,)) and n.name == name:
            return n
    return None


def _class_attr(cls, attr):
    """literal value of a class-level assignment `attr = <literal>` (also annotated)"""
    for n in cls.body:
        tgt, val = None, None
        if isinstance(n, ast.Assign) and len(n.targets) == 1 and isinstance(n.targets[0], ast.Name):
            tgt, val = n.targets[0].id, n.value
        elif isinstance(n, ast.AnnAssign) and isinstance(n.target, ast.Name) and n.value is not None:
            tgt, val = n.target.id, n.value
        if tgt == attr:
            try:
                return ast.literal_eval(val)
            except Exception:
                return ast.unparse(val)
    return None


def lean_str(s):
    return '"' + s.replace("\\", "\\\\").replace('"', '\\"').replace("\n", "\\n").replace("\t", "\\t") + '"'


def lean_list(xs, f=lean_str):
    return "[" + ", ".join(f(x) for x in xs) + "]"


def extract(repo):
    """returns (tables: dict, missing: list)"""
    T, missing = {}, []

    def put(key, val):
        if val is None:
            missing.append(key)
        T[key] = val

    # ---- DDEHistory (C19)
    try:
        bb = _parse(repo, "pyrates/backend/base/base_backend.py")
        h = _class(bb, "DDEHistory")
        put("histInitialCapacity", _class_attr(h, "_INITIAL_CAPACITY") if h else None)
        put("histGrowFactor", _class_attr(h, "_GROW_FACTOR") if h else None)
    except Exception as e:  # pragma: no cover
        missing.append(f"base_backend.py: {e}")
    return T, missing


def render(T, missing):
    L = ["/- GENERATED on every check run by harness/extract_tables.py from /repo's working tree.  Do not edit. -/",
         "namespace PyRates.Tables", ""]

    def nat(key, default=0):
        v = T.get(key)
        if not isinstance(v, int) or isinstance(v, bool) or v < 0:
            v = default
        L.append(f"def {key} : Nat := {v}")
    nat("histInitialCapacity")
    nat("histGrowFactor")
    L += ["", "/-- entries the extractor could not find in the source (a theorem that needs one fails to build) -/",
          f"def missing : List String := {lean_list(missing)}", "", "end PyRates.Tables", ""]
    return "\n".join(L)


def write_tables(repo, path):
    T, missing = extract(repo)
    txt = render(T, missing)
    os.makedirs(os.path.dirname(path), exist_ok=True)
    old = open(path).read() if os.path.exists(path) else None
    if old != txt:
        with open(path, "w") as f:
            f.write(txt)
        return True
    return False


if __name__ == "__main__":
    import sys
    repo = sys.argv[1] if len(sys.argv) > 1 else "/repo"
    T, m = extract(repo)
    print(json.dumps({"tables": T, "missing": m}, indent=1, default=str))
