"""Translator (DESIGN.md 2.2a): every constant/table the theorems depend on is read from /repo's *current working
tree* with Python's `ast` (no import of pyrates) and written to lean/PyRatesModel/Generated/Tables.lean.
The theorems are stated over these tables, so a changed table re-checks the proofs against what the code says now."""
import ast, os, json, re


def _parse(repo, rel):
    with open(os.path.join(repo, rel)) as f:
        return ast.parse(f.read())


def _class(tree, name):
    for n in ast.walk(tree):
        if isinstance(n, ast.ClassDef) and n.name == name:
            return n
    return None


def _func(node, name):
    for n in ast.walk(node):
        if isinstance(n, (ast.FunctionDef,)) and n.name == name:
            return n
    return None


def _class_attr(cls, attr):
    """literal value of a class-level assignment `attr = <literal>` (also annotated)"""
    for n in cls.body:
        tgt, val = None, None
        if isinstance(n, ast.Assign) and len(n.targets) == 1 and isinstance(n.targets[0], ast.Name):
            tgt, val = n.targets[0].id, n.value
        elif isinstance(n, ast.AnnAssign) and isinstance(n.target, ast.Name) and n.value is not None:
            tgt, val = n.target.id, n.value
        if tgt == attr:
            try:
                return ast.literal_eval(val)
            except Exception:
                return ast.unparse(val)
    return None


def _fstring_template(js):
    out = ""
    for v in js.values:
        if isinstance(v, ast.Constant):
            out += str(v.value)
        elif isinstance(v, ast.FormattedValue):
            out += "{" + ast.unparse(v.value) + "}"
    return out.replace(" ", "")


def _hist_read_templates(fn):
    """(fixed-step template, adaptive template) of the code line emitted by add_var_hist"""
    for st in ast.walk(fn):
        if isinstance(st, ast.If) and "dt_adapt" in ast.unparse(st.test):
            def tmpl(body):
                for b in body:
                    for n in ast.walk(b):
                        if isinstance(n, ast.JoinedStr):
                            return _fstring_template(n)
                return None
            a, b = tmpl(st.body), tmpl(st.orelse)
            return (a, b) if "not dt_adapt" in ast.unparse(st.test) else (b, a)
    return None, None


def lean_str(s):
    return '"' + s.replace("\\", "\\\\").replace('"', '\\"').replace("\n", "\\n").replace("\t", "\\t") + '"'


def lean_list(xs, f=lean_str):
    return "[" + ", ".join(f(x) for x in xs) + "]"


def extract(repo):
    """returns (tables: dict, missing: list)"""
    T, missing = {}, []

    def put(key, val):
        if val is None:
            missing.append(key)
        T[key] = val

    # ---- DDEHistory (C19)
    try:
        bb = _parse(repo, "pyrates/backend/base/base_backend.py")
        h = _class(bb, "DDEHistory")
        put("histInitialCapacity", _class_attr(h, "_INITIAL_CAPACITY") if h else None)
        put("histGrowFactor", _class_attr(h, "_GROW_FACTOR") if h else None)
        # ---- fixed-step solvers (C03): does _solve_heun copy the array returned by the first call before the second call?
        bcls = _class(bb, "BaseBackend")
        heun = _func(bcls, "_solve_heun") if bcls else None
        put("heunCopiesRhs", _heun_copies_rhs(heun) if heun else None)
        # the storage condition of both loops: `i % store_step == 0` alone (a write past the record raises) or guarded by `idx < store_steps`
        eul = _func(bcls, "_solve_euler") if bcls else None
        g = [_store_guarded(f) for f in (eul, heun) if f]
        put("storeGuarded", (all(g) if g and all(x is not None for x in g) and len(set(g)) == 1 else None))
        runf = _func(bcls, "run") if bcls else None
        put("timeAxisKind", _time_axis_kind(runf) if runf else None)
        # ---- delayed terms (C10): the line the generated function reads its history with, per solver family
        avh = _func(bcls, "add_var_hist") if bcls else None
        fx, ad = _hist_read_templates(avh) if avh else (None, None)
        put("histReadFixed", fx)
        put("histReadAdaptive", ad)
    except Exception as e:  # pragma: no cover
        missing.append(f"base_backend.py: {e}")
    # ---- parser.replace / var_in_expression: allowed follow-up signs (C15, C05)
    try:
        pp = _parse(repo, "pyrates/backend/parser.py")
        for fname, var, key in (("replace", "allowed_follow_ops", "replaceAllowedFollowOps"),
                                ("var_in_expression", "follow_ops", "varInExprFollowOps")):
            fn = _func(pp, fname)
            val = None
            if fn:
                for st in ast.walk(fn):
                    if isinstance(st, ast.Assign) and len(st.targets) == 1 and isinstance(st.targets[0], ast.Name) and st.targets[0].id == var:
                        if isinstance(st.value, ast.Constant) and isinstance(st.value.value, str):
                            val = st.value.value
                        elif isinstance(st.value, ast.Name):       # a module-level string constant
                            for top in pp.body:
                                if isinstance(top, ast.Assign) and len(top.targets) == 1 and isinstance(top.targets[0], ast.Name) \
                                        and top.targets[0].id == st.value.id and isinstance(top.value, ast.Constant) and isinstance(top.value.value, str):
                                    val = top.value.value
            put(key, val)
    except Exception as e:  # pragma: no cover
        missing.append(f"parser.py: {e}")
    # ---- backend-specific function realisations (C02)
    try:
        with open(os.path.join(repo, "pyrates/backend/fortran/fortran_funcs.py")) as f:
            ff = f.read()
        m = re.search(r"\{fname\}\s*=\s*y\((n|n-1)\)\s*\+\s*x_inc\*\(y\(n\)\s*-\s*y\(n-1\)\)", ff)
        put("finterpBase", m.group(1) if m else None)
        tf = _parse(repo, "pyrates/backend/torch/torch_funcs.py")
        tdef = None
        for n in tf.body:
            if isinstance(n, ast.Assign) and len(n.targets) == 1 and isinstance(n.targets[0], ast.Name) and n.targets[0].id == "interp" \
                    and isinstance(n.value, ast.Constant) and isinstance(n.value.value, str):
                tdef = "".join(n.value.value.split())
        put("torchInterpDef", tdef)
        bcls2 = _class(_parse(repo, "pyrates/backend/base/base_backend.py"), "BaseBackend")
        pi = _func(bcls2, "_process_idx") if bcls2 else None
        keys = None
        if pi:
            tests, adds = [], []
            for n in ast.walk(pi):
                if isinstance(n, ast.Compare) and len(n.ops) == 1 and isinstance(n.ops[0], ast.NotIn) and "_offsetted_var_ids" in ast.unparse(n.comparators[0]):
                    tests.append(ast.unparse(n.left))
                if isinstance(n, ast.Call) and isinstance(n.func, ast.Attribute) and n.func.attr == "add" and "_offsetted_var_ids" in ast.unparse(n.func.value):
                    adds.append(ast.unparse(n.args[0]))
            keys = [tests, adds]
        put("idxOffsetKeys", keys)
    except Exception as e:  # pragma: no cover
        missing.append(f"backend funcs: {e}")
    # ---- auto-07p export (C18): blocked PAR range and the slot that carries the time
    try:
        fb = _parse(repo, "pyrates/backend/fortran/fortran_backend.py")
        fcls = _class(fb, "FortranBackend")
        rng_ = _class_attr(fcls, "_AUTO_BLOCKED_PAR_RANGE") if fcls else None
        put("autoBlocked", list(rng_) if isinstance(rng_, tuple) and len(rng_) == 2 else None)
        src = open(os.path.join(repo, "pyrates/backend/fortran/fortran_backend.py")).read()
        m = re.search(r'call \{func_name\}\(args\((\d+)\), y, dy', src)
        put("autoTimeSlot", int(m.group(1)) if m else None)
    except Exception as e:  # pragma: no cover
        missing.append(f"fortran_backend.py: {e}")
    # ---- reserved variable names (C20 / C05): check_vname
    try:
        ot0 = _parse(repo, "pyrates/frontend/template/operator.py")
        cv = _func(ot0, "check_vname")
        for var, key in (("disallowed_names", "disallowedNames"), ("disallowed_name_parts", "disallowedNameParts")):
            val = None
            if cv:
                for st in ast.walk(cv):
                    if isinstance(st, ast.Assign) and len(st.targets) == 1 and isinstance(st.targets[0], ast.Name) and st.targets[0].id == var:
                        try:
                            val = list(ast.literal_eval(st.value))
                        except Exception:
                            val = None
            put(key, val)
    except Exception as e:  # pragma: no cover
        missing.append(f"check_vname: {e}")
    # ---- module-level caches (C13): what keys OperatorTemplate.cache, and are the per-circuit IR caches reset at the start of apply()?
    try:
        ot = _parse(repo, "pyrates/frontend/template/operator.py")
        cls = _class(ot, "OperatorTemplate")
        ap = _func(cls, "apply") if cls else None
        keyed = None
        if ap:
            # expression(s) used as subscript of self.cache
            names = set()
            for n in ast.walk(ap):
                if isinstance(n, ast.Subscript) and isinstance(n.value, ast.Attribute) and n.value.attr == "cache":
                    sl = n.slice
                    names.add(ast.unparse(sl))
            src = {}
            for n in ast.walk(ap):
                if isinstance(n, ast.Assign) and len(n.targets) == 1 and isinstance(n.targets[0], ast.Name):
                    src[n.targets[0].id] = ast.unparse(n.value)
            exprs = [src.get(x, x) for x in names]
            keyed = bool(exprs) and all(("self.equations" in e and "self.variables" in e and "self.name" in e) for e in exprs)
        put("opCacheKeyIncludesDefinition", keyed)
        ct = _parse(repo, "pyrates/frontend/template/circuit.py")
        ccls = _class(ct, "CircuitTemplate")
        capp = _func(ccls, "apply") if ccls else None
        called = {ast.unparse(n.func) for n in ast.walk(capp) if isinstance(n, ast.Call)} if capp else set()
        put("irCachesResetAtApply", ("clear_ir_caches" in called and "clear_edge_caches" in called) if capp else None)
    except Exception as e:  # pragma: no cover
        missing.append(f"caches: {e}")
    # ---- backends (C20): supported solvers, dispatch structure of _solve, feature flags, vectorization guard
    try:
        specs = [("base", "pyrates/backend/base/base_backend.py", "BaseBackend"), ("torch", "pyrates/backend/torch/torch_backend.py", "TorchBackend"),
                 ("jax", "pyrates/backend/jax/jax_backend.py", "JaxBackend"), ("fortran", "pyrates/backend/fortran/fortran_backend.py", "FortranBackend"),
                 ("julia", "pyrates/backend/julia/julia_backend.py", "JuliaBackend"), ("matlab", "pyrates/backend/matlab/matlab_backend.py", "MatlabBackend")]
        backends = {}
        for key, rel, cname in specs:
            try:
                tree = _parse(repo, rel)
            except Exception:
                continue
            cls = _class(tree, cname)
            if cls is None:
                continue
            info = {"class": cname, "parent": (ast.unparse(cls.bases[0]) if cls.bases else None)}
            for attr in ("SUPPORTED_SOLVERS", "SUPPORTS_SPARSE_JACOBIAN", "SUPPORTS_EDGE_DELAY_BUFFER"):
                v = _class_attr(cls, attr)
                info[attr] = list(v) if isinstance(v, tuple) else v
            sv = None
            for n in cls.body:
                if isinstance(n, ast.FunctionDef) and n.name == "_solve":
                    sv = n
            if sv is not None:
                body = [b for b in sv.body if not (isinstance(b, ast.Expr) and isinstance(b.value, ast.Constant))]
                first = ast.unparse(body[0]) if body else ""
                info["validates_first"] = first.replace(" ", "") == "self._validate_solver(solver)"
                branches = []
                for b in body:
                    if isinstance(b, ast.If):
                        t = ast.unparse(b.test).replace(" ", "")
                        m = re.fullmatch(r"solver==['\"](\w+)['\"]", t)
                        rets = [ast.unparse(r.value.func) if isinstance(r.value, ast.Call) else ast.unparse(r.value)
                                for r in ast.walk(b) if isinstance(r, ast.Return) and r.value is not None]
                        # all returns of the branch must implement the same solver family
                        branches.append([m.group(1) if m else "?" + t, rets[-1] if rets else ""])
                last = body[-1] if body else None
                ft = (ast.unparse(last.value.func) if isinstance(last.value, ast.Call) else ast.unparse(last.value)) \
                    if isinstance(last, ast.Return) and last.value is not None else ""
                info["branches"] = branches
                info["fallthrough"] = ft
            backends[key] = info
        put("backends", backends)
        ct2 = _parse(repo, "pyrates/frontend/template/circuit.py")
        vf = _func(_class(ct2, "CircuitTemplate"), "_validate_backend_args")
        forb = None
        if vf:
            for n in ast.walk(vf):
                if isinstance(n, ast.If):
                    t = ast.unparse(n.test)
                    if "vectorize" in t and " in " in t:
                        for c in ast.walk(n.test):
                            if isinstance(c, ast.List):
                                forb = [ast.literal_eval(e) for e in c.elts]
        put("vectorizeForbiddenBackends", forb)
        # the network-wide ring-buffer requirement flag (`NetworkGraph._uses_edge_delay_buffer`): sticky iff, outside `__init__`, it is only ever
        # assigned the constant True (a later connection cannot take the requirement of an earlier one back)
        ic = _parse(repo, "pyrates/ir/circuit.py")
        ng = _class(ic, "NetworkGraph")
        vals = []
        for fn in [n for n in ng.body if isinstance(n, ast.FunctionDef) and n.name != "__init__"] if ng else []:
            for n in ast.walk(fn):
                if isinstance(n, ast.Assign) and any(ast.unparse(t) == "self._uses_edge_delay_buffer" for t in n.targets):
                    vals.append(isinstance(n.value, ast.Constant) and n.value.value is True)
        put("ringFlagSticky", (all(vals) if vals else None))
    except Exception as e:  # pragma: no cover
        missing.append(f"backends: {e}")
    return T, missing


def _time_axis_kind(fn):
    """classify the statement `times = ...` of BaseBackend.run: 'linspaceOpen' = np.linspace(0.0, T, num=n, endpoint=False),
    'arangeStep' = np.arange(n) * step; anything else: None (unknown)"""
    for st in ast.walk(fn):
        if isinstance(st, ast.Assign) and len(st.targets) == 1 and isinstance(st.targets[0], ast.Name) and st.targets[0].id == "times":
            v = st.value
            src = ast.unparse(v).replace(" ", "")
            if src in ("np.linspace(0.0,T,num=n_time_points,endpoint=False)", "np.linspace(0,T,num=n_time_points,endpoint=False)"):
                return "linspaceOpen"
            if src in ("np.arange(n_time_points)*step", "step*np.arange(n_time_points)"):
                return "arangeStep"
            return None
    return None


def _is_copying(expr):
    """expr syntactically produces a fresh array from a call result: np.array(f(..)), np.copy(f(..)), f(..).copy(), +f(..), 1*f(..), f(..) + 0 ..."""
    if isinstance(expr, ast.Call):
        fn = expr.func
        if isinstance(fn, ast.Attribute) and fn.attr in ("copy",) and not expr.args:
            return True
        if isinstance(fn, ast.Attribute) and fn.attr in ("array", "copy", "asarray_copy") and isinstance(fn.value, ast.Name) and fn.value.id in ("np", "numpy"):
            # np.array(x) copies by default; np.array(x, copy=False) does not
            for kw in expr.keywords:
                if kw.arg == "copy" and isinstance(kw.value, ast.Constant) and kw.value.value is False:
                    return False
            return True
        return False
    if isinstance(expr, ast.BinOp):      # arithmetic on an ndarray allocates a new array
        return True
    return False


def _store_guarded(fn):
    """the `if` that writes `state_rec[idx, :] = y` inside the solver loop: True iff its test also requires `idx < store_steps`"""
    for loop in [n for n in ast.walk(fn) if isinstance(n, ast.For)]:
        for st in loop.body:
            if isinstance(st, ast.If) and any(isinstance(b, ast.Assign) and "state_rec" in ast.unparse(b.targets[0]) for b in st.body):
                t = ast.unparse(st.test).replace(" ", "")
                if t == "i%store_step==0":
                    return False
                if t in ("i%store_step==0andidx<store_steps", "idx<store_stepsandi%store_step==0"):
                    return True
                return None
    return None


def _heun_copies_rhs(fn):
    """In `_solve_heun`: the name bound to the first `func(...)` result that is later combined with a second `func(...)` call.
    True iff that binding is syntactically a copy (see _is_copying) or the first result is never referenced after the second call."""
    loops = [n for n in ast.walk(fn) if isinstance(n, ast.For)]
    if not loops:
        return None
    body = loops[-1].body
    first = None
    for st in body:
        if isinstance(st, ast.Assign) and len(st.targets) == 1 and isinstance(st.targets[0], ast.Name):
            calls = [c for c in ast.walk(st.value) if isinstance(c, ast.Call) and isinstance(c.func, ast.Name) and c.func.id == "func"]
            if calls and first is None:
                first = (st.targets[0].id, st.value)
    if first is None:
        return None
    name, val = first
    direct = isinstance(val, ast.Call) and isinstance(val.func, ast.Name) and val.func.id == "func"
    if direct:
        return False
    return _is_copying(val)


def render(T, missing):
    L = ["/- GENERATED on every check run by harness/extract_tables.py from /repo's working tree.  Do not edit. -/",
         "namespace PyRates.Tables", ""]

    def nat(key, default=0):
        v = T.get(key)
        if not isinstance(v, int) or isinstance(v, bool) or v < 0:
            v = default
        L.append(f"def {key} : Nat := {v}")
    nat("histInitialCapacity")
    nat("histGrowFactor")
    L.append("/-- the history read emitted for fixed-step solvers is `hist(t*dt - d)[idx]` (t = step counter scaled to time units) -/")
    L.append(f"def histFixedStepScalesT : Bool := {'true' if T.get('histReadFixed') == '{lhs}=hist(t*{dt}-{d})[{idx}]' else 'false'}")
    L.append("/-- the history read emitted for adaptive solvers is `hist(t - d)[idx]` -/")
    L.append(f"def histAdaptiveUsesT : Bool := {'true' if T.get('histReadAdaptive') == '{lhs}=hist(t-{d})[{idx}]' else 'false'}")
    L.append("/-- the two-point formula of the generated Fortran `finterp` starts from sample `n-1` -/")
    L.append(f"def finterpBaseIsPrev : Bool := {'true' if T.get('finterpBase') == 'n-1' else 'false'}")
    tk = T.get("idxOffsetKeys") or [[], []]
    L.append("/-- `_process_idx` tests membership with the very expression it inserts into `_offsetted_var_ids` -/")
    L.append(f"def idxOffsetKeyConsistent : Bool := {'true' if (len(tk[0]) == 1 and tk[0] == tk[1]) else 'false'}")
    TORCH_INTERP = "definterp(x_new,x,y):x_new=as_tensor(x_new,dtype=x.dtype)i2=clamp(searchsorted(x,x_new,right=True),1,x.shape[0]-1)i1=i2-1w=clamp((x_new-x[i1])/(x[i2]-x[i1]),0.0,1.0)returny[i1]+w*(y[i2]-y[i1])"
    L.append("/-- the torch backend's `interp` definition is the clamped two-point formula that the correspondence was validated for -/")
    L.append(f"def torchInterpIsLinear : Bool := {'true' if T.get('torchInterpDef') == TORCH_INTERP else 'false'}")
    L.append(f"def heunCopiesRhs : Bool := {'true' if T.get('heunCopiesRhs') is True else 'false'}")
    L.append(f"def storeGuarded : Bool := {'true' if T.get('storeGuarded') is True else 'false'}")
    L.append(f"/-- BaseBackend.run builds `times` as np.arange(n)*step (true) or as linspace(0,T,n,endpoint=False)/unknown (false) -/")
    L.append(f"def timeAxisIsArange : Bool := {'true' if T.get('timeAxisKind') == 'arangeStep' else 'false'}")
    # backends table: inheritance of class attributes is resolved here (a subclass without its own attribute inherits BaseBackend's)
    B = T.get("backends") or {}
    base = B.get("base", {})

    def attr(k, a, default):
        v = B.get(k, {}).get(a)
        if v is None:
            v = base.get(a)
        return default if v is None else v

    def method_implements(ret):
        # `self._solve_euler` / `super()._solve_scipy_dde` / `super()._solve` -> what it implements
        m = re.search(r"_solve_(\w+)$", ret)
        if m:
            nm = m.group(1)
            return "scipy" if nm.startswith("scipy") else nm
        if re.fullmatch(r"super\(.*\)\._solve", ret.replace(" ", "")):
            return "super"
        return "?" + ret
    L.append("structure BackendT where")
    L.append("  name : String")
    L.append("  supported : List String")
    L.append("  validatesFirst : Bool")
    L.append("  branches : List (String × String)   -- explicitly tested solver name ↦ what the returned method implements")
    L.append("  fallthrough : String                -- what the final return implements; \"super\" = delegates to the base class")
    L.append("  hasOwnSolve : Bool")
    L.append("  sparseJac : Bool")
    L.append("  edgeDelayBuffer : Bool")
    L.append("deriving Repr, DecidableEq")
    items = []
    for k in ("base", "torch", "jax", "fortran", "julia", "matlab"):
        if k not in B:
            continue
        info = B[k]
        own = "branches" in info
        br = [(b[0], method_implements(b[1])) for b in info.get("branches", [])]
        items.append("{ name := %s, supported := %s, validatesFirst := %s, branches := %s, fallthrough := %s, hasOwnSolve := %s, sparseJac := %s, edgeDelayBuffer := %s }" % (
            lean_str(k), lean_list([str(x) for x in attr(k, "SUPPORTED_SOLVERS", [])]), "true" if info.get("validates_first") else "false",
            "[" + ", ".join("(%s, %s)" % (lean_str(a), lean_str(b)) for a, b in br) + "]", lean_str(method_implements(info.get("fallthrough", "")) if own else "super"),
            "true" if own else "false", "true" if attr(k, "SUPPORTS_SPARSE_JACOBIAN", True) is True else "false",
            "true" if attr(k, "SUPPORTS_EDGE_DELAY_BUFFER", True) is True else "false"))
    L.append("def backends : List BackendT := [" + ",\n  ".join(items) + "]")
    L.append(f"def ringFlagSticky : Bool := {'true' if T.get('ringFlagSticky') is True else 'false'}")
    L.append(f"def vectorizeForbiddenBackends : List String := {lean_list([str(x) for x in (T.get('vectorizeForbiddenBackends') or [])])}")
    ab = T.get("autoBlocked") or [0, 0]
    L.append(f"def autoBlockedLo : Nat := {int(ab[0])}")
    L.append(f"def autoBlockedHi : Nat := {int(ab[1])}")
    L.append(f"def autoTimeSlot : Nat := {int(T.get('autoTimeSlot') or 0)}")
    for key in ("disallowedNames", "disallowedNameParts"):
        L.append(f"def {key} : List String := {lean_list([str(x) for x in (T.get(key) or [])])}")
    for key in ("opCacheKeyIncludesDefinition", "irCachesResetAtApply"):
        L.append(f"def {key} : Bool := {'true' if T.get(key) is True else 'false'}")
    for key in ("replaceAllowedFollowOps", "varInExprFollowOps"):
        v = T.get(key)
        L.append(f"def {key} : String := {lean_str(v if isinstance(v, str) else '')}")
    L += ["", "/-- entries the extractor could not find in the source (a theorem that needs one fails to build) -/",
          f"def missing : List String := {lean_list(missing)}", "", "end PyRates.Tables", ""]
    return "\n".join(L)


def write_tables(repo, path):
    T, missing = extract(repo)
    txt = render(T, missing)
    os.makedirs(os.path.dirname(path), exist_ok=True)
    old = open(path).read() if os.path.exists(path) else None
    if old != txt:
        with open(path, "w") as f:
            f.write(txt)
        return True
    return False


if __name__ == "__main__":
    import sys
    repo = sys.argv[1] if len(sys.argv) > 1 else "/repo"
    T, m = extract(repo)
    print(json.dumps({"tables": T, "missing": m}, indent=1, default=str))
