"""Shared end-to-end machinery for the network properties: run the real PyRates code on an MDL case (in a forked child),
ask the Lean model, evaluate the oracle, compare exactly."""
import os, json, warnings
from fractions import Fraction as F
import numpy as np
from . import common as C
from . import mdl as M

STANDINS = {"sigmoid": ["1", "2", "0"], "absv": ["0", "3", "1"], "maxi": ["1", "1", "2", "0"], "mini": ["0", "2", "1", "1"]}


def bits(q):
    q = F(q)
    d = q.denominator
    if d & (d - 1):
        return 999
    return abs(q.numerator).bit_length() + d.bit_length()


def bind_standins(func, interp):
    """re-bind sympy-unknown function names in the generated module to exact integer polynomials (DESIGN 2.3)"""
    g = getattr(func, "__globals__", None)
    if g is None:
        return
    try:
        from pyrates.backend.base.base_funcs import base_funcs
    except Exception:
        base_funcs = {}
    for name, c in (interp or {}).items():
        name = base_funcs.get(name, {}).get("call", name)      # the generated code calls the registry's call name (absv -> abs)
        c = [float(F(x)) for x in c]
        if len(c) == 3:
            g[name] = (lambda c: (lambda a: c[0] + c[1] * a + c[2] * a * a))(c)
        else:
            g[name] = (lambda c: (lambda a, b: c[0] + c[1] * a + c[2] * b + c[3] * a * b))(c)


def impl_vector_field(case):
    """case: {"mdl":..., "points":[{path: q}], "pis":[{path:q}] , "style":{}, "in_place":bool, "interp":{}}
    -> {"layout":{path: idx}, "args":{name: value}, "y0":{path:q}, "dy":[{path:q}], "n": len(y)} | {"error":..}"""
    mdl = case["mdl"]
    with M.Scratch():
        with warnings.catch_warnings():
            warnings.simplefilter("ignore")
            try:
                via = case.get("via", "python")
                if via == "yaml":
                    # the model is defined in a YAML file (case["yaml_text"]) and loaded with from_yaml
                    from pyrates import CircuitTemplate
                    from pyrates.frontend.template import clear_cache
                    clear_cache()
                    os.makedirs("ymod", exist_ok=True)
                    ydir = os.path.join(os.getcwd(), "ymod")
                    open("ymod/model.yaml", "w").write(case["yaml_text"].replace("@@YDIR@@", ydir))
                    for fn in ("other.yaml",):
                        if os.path.exists(os.path.join(ydir, fn)):
                            os.remove(os.path.join(ydir, fn))
                    for fn, text in case.get("yaml_files", {}).items():
                        open(os.path.join(ydir, fn), "w").write(text.replace("@@YDIR@@", ydir))
                    c = CircuitTemplate.from_yaml(os.path.join(os.getcwd(), "ymod", "model", case["yaml_root"]))
                else:
                    c, ops, nts = M.build_pyrates(mdl, style=case.get("style"))
                other, other_before = None, None
                if case.get("other_holder") and getattr(c, "nodes", None):
                    # the node templates of this circuit are also held by a second circuit: overrides addressed to this circuit's nodes must not reach it
                    from pyrates import CircuitTemplate as _CT
                    from .props.c14 import snap_node
                    other = _CT(name="other_holder", nodes=dict(c.nodes), edges=[], path=None)
                    other_before = {l: snap_node(nt) for l, nt in other.nodes.items()}
                for path, val in mdl.get("post_values", {}).items():       # update_var after construction (C07)
                    c.update_var(node_vars={path: float(F(val))})
                extra_kw = {}
                for h in case.get("history", []):                           # C07/C14 histories of public API calls
                    if h[0] == "update_var":
                        c.update_var(node_vars={k: (np.array([float(F(x)) for x in v]) if isinstance(v, list) else float(F(v))) for k, v in h[1].items()})
                    elif h[0] == "update_edge":
                        c.update_var(edge_vars=[(h[1], h[2], {k: float(F(v)) for k, v in h[3].items()})])
                    elif h[0] == "node_values":
                        extra_kw["node_values"] = {k: (np.array([float(F(x)) for x in v]) if isinstance(v, list) else float(F(v))) for k, v in h[1].items()}
                    elif h[0] == "derive_edges":
                        # derived circuit: update_template(edges=...) returns a new template; continue with h[2] in ("derived", "base")
                        d = c.update_template(edges=[(e["src"], e["tgt"], None, {"weight": float(F(e["w"]))}) for e in h[1]])
                        if h[3]:
                            (d if h[3][0] == "derived" else c).update_var(edge_vars=[(h[3][1], h[3][2], {"weight": float(F(h[3][3]))})])
                        c = d if h[2] == "derived" else c
                    elif h[0] == "compile_discard":
                        # compile once (not in place) and throw the result away: must not influence later results
                        c.get_run_func("tmp_vf", step_size=1e-3, vectorize=bool(h[1]), float_precision="float64", verbose=False, in_place=False, clear=True, **extra_kw)
                if via == "roundtrip":
                    from pyrates import CircuitTemplate
                    from pyrates.frontend.template import clear_cache
                    os.makedirs("ymod", exist_ok=True)
                    c.to_yaml(os.path.join(os.getcwd(), "ymod", "dump.yaml"))
                    clear_cache()
                    c = CircuitTemplate.from_yaml(os.path.join(os.getcwd(), "ymod", "dump", mdl["circuit"]["name"]))
                func, args, names, smap = c.get_run_func("vf", step_size=1e-3, vectorize=False, float_precision="float64", verbose=False,
                                                         in_place=case.get("in_place", True), clear=False, backend=case.get("backend", "default"), **extra_kw)
            except Exception as e:
                return {"error": type(e).__name__, "msg": str(e)[:300], "stage": "compile"}
            try:
                bind_standins(func, case.get("interp"))
                names = list(names)
                y0 = np.array(args[1], dtype=float).copy()
                n = y0.shape[0]
                layout = {}
                for p, idx in smap.items():
                    layout[p] = idx if isinstance(idx, int) else [int(i) for i in np.atleast_1d(idx)] if not isinstance(idx, tuple) else list(idx)
                argvals = {}
                for i, nm in enumerate(names):
                    if i >= 3:
                        a = np.asarray(args[i])
                        argvals[nm] = [C.f2s(x) for x in a.reshape(-1)]
                out = []
                for pt, pi in zip(case["points"], case.get("pis") or [{}] * len(case["points"])):
                    y = np.zeros(n)
                    for p, idx in smap.items():
                        if isinstance(idx, tuple):
                            y[idx[0]:idx[1]] = float(F(pt[p]))
                        else:
                            y[idx] = float(F(pt[p]))
                    a2 = list(args)
                    for p, v in pi.items():
                        if p in names:
                            i = names.index(p)
                            a2[i] = np.full(np.shape(args[i]), float(F(v))) if np.shape(args[i]) else float(F(v))
                    a2[2] = np.zeros_like(np.asarray(args[2], dtype=float))
                    try:
                        dy = np.array(func(0, y, *a2[2:]), dtype=float)
                    except Exception as e:
                        out.append({"error": type(e).__name__, "msg": str(e)[:200]})
                        continue
                    d = {}
                    for p, idx in smap.items():
                        d[p] = C.f2s(dy[idx[0]] if isinstance(idx, tuple) else dy[idx])
                    out.append(d)
                res_ = {"layout": layout, "args": argvals, "y0": {p: C.f2s(y0[idx[0]] if isinstance(idx, tuple) else y0[idx]) for p, idx in smap.items()},
                        "dy": out, "n": int(n)}
                if other is not None:
                    from .props.c14 import snap_node
                    after = {l: snap_node(nt) for l, nt in other.nodes.items()}
                    res_["other_holder_changed"] = [l for l in other_before if other_before[l] != after.get(l)]
                return res_
            except Exception as e:
                return {"error": type(e).__name__, "msg": str(e)[:300], "stage": "evaluate"}


def oracle_case(case):
    """-> {"dy":[{path:q}], "vals":[...], "bits": max} or {"error": "cyclic/unresolved"}"""
    flat = M.flatten(case["mdl"])
    res, mb = [], 0
    try:
        for pt, pi in zip(case["points"], case.get("pis") or [{}] * len(case["points"])):
            vals, dy = M.oracle_eval(flat, {k: F(v) for k, v in pt.items()}, case.get("interp"), {k: F(v) for k, v in pi.items()})
            mb = max([mb] + [bits(v) for v in vals.values()] + [bits(v) for v in dy.values()])
            res.append({k: C.q2s(v) for k, v in dy.items()})
    except (ValueError, RecursionError) as e:
        return {"error": str(e)[:60]}
    return {"dy": res, "bits": mb, "flat": flat}


def model_request(case, flat):
    """Lean model request; parameter variations are applied to the declared values before sending"""
    reqs = []
    for pt, pi in zip(case["points"], case.get("pis") or [{}] * len(case["points"])):
        fl = json.loads(json.dumps(flat))
        for n in fl["nodes"]:
            for o in n["ops"]:
                for d in o["vars"]:
                    k = f"{n['path']}/{o['name']}/{d['name']}"
                    if k in pi:
                        d["value"] = pi[k]
        reqs.append(dict(comp="net", fuel=60, points=[pt], interp=case.get("interp") or {}, **fl))
    return reqs


def shrink_case(case, is_bad, budget=60):
    """delta-debug an MDL case: drop edges, nodes, points while `is_bad(case)` stays true (is_bad runs the real code in a forked child)"""
    import copy

    def edges_of(c):
        out = [(c, i) for i in range(len(c.get("edges", [])))]
        for sub in c.get("circuits", {}).values():
            out += edges_of(sub)
        return out

    def nodes_of(c, prefix=""):
        out = [(c, l, prefix + l) for l in c.get("nodes", {})]
        for l, sub in c.get("circuits", {}).items():
            out += nodes_of(sub, prefix + l + "/")
        return out
    cur = copy.deepcopy(case)
    tries = 0
    changed = True
    while changed and tries < budget:
        changed = False
        # drop one edge
        k = 0
        while True:
            es = edges_of(cur["mdl"]["circuit"])
            if k >= len(es) or tries >= budget:
                break
            trial = copy.deepcopy(cur)
            c, i = edges_of(trial["mdl"]["circuit"])[k]
            del c["edges"][i]
            tries += 1
            if is_bad(trial):
                cur = trial
                changed = True
            else:
                k += 1
        # drop one node (with its edges and point entries)
        k = 0
        while True:
            ns = nodes_of(cur["mdl"]["circuit"])
            if k >= len(ns) or len(ns) <= 1 or tries >= budget:
                break
            trial = copy.deepcopy(cur)
            c, l, full = nodes_of(trial["mdl"]["circuit"])[k]
            del c["nodes"][l]

            def strip(cc, prefix=""):
                cc["edges"] = [e for e in cc.get("edges", []) if not (prefix + e["src"]).startswith(full + "/") and not (prefix + e["tgt"]).startswith(full + "/")]
                for ll, sub in cc.get("circuits", {}).items():
                    strip(sub, prefix + ll + "/")
            strip(trial["mdl"]["circuit"])
            trial["points"] = [{p: v for p, v in pt.items() if not p.startswith(full + "/")} for pt in trial["points"]]
            trial["pis"] = [{p: v for p, v in pi.items() if not p.startswith(full + "/")} for pi in trial.get("pis", [{}] * len(trial["points"]))]
            if not c["nodes"]:
                k += 1
                continue
            tries += 1
            if is_bad(trial):
                cur = trial
                changed = True
            else:
                k += 1
    return cur


# ------------------------------------------------------------------------------------------ run()-based observation
def impl_run(case):
    """case: {"mdl", "run": {"T","dt","dts"?, "solver", "vectorize", "outputs": dict|list, "inputs": {path: [[..]..] or [..]}, "cutoff"?, "backend"?},
              "style", "interp", "in_place"}
    -> {"index":[q..], "cols":[[label, [q..]], ...]} | {"error":..}.  label = str for plain columns, list for MultiIndex tuples."""
    mdl, rc = case["mdl"], case["run"]
    with M.Scratch():
        with warnings.catch_warnings():
            warnings.simplefilter("ignore")
            try:
                c, ops, nts = M.build_pyrates(mdl, style=case.get("style"))
                for path, val in mdl.get("post_values", {}).items():
                    c.update_var(node_vars={path: float(F(val))})
                hist_kw = {}
                for h in case.get("history", []):          # override histories (C07): update_var and apply-time node_values
                    if h[0] == "update_var":
                        c.update_var(node_vars={k: (np.array([float(F(x)) for x in v]) if isinstance(v, list) else float(F(v))) for k, v in h[1].items()})
                    elif h[0] == "node_values":
                        hist_kw["node_values"] = {k: (np.array([float(F(x)) for x in v]) if isinstance(v, list) else float(F(v))) for k, v in h[1].items()}
                kw = dict(simulation_time=float(F(rc["T"])), step_size=float(F(rc["dt"])), solver=rc.get("solver", "euler"),
                          outputs=rc["outputs"], vectorize=rc.get("vectorize", True), float_precision="float64", verbose=False,
                          in_place=case.get("in_place", True), clear=True)
                if rc.get("dts") is not None:
                    kw["sampling_step_size"] = float(F(rc["dts"]))
                if rc.get("cutoff") is not None:
                    kw["cutoff"] = float(F(rc["cutoff"]))
                if rc.get("backend"):
                    kw["backend"] = rc["backend"]
                kw.update(rc.get("kwargs") or {})
                kw.update(hist_kw)
                if rc.get("inputs"):
                    kw["inputs"] = {k: np.array([[float(F(x)) for x in row] for row in v]) if v and isinstance(v[0], list)
                                    else np.array([float(F(x)) for x in v]) for k, v in rc["inputs"].items()}
                    if rc.get("inputs_col_vector"):
                        kw["inputs"] = {k: (a.reshape(-1, 1) if a.ndim == 1 else a) for k, a in kw["inputs"].items()}
                import warnings as _w
                if case.get("first_run"):
                    # an earlier run on the *same template object* with other settings (default in_place=True); its result is discarded
                    kw0 = dict(kw, **case["first_run"])
                    try:
                        c.run(**kw0)
                    except Exception:
                        from pyrates import clear_frontend_caches
                        clear_frontend_caches()
                with _w.catch_warnings(record=True) as wl:
                    _w.simplefilter("always")
                    res = c.run(**kw)
                warns = sorted({type(w.message).__name__ for w in wl if "PyRates" in type(w.message).__name__})
            except Exception as e:
                return {"error": type(e).__name__, "msg": str(e)[:300]}
            cols = []
            for j, col in enumerate(res.columns):
                label = [str(x) for x in col] if isinstance(col, tuple) else str(col)
                cols.append([label, [C.f2s(x) for x in res.values[:, j]]])
            return {"index": [C.f2s(t) for t in res.index.values], "cols": cols, "warnings": warns}


def oracle_traj(case):
    """Euler/Heun iterates of the specification's vector field from the declared initial values -> {"rows":[{path:q}], "bits":..} | {"error"}"""
    flat = M.flatten(case["mdl"])
    rc = case["run"]
    dt = F(rc["dt"])
    steps = round(F(rc["T"]) / dt)
    sp = M.state_paths(flat)
    init = {}
    for n in flat["nodes"]:
        for o in n["ops"]:
            for d in o["vars"]:
                init[f"{n['path']}/{o['name']}/{d['name']}"] = F(d["value"])
    sigma = {p: init[p] for p in sp}
    ext = case.get("ext_inputs") or []     # [{"tgt": path, "samples": [q..]}] already resolved to single target variables
    interp = case.get("interp") or {}
    rows, mb = [], 0

    # discretely delayed edges (C09): during step k they deliver weight * (source value at step k - D), D = round(delay/dt), 0 before the start
    delayed = [e for e in flat["edges"] if e.get("delay") is not None]
    plain = dict(flat, edges=[e for e in flat["edges"] if e.get("delay") is None])
    hist = []     # value tables of the previous steps, oldest first

    def field(sig, k, record=False):
        fl = plain if delayed else flat
        if ext or delayed:
            fl = json.loads(json.dumps(fl))
            # an extrinsic input is one more source of the input variable
            for i, x in enumerate(ext):
                n, o, v = x["tgt"].rsplit("/", 2)
                fl["nodes"].append({"path": f"__ext{i}", "ops": [{"name": "e", "output": "u", "vars": [{"name": "u", "decl": "other", "value": str(F(x["samples"][k]) if k < len(x["samples"]) else 0)}], "eqs": []}]})
                fl["edges"].append({"src": [f"__ext{i}", "e", "u"], "tgt": [n, o, v], "w": "1"})
            for i, e in enumerate(delayed):
                D = round(F(e["delay"]) / dt)
                val = F(e["w"]) * hist[k - D]["/".join(e["src"])] if k - D >= 0 else F(0)
                fl["nodes"].append({"path": f"__del{i}", "ops": [{"name": "e", "output": "u", "vars": [{"name": "u", "decl": "other", "value": str(val)}], "eqs": []}]})
                fl["edges"].append({"src": [f"__del{i}", "e", "u"], "tgt": e["tgt"], "w": "1"})
        vals, dy = M.oracle_eval(fl, sig, interp)
        if record:
            hist.append(vals)
        return dy
    try:
        for k in range(steps):
            rows.append({p: C.q2s(v) for p, v in sigma.items()})
            k1 = field(sigma, k, record=True)
            if rc.get("solver", "euler") == "euler":
                sigma = {p: sigma[p] + dt * k1[p] for p in sp}
            else:
                s1 = {p: sigma[p] + dt * k1[p] for p in sp}
                k2 = field(s1, k)
                sigma = {p: sigma[p] + dt / 2 * (k1[p] + k2[p]) for p in sp}
            mb = max([mb] + [bits(v) for v in sigma.values()] + [bits(v) for v in k1.values()])
    except (ValueError, RecursionError) as e:
        return {"error": str(e)[:60]}
    return {"rows": rows, "bits": mb, "flat": flat, "steps": steps}


def model_traj_request(case, flat):
    rc = case["run"]
    init = {}
    for n in flat["nodes"]:
        for o in n["ops"]:
            for d in o["vars"]:
                init[f"{n['path']}/{o['name']}/{d['name']}"] = d["value"]
    inputs = []
    for x in case.get("ext_inputs") or []:
        n, o, v = x["tgt"].rsplit("/", 2)
        inputs.append({"tgt": [n, o, v], "samples": x["samples"]})
    dt = F(rc["dt"])
    delayed = [{"src": e["src"], "tgt": e["tgt"], "w": e["w"], "steps": round(F(e["delay"]) / dt)} for e in flat["edges"] if e.get("delay") is not None]
    fl = dict(flat, edges=[e for e in flat["edges"] if e.get("delay") is None])
    return dict(comp="nettraj", fuel=60, dt=rc["dt"], steps=round(F(rc["T"]) / F(rc["dt"])), heun=rc.get("solver", "euler") == "heun",
                init=init, interp=case.get("interp") or {}, inputs=inputs, delayed=delayed, **fl)
