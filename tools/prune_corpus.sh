#!/bin/bash
# keep only corpus cases that pass on the clean tree when replayed alone
cd /verif
for f in $(find corpus -name '*.json' | sort); do
  pid=$(echo $f | cut -d/ -f2)
  out=$(timeout 900 ./check $pid --replay /verif/$f 2>&1 | tail -1)
  case "$out" in
    OK*) ;;
    *) echo "drop $f: $(echo $out | cut -c1-100)"; rm -f $f;;
  esac
done
