#!/bin/bash
# Re-run every kept seeded change against the checks as they are now, without touching /repo or /verif:
# a scratch worktree of /repo's HEAD and a scratch copy of /verif are used (VERIF_REPO points the harness at the worktree).
# usage: tools/revalidate_seeds.sh [seed-id-glob]      -> writes /verif/seeded/REVALIDATION.json
PAT=${1:-*}
RV=/tmp/rv
rm -rf $RV/verif; mkdir -p $RV
git -C /repo worktree remove --force $RV/repo 2>/dev/null; git -C /repo worktree prune
git -C /repo worktree add -q --detach $RV/repo HEAD || exit 2
START_HEAD=$(git -C /repo rev-parse --short HEAD)
rsync -a --exclude replays --exclude .git /verif/ $RV/verif/
mkdir -p $RV/verif/replays
OUT=$RV/results.jsonl; : > $OUT
for d in /verif/seeded/$PAT/; do
  sid=$(basename $d); [ -f $d/meta.json ] || continue
  pid=$(python3 -c "import json;print(json.load(open('$d/meta.json'))['property'])")
  det=$(python3 -c "import json;print(json.load(open('$d/meta.json'))['detected_by_check'])")
  cd $RV/repo && git reset -q --hard HEAD && git clean -fdq
  if git apply -3 $d/patch.diff >/dev/null 2>&1 && [ -z "$(git diff --name-only --diff-filter=U)" ]; then applies=true; else applies=false; git reset -q --hard HEAD; fi
  demo_rc=null; own_rc=null; nb=""; nb_rc=null
  if $applies; then
    W=$(mktemp -d); (cd $W && PYTHONPATH=$RV/repo timeout 900 /venv/bin/python $d/demo.py $RV/repo >/dev/null 2>&1); demo_rc=$?; rm -rf $W
    (cd $RV/verif && VERIF_REPO=$RV/repo timeout 3000 ./check $pid --tier quick >/dev/null 2>&1); own_rc=$?
    case "$det" in by-*) nb=$(echo $det | grep -o 'C[0-9][0-9]' | tr '\n' ' ');; esac
    if [ "$own_rc" != "1" ] && [ -n "$nb" ]; then
      nb_rc=0
      for q in $nb; do (cd $RV/verif && VERIF_REPO=$RV/repo timeout 3000 ./check $q --tier quick >/dev/null 2>&1); r=$?; [ "$r" = "1" ] && nb_rc=1; done
    fi
    if [ "$own_rc" != "1" ] && [ "$det" = "thorough-only" ]; then (cd $RV/verif && VERIF_REPO=$RV/repo timeout 6000 ./check $pid --tier thorough >/dev/null 2>&1); nb="$pid-thorough"; nb_rc=$?; fi
  fi
  echo "{\"id\": \"$sid\", \"property\": \"$pid\", \"recorded\": \"$det\", \"patch_applies_to_head\": $applies, \"demo_rc_with_patch\": $demo_rc, \"own_check_rc\": $own_rc, \"neighbour\": \"$nb\", \"neighbour_rc\": $nb_rc}" | tee -a $OUT
done
cd /; git -C /repo worktree remove --force $RV/repo; git -C /repo worktree prune
python3 - <<EOF
import json
rows=[json.loads(l) for l in open("$OUT")]
head=open("/dev/null")
import subprocess
h="$START_HEAD"
json.dump({"repo_head": h, "note": "own_check_rc / neighbour_rc: 1 = VIOLATION reported (caught), 0 = not caught, 2 = harness error; patches that no longer apply to HEAD were written against an earlier tree (their mechanism was usually touched by a later repair)", "rows": rows}, open("/verif/seeded/REVALIDATION.json","w"), indent=1)
print("caught by own check:", sum(r["own_check_rc"]==1 for r in rows), "by neighbour/thorough:", sum(r["neighbour_rc"]==1 for r in rows), "not applicable to HEAD:", sum(not r["patch_applies_to_head"] for r in rows), "missed:", [r["id"] for r in rows if r["patch_applies_to_head"] and r["own_check_rc"]!=1 and r["neighbour_rc"]!=1])
EOF
rm -rf $RV
