"""copy replay cases that once exposed a deviation (genuine defects since repaired, seeded changes) into corpus/<PID>/ - they run first in every check.
usage: promote_corpus.py [max_per_property]"""
import json, glob, os, sys, hashlib
V = "/verif"
mx = int(sys.argv[1]) if len(sys.argv) > 1 else 6
by = {}
for f in glob.glob(f"{V}/replays/*-viol-*.json"):
    pid = os.path.basename(f).split("-")[0]
    try:
        d = json.load(open(f))
    except Exception:
        continue
    if not isinstance(d.get("case"), dict):
        continue
    by.setdefault(pid, []).append((os.path.getsize(f), f, d))
for pid, lst in sorted(by.items()):
    if not os.path.exists(f"{V}/harness/props/{pid.lower()}.py") or "corpus" not in open(f"{V}/harness/props/{pid.lower()}.py").read():
        continue
    lst.sort(key=lambda x: x[0])
    n = 0
    for size, f, d in lst:
        if n >= mx:
            break
        sub = "auto" if (pid == "C12" and d["case"].get("auto")) else ""
        dst = os.path.join(V, "corpus", pid, sub)
        os.makedirs(dst, exist_ok=True)
        h = hashlib.sha1(json.dumps(d["case"], sort_keys=True).encode()).hexdigest()[:10]
        out = os.path.join(dst, f"{h}.json")
        if not os.path.exists(out):
            json.dump({"case": d["case"], "origin": d.get("what", "")[:200]}, open(out, "w"))
            n += 1
    print(pid, "corpus cases:", len(glob.glob(f"{V}/corpus/{pid}/**/*.json", recursive=True)))
