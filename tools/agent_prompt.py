"""print the prompt given to an independent sub-agent that seeds a property-breaking change (nothing from /verif is revealed)"""
import json, sys
pid = sys.argv[1]
n = int(sys.argv[2]) if len(sys.argv) > 2 else 3
for l in open('/verif/properties.jsonl'):
    p = json.loads(l)
    if p['id'] == pid:
        break
print(f"""You are helping to evaluate a verification framework by playing the role of a developer who introduces a subtle bug.

Repository: a scratch git worktree of the PyRates project (Python; dynamical-system code generator) at /tmp/wt/{pid} .
Work ONLY inside /tmp/wt/{pid} and /tmp/wt/{pid}-out (create the latter). Never touch /repo or /verif, never read /verif.
Run Python as:  cd /tmp/wt/{pid} && PYTHONPATH=/tmp/wt/{pid} /venv/bin/python ...   (so the worktree's pyrates is imported, not the installed one;
verify with `python -c "import pyrates; print(pyrates.__file__)"`). Generated files (pyrates_run.py etc.) are written to the current directory: run your
demos from a temporary directory under /tmp/wt/{pid}-out and clean up. There is no network. For the fortran backend prepend PATH=/venv/bin:$PATH.

The semantic property the project is supposed to satisfy:

  id: {p['id']}
  title: {p['title']}
  statement: {p['statement']}
  quantified over: {p['quantifier']['text']}
  relevant files: {', '.join(p['anchors']['files'])}
  mechanisms: {json.dumps(p['anchors']['mechanism'])}

Task: produce {n} DIFFERENT, independent source changes to the library code under /tmp/wt/{pid}/pyrates (not the tests), each of which
  (a) BREAKS this property (the library then silently computes/returns something the property forbids, or fails to raise where the property demands it),
  (b) still imports/compiles and PASSES the existing test suite:  cd /tmp/wt/{pid} && PYTHONPATH=/tmp/wt/{pid} /venv/bin/python -m pytest -q -p no:cacheprovider --timeout=900 tests
      (exactly two tests, both in tests/test_auto_emission.py, fail already on the unchanged tree because meson is not on PATH; all 49 others must still pass; the suite takes about 1-2 minutes),
  (c) is REALISTIC (looks like a plausible refactoring slip, optimisation, off-by-one, wrong key, aliasing, stale cache, swapped argument ... that a reviewer could miss) and
  (d) needs something SPECIFIC to manifest: an unusual input, a particular multi-step sequence of API calls, a particular configuration, two cooperating sites that each look
      fine alone, a boundary size - NOT something that every ordinary use would expose at once.
Prefer changes in different functions/files and of different kinds. Keep each change small (a few lines).

For each change i = 1..{n} write to /tmp/wt/{pid}-out/m<i>/ :
  patch.diff   - `git diff` of the change against the worktree's HEAD (applies with `git apply` at the repository root),
  demo.py      - a small self-contained program (run from a temp dir with PYTHONPATH pointing at the repo root given as argv[1], default the worktree)
                 that exits 0 and prints PASS on the UNCHANGED tree and exits 1 and prints FAIL (with the observed vs expected values) on the changed tree,
  notes.md     - 5-10 lines: what was changed, why it breaks the property, what is needed for it to manifest, and the test-suite result you observed with the change applied.
After writing each patch.diff, REVERT the worktree (git checkout -- .) before starting the next change, and confirm demo.py prints PASS on the reverted tree.
Important: if on the unchanged tree the behaviour you wanted to break is ALREADY broken (the project has known defects), pick a different target so that demo.py really passes unchanged.
When finished reply with a short list: for each m<i> one line with the file/function changed and what manifests it. Do not write anything outside the two directories named above.""")
