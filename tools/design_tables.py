"""emit the generated tables of DESIGN.md Part I (theorems per property, seeded changes, known findings, repairs) as markdown"""
import json, glob, subprocess
V = "/verif"
th = json.load(open(f"{V}/lean/theorems.json"))
print("#### Table T — property theorems audited on every run (`lean/theorems.json`)\n")
print("| property | module | theorems (kind) |\n|---|---|---|")
for pid in sorted(th):
    e = th[pid]
    print(f"| {pid} | {', '.join(m.replace('PyRatesModel.', '') for m in e['module'])} | " + "; ".join(f"`{t['name'].split('.')[-1]}` ({t['kind']})" for t in e["theorems"]) + " |")
print("\n#### Table S — seeded changes and which check catches them\n")
print("| id | needs to manifest | detected | how |\n|---|---|---|---|")
for f in sorted(glob.glob(f"{V}/seeded/*/meta.json")):
    m = json.load(open(f))
    print(f"| {m['id']} | {m['needs_to_manifest']} | {m['detected_by_check']} | {m['what_was_run']} |")
kf = json.load(open(f"{V}/known_findings.json"))["findings"]
print("\n#### Table K — known findings (status known: reported as KNOWN-FINDING, exit 0)\n")
print("| id | property | what fails | region the check recognises |\n|---|---|---|---|")
for f in kf:
    if f["status"] == "known":
        print(f"| {f['id']} | {f['property']} | {f['what']} | {f.get('region', '')} |")
print("\n#### Table R — repairs committed to /repo (`fix:` commits, oldest first) \n")
log = subprocess.run(["git", "-C", "/repo", "log", "--reverse", "--format=%h %s"], capture_output=True, text=True).stdout.splitlines()
for l in log:
    if " fix:" in l:
        print(f"- `{l.split()[0]}` {l.split(' ', 1)[1]}")
