#!/bin/bash
# usage: tools/try_seed_scratch.sh <dir with patch.diff demo.py> <property id> [tier] [verif dir]
# like try_seed.sh, but never touches /repo: the patch is applied to a scratch worktree of /repo's HEAD (/tmp/rv2) and the
# harness is pointed at it with VERIF_REPO; the checks of <verif dir> (default: this checkout) are used.
D=$1; PID=$2; TIER=${3:-quick}; V=${4:-$(cd $(dirname $0)/.. && pwd)}
W=/tmp/rv2
if [ ! -d $W ]; then git -C /repo worktree add -q --detach $W HEAD || exit 2; fi
cd $W && git reset -q --hard $(git -C /repo rev-parse HEAD) && git clean -fdq
T=$(mktemp -d)
(cd $T && PYTHONPATH=$W timeout 900 /venv/bin/python $D/demo.py $W >/dev/null 2>&1; echo "demo_rc_clean=$?")
if ! git apply -3 $D/patch.diff >/dev/null 2>&1; then echo "PATCH FAILED"; git reset -q --hard HEAD; rm -rf $T; exit 2; fi
(cd $T && PYTHONPATH=$W timeout 900 /venv/bin/python $D/demo.py $W >/dev/null 2>&1; echo "demo_rc_changed=$?")
(cd $V && VERIF_REPO=$W timeout 3000 ./check $PID --tier $TIER 2>&1 | cut -c1-200 | tail -3; echo "check_rc=${PIPESTATUS[0]}")
git reset -q --hard HEAD; rm -rf $T
