#!/bin/bash
# re-run every registered quick check on the (clean) tree so that the committed evidence files come from an unmodified /repo
cd /verif
if [ -n "$(git -C /repo status --porcelain --untracked-files=no)" ]; then echo "/repo not clean"; exit 2; fi
for id in $(python3 -c "import json;print(' '.join(c['property_id'] for c in json.load(open('MANIFEST.json'))['checks']))"); do
  ./check $id --tier quick 2>&1 | tail -1 | cut -c1-200
done
