#!/bin/bash
# usage: tools/try_seed.sh <dir with patch.diff demo.py notes.md> <property id> [tier]
# applies the seeded change to /repo, runs the demonstration and the property's check, and always reverts.
D=$1; PID=$2; TIER=${3:-quick}
cd /repo || exit 2
if [ -n "$(git status --porcelain --untracked-files=no)" ]; then echo "/repo not clean"; exit 2; fi
W=$(mktemp -d)
echo "== demo on unchanged tree"; (cd $W && PYTHONPATH=/repo timeout 600 /venv/bin/python $D/demo.py /repo 2>&1 | tail -3; echo "demo_rc_clean=${PIPESTATUS[0]}")
if ! git apply --check $D/patch.diff 2>/dev/null; then echo "patch does not apply cleanly; trying 3-way"; fi
git apply -3 $D/patch.diff 2>&1 | tail -2 || { echo "PATCH FAILED"; git checkout -- .; exit 2; }
git diff --stat | tail -1
echo "== demo on changed tree"; (cd $W && PYTHONPATH=/repo timeout 600 /venv/bin/python $D/demo.py /repo 2>&1 | tail -3; echo "demo_rc_changed=${PIPESTATUS[0]}")
echo "== check $PID"; (cd /verif && timeout 3000 ./check $PID --tier $TIER 2>&1 | cut -c1-220 | tail -6; echo "check_rc=${PIPESTATUS[0]}")
git reset -q --hard HEAD; git status --porcelain --untracked-files=no
rm -rf $W
