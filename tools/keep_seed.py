"""copy a confirmed seeded change into /verif/seeded/<id>/ with meta.json
usage: keep_seed.py <srcdir> <property> <seed-id> <needs> <detected: yes|no|after-strengthening> <how detected / what was run>"""
import sys, os, shutil, json
src, pid, sid, needs, detected, ran = sys.argv[1:7]
dst = f"/verif/seeded/{sid}"
os.makedirs(dst, exist_ok=True)
for f in ("patch.diff", "demo.py", "notes.md"):
    if os.path.exists(os.path.join(src, f)):
        shutil.copy(os.path.join(src, f), os.path.join(dst, f))
json.dump({"id": sid, "property": pid, "breaks": pid, "needs_to_manifest": needs, "detected_by_check": detected,
           "what_was_run": ran, "origin": "independent sub-agent given only the property text and a scratch worktree",
           "confirmed": "demo.py exits 0 on the unchanged tree and 1 with the patch applied (tools/try_seed.sh); existing test suite passes with the patch (agent's run)"},
          open(os.path.join(dst, "meta.json"), "w"), indent=1)
print("kept", dst)
